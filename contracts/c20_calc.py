"""C20 -- the DISCRETE skeleton of the entanglement / information measures of quimb/calc.py and of the lazy partial-trace
operators of quimb/linalg/approx_spectral.py.

The numerical content (eigenvalues, logarithms, optimisation) is decided by the bounded run-time driver drivers/c20.py.
What is put under contract here is what those numbers are computed FROM: which subsystems are traced out, how the
subsystem indices are renumbered after a partial trace, which dimension list is handed on, which index of an einsum /
tensor network is summed, which digit base labels an outcome, whether an integer is read as a count or as a proportion.

Approach (as contracts/c15_kron.py): *structure-bounded, value-unbounded*.  The NUMBER of subsystems K is fixed per case
(K <= 4, K <= 3 where the case table would explode), the subsystem sets are enumerated (every subset / every disjoint pair
of subsets, for order-sensitive arguments every ordered tuple), every DIMENSION and every scalar parameter stays a symbolic
integer / real.  Numerical leaves (ptr, entropy, eigvalsh, tr_sqrt, ikron, expec, array_contract ...) are uninterpreted
function symbols whose ARGUMENTS encode the leaf's documented meaning canonically:

  ptr(p, dims, keep)          -> ptr<K>(p, d_0..d_{K-1}, m_0..m_{K-1})     m_q = (q in keep): the leaf keeps the SET of
                                 subsystems `keep`, ordered by increasing index (so the argument order of `keep` is
                                 immaterial; position r of the result is the r-th smallest kept index)
  entropy_subsys / tr_sqrt_subsys / logneg_subsys_approx(psi, dims, sysa[, sysb])  -> the same encoding by membership
  logneg / partial_transpose(rho, dims, sysa)                                     -> the same encoding by membership

so "the (dims, sysa, sysb) handed to the callee denote the same physical subsystems as the arguments" is an equality of
terms.  A subsystem-set argument (`sysa` given as an int, a tuple or any sequence in any order) is the abstract value
``SysSet`` (membership per position); ``int2tup`` and ``in`` only read membership.

Facts about quantum states that the shortcut paths rely on are NOT derived; they are stated once (``pure_axioms``), listed
in TRUSTED, and only ever used as hypotheses of a post-condition:
  (P1) for a pure state a spectral function of the reduced state of X equals that of the complement of X (Schmidt),
  (P2) adding / removing a subsystem of dimension 1 to / from X changes nothing,  (P3) the reduced state of nothing has
  entropy 0 (the state is normalised).

Functions under contract (E1): check_dims_and_indices, mutinf_subsys, mutinf, schmidt_gap, partial_transpose_norm, logneg,
negativity, logneg_subsys, one_way_classical_information, quantum_discord, concurrence (input state only), correlation, qid,
ent_cross_matrix (ALL numbers of sites), simulate_counts, dephase, kraus_op, projector (ALL n), measure, purify (ALL d)
(calc.py); gen_bipartite_spectral_fn.bipartite_spectral_fn (= entropy_subsys, tr_sqrt_subsys), lazy_ptr_linop,
lazy_ptr_ppt_linop (approx_spectral.py).  partial_transpose itself is under contract in C15 (all n).

fdx / E4 providers (``provider_fdx``): simulate_counts labelling on every basis state, the Pauli-string enumeration and
normalisation of pauli_decomp (+ the arithmetic obligation nmlz(n) * 2**n == 1 for all n), the argument plumbing of
pauli_correlations (callee stubbed), correlation on a complete small grid with the REAL ikron.

Known failures on the UNCHANGED tree (real defects, each reproduced natively -- ``replay`` of the contract / the fdx input).
The tree has since been repaired (schmidt_gap, simulate_counts, dephase, quantum_discord; ikron for the last one): on the
repaired tree all of them discharge, and selftest/mutants_c20.py puts each old defect back as a mutant that must fail:
  * schmidt_gap      index obligation `eigenvalue-1-exists`: A of total dimension 1, B not -> IndexError      (C20-c)
  * simulate_counts  `labels-use-base-phys_dim` (E1) / `certain-outcome-labelled-by-its-base-phys_dim-digits` and
                     `valid-labels-and-counts-sum-to-C` (fdx, phys_dim 3, 4, 5): labels are binary            (C20-e)
  * dephase          `number-of-non-zero-entries-is-the-requested-rank`, integer rand_rank = 1, d >= 2        (C20-f)
  * quantum_discord  `first-party-is-sysa` / `second-(measured)-party-is-sysb`: sysa > sysb (any K), K = 2     (C20-g)
  * correlation      fdx grid [sparse=True, ops=dense]: AttributeError when the two sites cover the system    (C20-k)
"""

import ast
import itertools
import os
import time

import z3

from vf.pyvc import (And, Arr, Contract, If, Implies, Loop, Max, Min, NS, Not, Opaque, Or, PyRaise, R, Unsupported, V, Z,
                     is_int, is_num, is_z3, register, REGISTRY)
from vf import lemmas
import vf.pyvc as P

CALC = "quimb/calc.py"
APX = "quimb/linalg/approx_spectral.py"
PID = ("C20",)
REAL = z3.RealSort()


# =====================================================================================================================
# abstract values and term encoders
# =====================================================================================================================


class SysSet:
    """a subsystem-set argument (int, tuple or any sequence, any order): membership per position 0..K-1"""

    def __init__(self, mem):
        self.mem = list(mem)

    def __repr__(self):
        return "SysSet{" + ",".join(str(q) for q, m in enumerate(self.mem) if m is True) + "}"


class St:
    """a state / operator value: V-term + (optionally) its matrix size and the physical subsystem sitting at each position
    (`base`: the term before any relabelling of the positions)"""

    def __init__(self, z, size=None, order=None, isvec=None, base=None):
        self.z, self.size, self.order, self.isvec = z, size, order, isvec
        self.base = z if base is None else base

    def __repr__(self):
        return f"St({self.z})"


def unz(x):
    if isinstance(x, St):
        return x.z
    return Z(x)


def U(name, args, sort=V):
    """application of an uninterpreted leaf symbol (same name + argument sorts -> same symbol)"""
    zs = [unz(a) for a in args]
    return z3.Function(name, *[z.sort() for z in zs], sort)(*zs)


def PROD(xs):
    r = 1
    for x in reversed(list(xs)):
        r = x if (isinstance(r, int) and r == 1) else x * r
    return r


def zeq(a, b):
    if not is_z3(a) and not is_z3(b):
        return a == b
    return Z(a) == Z(b)


def mvec(x, K):
    """membership vector (per position) of a subsystem-set value: SysSet, int, or a sequence of ints"""
    if isinstance(x, SysSet):
        return list(x.mem)  # (a callee handed a dims list of another length gets a term over another symbol: never equal)
    if is_int(x):
        x = (x,)
    if isinstance(x, (tuple, list)) and all(is_int(e) for e in x):
        out = []
        for q in range(K):
            cs = [zeq(e, q) for e in x]
            # (disjuncts in a canonical order: the membership term does not depend on the order of the sequence)
            out.append(True if any(c is True for c in cs) else (Or(*sorted([c for c in cs if is_z3(c)], key=str))
                                                                 if any(is_z3(c) for c in cs) else False))
        return out
    raise Unsupported(f"not a subsystem set: {x!r}")


def subsets(K, nonempty=False, proper=False):
    for bits in itertools.product((False, True), repeat=K):
        if nonempty and not any(bits):
            continue
        if proper and all(bits):
            continue
        yield bits


def sname(bits):
    return ".".join(str(q) for q, b in enumerate(bits) if b) or "-"


def t_ptr(p, dims, keep):
    return U(f"ptr{len(dims)}", [p, *dims, *keep])


def pure_axioms(dims, fn):
    """(P1)-(P3) for the spectral function  fn(membership vector) -> Real  of the reduced states of ONE pure state"""
    K = len(dims)
    ax = []
    for m in subsets(K):
        ax.append(fn(m) == fn(tuple(not x for x in m)))
        for q in range(K):
            m2 = tuple((not x) if j == q else x for j, x in enumerate(m))
            if m < m2:
                ax.append(Implies(dims[q] == 1, fn(m) == fn(m2)))
    return ax


def mark_case(cx, **kv):
    """mirror the case's concrete data in named constants, so that a failed obligation's model can be replayed"""
    for k, v in kv.items():
        if isinstance(v, bool):
            cx.assume(z3.Bool(f"case!{k}") == v)
        elif isinstance(v, int):
            cx.assume(z3.Int(f"case!{k}") == v)


def model_int(model, name, default=None):
    v = model.get(name)
    if v is None:
        return default
    try:
        return int(str(v))
    except ValueError:
        return default


class Base(Contract):
    """hooks shared by all contracts.  Products of dimensions are kept as MONOMIALS (multisets of the dimension symbols):
    ``prod`` registers its result, a product of two monomials is a monomial, and the floor division of a monomial by a
    sub-monomial is the exact quotient monomial (side condition ``dividend == divisor * quotient`` emitted as an ``enc``
    obligation; the divisor being non-zero is the engine's own ``divzero`` obligation).  This keeps the path conditions
    free of the general (sign-aware) floor-division encoding."""

    property_ids = PID
    nonlinear_hooks = True

    @staticmethod
    def _mono_table(cx):
        return cx.ghost.setdefault("_mono", {})

    def mono_of(self, cx, t):
        if isinstance(t, int) and t == 1:
            return ()
        if is_z3(t):
            e = self._mono_table(cx).get(t.get_id())
            if e is not None:
                return e[1]
        return None

    def mono_make(self, cx, factors):
        factors = tuple(sorted(factors, key=lambda f: str(f)))
        t = PROD(factors)
        if is_z3(t):
            self._mono_table(cx)[t.get_id()] = (t, factors)
        return t

    def on_fstring(self, cx, node):
        """f-strings whose parts are concrete (index labels such as f"i{q}" with a concrete q) are python strings"""
        out = ""
        for part in node.values:
            if isinstance(part, ast.Constant):
                out += str(part.value)
            elif isinstance(part, ast.FormattedValue) and part.format_spec is None and part.conversion == -1:
                v = cx.ev(part.value)
                if isinstance(v, bool) or not isinstance(v, (int, str)):
                    return NotImplemented
                out += str(v)
            else:
                return NotImplemented
        return out

    def call(self, cx, name, args, kwargs, node):
        if name == "prod":
            fs = list(args[0])
            if all(is_z3(f) and z3.is_const(f) and z3.is_int(f) for f in fs):
                return self.mono_make(cx, fs)
            return PROD(fs)
        if name == "__nlmul__":
            ma, mb = self.mono_of(cx, args[0]), self.mono_of(cx, args[1])
            if ma is not None and mb is not None:
                return self.mono_make(cx, ma + mb)
            return NotImplemented
        if name == "__nldivmod__":
            ma, mb = self.mono_of(cx, args[0]), self.mono_of(cx, args[1])
            if ma is None or mb is None:
                return NotImplemented
            rest = list(ma)
            for f in mb:
                hit = [k for k, g in enumerate(rest) if g.eq(f)]
                if not hit:
                    return NotImplemented
                rest.pop(hit[0])
            q = self.mono_make(cx, rest)
            cx.oblige(f"enc@{node.lineno}:exact-monomial-division", "enc", Z(args[0]) == Z(args[1]) * Z(q), node.lineno)
            return q, 0
        if name == "int2tup":
            # [leaf] an int becomes a 1-tuple, any other sequence a tuple: membership and order are unchanged
            x = args[0]
            return (x,) if is_int(x) else (tuple(x) if isinstance(x, list) else x)
        if name == "__contains__" and isinstance(args[0], SysSet):
            q = args[1]
            if isinstance(q, int):
                return args[0].mem[q] if 0 <= q < len(args[0].mem) else False
            return Or(*[And(q == j, m) for j, m in enumerate(args[0].mem)])
        if name == "__binop__" and args[0] == "Add" and isinstance(args[1], SysSet) and isinstance(args[2], SysSet):
            # concatenation of two index sequences: membership is the union
            return SysSet([(a is True or b is True) if not (is_z3(a) or is_z3(b)) else Or(a, b)
                           for a, b in zip(args[1].mem, args[2].mem)])
        if name == "check_dims_and_indices":
            return None  # own contract (CheckDimsAndIndices): raises iff an index is out of range -- SysSet indices are in range
        if name == "__isinstance__":
            v, cname = args
            if cname in ("numbers.Integral", "int", "numbers.Number"):
                return is_int(v) if cname != "numbers.Number" else is_num(v)
            if cname in ("float", "numbers.Real") and is_num(v):
                return (not is_int(v)) if cname == "float" else True  # (kinds: an int is not a float; both are Real)
        if name == "ptr":
            p, dims, keep = args
            K = len(dims)
            m = mvec(keep, K)
            return St(t_ptr(p, dims, m), size=PROD([d for d, b in zip(dims, m) if b is True]) if all(
                isinstance(b, bool) for b in m) else None, isvec=False)
        # a local closure (nested def) being called by name
        if name in cx.env and isinstance(cx.env[name], tuple) and len(cx.env[name]) == 3 and cx.env[name][0] == "def":
            return cx.call_closure(cx.env[name], args, kwargs)
        if name == "__binop__" and (isinstance(args[1], St) or isinstance(args[2], St)) and \
                all(isinstance(x, St) or is_num(x) for x in args[1:]):
            # arithmetic on opaque operators: an uninterpreted symbol per operation (no algebraic laws assumed)
            return St(U({"Sub": "minus"}.get(args[0], "op_" + args[0]), [x if isinstance(x, St) else R(x) for x in args[1:]]))
        return NotImplemented


def dims_inputs(cx, K):
    return [cx.Int(f"d{i}") for i in range(K)]


def dims_ge1(dims):
    return And(*[d >= 1 for d in dims])


def opts_case(cx):
    """the **approx_opts of the shortcut functions: one arbitrary option (pass-through is what is checked)"""
    return {"some_opt": cx.Opaque("some_opt")}


def thresh_cases():
    return ("None", "int")


def dims_from_model(model, K, lo=1):
    out = []
    for i in range(K):
        v = model_int(model, f"d{i}", None)
        out.append(max(lo, v) if v is not None else 2)
    return out


# =====================================================================================================================
# check_dims_and_indices
# =====================================================================================================================


@register
class CheckDimsAndIndices(Base):
    """raises ValueError iff some index of some tuple is outside range(len(dims)); otherwise returns None"""

    target = f"{CALC}::check_dims_and_indices"
    floor = 4

    def cases(self):
        return [NS(name=f"K={k},lens={la}+{lb}", K=k, la=la, lb=lb) for k in (1, 3) for la in (0, 1, 2) for lb in (1, 2)]

    def inputs(self, cx, case):
        self.idx = [cx.Int(f"a{i}") for i in range(case.la)] + [cx.Int(f"b{i}") for i in range(case.lb)]
        return dict(dims=dims_inputs(cx, case.K), syss=(tuple(self.idx[:case.la]), tuple(self.idx[case.la:])))

    def in_range(self, a):
        return And(*[And(0 <= i, i < len(a.dims)) for t in a.syss for i in t])

    def ensures(self, a, r, cx, case):
        return {"returns-None-only-when-all-in-range": And(r is None, self.in_range(a))}

    def ensures_raise(self, a, exc, cx, case):
        return {"raises-ValueError-only-when-some-index-out-of-range": And(exc == "ValueError", Not(self.in_range(a)))}


# =====================================================================================================================
# gen_bipartite_spectral_fn.bipartite_spectral_fn  (entropy_subsys, tr_sqrt_subsys)
# =====================================================================================================================


class ShortcutBase(Base):
    """shared by the subsystem-shortcut functions: K, the set A as a case, symbolic dims, approx_thresh None | int"""

    KS = (1, 2, 3, 4)

    def cases(self):
        return [NS(name=f"K={k},A={sname(A)},thresh={t}", K=k, A=A, thresh=t) for k in self.KS for A in subsets(k)
                for t in thresh_cases() if k < 4 or t == "int"]  # (K = 4: the threshold kind that has both routes)

    def base_inputs(self, cx, case):
        mark_case(cx, K=case.K, **{f"A{q}": b for q, b in enumerate(case.A)})
        return dict(dims=dims_inputs(cx, case.K), sysa=SysSet(case.A),
                    approx_thresh=None if case.thresh == "None" else cx.Int("approx_thresh"), approx_opts=opts_case(cx))

    def requires(self, a, case):
        return {"dims>=1": dims_ge1(a.dims)}


@register
class BipartiteSpectralFn(ShortcutBase):
    """returns  pure_default only when the complement of A is trivial (all its dimensions 1);  otherwise
    exact_fn(ptr(psi, dims, X)) or approx_fn(psi, dims, X, **approx_opts) with X = A or X = complement of A (same non-zero
    spectrum, P1), the approximate route exactly when a threshold is given and the size of the chosen side reaches it"""

    target = f"{APX}::gen_bipartite_spectral_fn.bipartite_spectral_fn"
    floor = 100

    def inputs(self, cx, case):
        d = self.base_inputs(cx, case)
        d["psi_ab"] = cx.Opaque("psi_ab")
        return d

    def attr(self, cx, base, attr, node):
        if base is None and attr == "pure_default":
            return cx.ghost.setdefault("pure_default", z3.Real("pure_default"))
        return NotImplemented

    def call(self, cx, name, args, kwargs, node):
        if name == "exact_fn":
            return ("exact", args, kwargs)
        if name == "approx_fn":
            return ("approx", args, kwargs)
        return super().call(cx, name, args, kwargs, node)

    def ensures(self, a, r, cx, case):
        K, A = case.K, list(case.A)
        notA = [not b for b in A]
        if is_z3(r):
            return {"default-value-returned": zeq(r, cx.ghost.get("pure_default", z3.Real("pure_default"))),
                    "default-only-when-the-complement-is-trivial": And(*[a.dims[q] == 1 for q in range(K) if not A[q]])}
        ok = isinstance(r, tuple) and len(r) == 3 and r[0] in ("exact", "approx")
        d = {"returns-exact-or-approx-value": ok}
        if not ok:
            return d
        kind, args, kw = r
        size = lambda m: PROD([a.dims[q] for q in range(K) if m[q]])
        if kind == "exact":
            st = args[0] if len(args) == 1 and isinstance(args[0], St) else None
            d["exact_fn-of-the-reduced-state-only"] = st is not None and not kw
            if st is None:
                return d
            alts = [(m, t_ptr(a.psi_ab, a.dims, m)) for m in (A, notA)]
            d["reduced-state-of-A-or-of-its-complement"] = Or(*[st.z == t for m, t in alts])
            if a.approx_thresh is not None:
                d["exact-only-below-threshold"] = Or(*[And(st.z == t, size(m) < a.approx_thresh) for m, t in alts])
            return d
        ok = len(args) == 3 and isinstance(args[0], Opaque)
        d["approx_fn(psi, dims, sys, **opts)"] = ok
        if not ok:
            return d
        m = mvec(args[2], K)
        d["same-state"] = args[0].z == a.psi_ab.z
        d["same-dims"] = isinstance(args[1], (list, tuple)) and len(args[1]) == K and And(*[zeq(x, y) for x, y in zip(args[1], a.dims)])
        d["subsystem-is-A-or-its-complement"] = m == A or m == notA
        d["options-passed-through"] = set(kw) == set(a.approx_opts) and all(kw[k] is a.approx_opts[k] for k in kw)
        d["approx-only-with-threshold-reached"] = a.approx_thresh is not None and size(m) >= a.approx_thresh
        return d


# =====================================================================================================================
# mutinf_subsys / mutinf
# =====================================================================================================================


def disjoint_pairs(K):
    """all (A, B): disjoint, both non-empty"""
    for A in subsets(K, nonempty=True):
        for B in subsets(K, nonempty=True):
            if not any(x and y for x, y in zip(A, B)):
                yield A, B


def union(A, B):
    return [bool(x or y) for x, y in zip(A, B)]


def t_SP(psi, dims, m):
    """[leaf entropy_subsys] entropy of the reduced state of the pure state psi on the subsystem SET m"""
    return U(f"entropy_subsys{len(dims)}", [psi, *dims, *m], REAL)


def same_dims(x, dims):
    return isinstance(x, (list, tuple)) and len(x) == len(dims) and And(*[zeq(u, v) for u, v in zip(x, dims)])


def same_opts(kw, expect):
    """keyword arguments handed on are exactly `expect` (identity for opaque values, equality for numbers)"""
    if set(kw) != set(expect):
        return False
    cs = []
    for k in kw:
        u, v = kw[k], expect[k]
        if u is v:
            continue
        if u is None or v is None or isinstance(u, Opaque) or isinstance(v, Opaque):
            return False
        cs.append(zeq(u, v))
    return And(*cs)


class PairBase(Base):
    KS = (2, 3, 4)

    def cases(self):
        return [NS(name=f"K={k},A={sname(A)},B={sname(B)},thresh={t}", K=k, A=A, B=B, thresh=t)
                for k in self.KS for A, B in disjoint_pairs(k) for t in thresh_cases() if k < 4 or t == "int"]

    def inputs(self, cx, case):
        mark_case(cx, K=case.K, **{f"A{q}": b for q, b in enumerate(case.A)}, **{f"B{q}": b for q, b in enumerate(case.B)})
        return dict(psi_abc=cx.Opaque("psi_abc"), dims=dims_inputs(cx, case.K), sysa=SysSet(case.A), sysb=SysSet(case.B),
                    approx_thresh=None if case.thresh == "None" else cx.Int("approx_thresh"), approx_opts=opts_case(cx))

    def requires(self, a, case):
        return {"dims>=1": dims_ge1(a.dims)}

    def all_opts(self, a):
        return dict(approx_thresh=a.approx_thresh, **a.approx_opts)


@register
class MutinfSubsys(PairBase):
    """result == S(A) + S(B) - S(A u B)  (entropies of the reduced states of the SAME pure state on the SAME dims; with
    P1-P3 as hypotheses for the route taken when everything outside A u B is trivial); every entropy_subsys call gets the
    state, the dims and approx_thresh / **approx_opts unchanged"""

    target = f"{CALC}::mutinf_subsys"
    floor = 100

    def call(self, cx, name, args, kwargs, node):
        if name == "entropy_subsys":
            psi, dims, sys_ = args
            cx.events.append(("entropy_subsys", psi, dims, kwargs))
            return t_SP(psi, dims, mvec(sys_, len(dims)))
        return super().call(cx, name, args, kwargs, node)

    def ensures(self, a, r, cx, case):
        A, B = list(case.A), list(case.B)
        S = lambda m: t_SP(a.psi_abc, a.dims, m)
        calls = [e for e in cx.events if e[0] == "entropy_subsys"]
        d = {"entropies-of-the-same-state": bool(calls) and all(e[1] is a.psi_abc for e in calls),
             "same-dims": And(*[same_dims(e[2], a.dims) for e in calls]),
             "threshold-and-options-passed-to-every-call": And(*[same_opts(e[3], self.all_opts(a)) for e in calls]),
             "S(A)+S(B)-S(AB)": Implies(And(*pure_axioms(a.dims, S), S((False,) * case.K) == 0),
                                        R(r) == S(A) + S(B) - S(union(A, B)))}
        return d


@register
class Mutinf(Base):
    """operator: H(ptr A) + H(ptr complement of A) - H(p, rank=rank);  ket: 2 S(A) = S(A) + S(B) - S(AB) under P1-P3"""

    target = f"{CALC}::mutinf"
    floor = 60

    def cases(self):
        return [NS(name=f"K={k},A={sname(A)},{kind}", K=k, A=A, isop=kind != "ket", rank=kind == "op,rank")
                for k in (1, 2, 3, 4) for A in subsets(k, nonempty=True) for kind in ("ket", "op", "op,rank")]

    def inputs(self, cx, case):
        return dict(p=cx.Opaque("p"), dims=dims_inputs(cx, case.K), sysa=SysSet(case.A),
                    rank=cx.Int("rank") if case.rank else None)

    def requires(self, a, case):
        return {"dims>=1": dims_ge1(a.dims)}

    @staticmethod
    def H(x, rank=None):
        """[leaf entropy] von Neumann entropy of an operator (rank: hint for a partial eigen-decomposition)"""
        return U("entropy", [x], REAL) if rank is None else U("entropy_rank", [x, rank], REAL)

    def call(self, cx, name, args, kwargs, node):
        if name == "isop":
            return cx.case.isop
        if name == "entropy":
            if len(args) != 1 or set(kwargs) - {"rank"}:
                raise Unsupported("entropy call shape")
            return self.H(args[0], kwargs.get("rank"))
        if name == "entropy_subsys":
            psi, dims, sys_ = args
            if kwargs or psi is not cx.old.p or same_dims(dims, cx.old.dims) is False:
                raise Unsupported("entropy_subsys call shape")
            cx.oblige(f"call-pre@{node.lineno}:entropy_subsys:same-dims", "call-pre", same_dims(dims, cx.old.dims), node.lineno)
            return t_SP(psi, dims, mvec(sys_, len(dims)))
        return super().call(cx, name, args, kwargs, node)

    def ensures(self, a, r, cx, case):
        A = list(case.A)
        notA = [not b for b in A]
        if case.isop:
            return {"H(A)+H(B)-H(AB,rank)": R(r) == self.H(t_ptr(a.p, a.dims, A)) + self.H(t_ptr(a.p, a.dims, notA)) - self.H(a.p, a.rank)}
        S = lambda m: t_SP(a.p, a.dims, m)
        return {"S(A)+S(B)-S(AB)-of-a-pure-state": Implies(And(*pure_axioms(a.dims, S), S((False,) * case.K) == 0),
                                                         R(r) == S(A) + S(notA) - S([True] * case.K))}


# =====================================================================================================================
# schmidt_gap
# =====================================================================================================================


class EigList:
    """result of eigvalsh(rho, k=k, which=which): min(k, size of rho) eigenvalues"""

    def __init__(self, rho, k, which, n):
        self.rho, self.k, self.which, self.n = rho, k, which, n


def clip_dims(ds):
    """dimensions of a solver model made small: 1 stays 1, anything larger becomes 2 or 3 (order relations between two
    dimensions are not preserved; the defects replayed depend on 'is 1' / 'is larger than 1' only)"""
    return [1 if d <= 1 else (2 if d == 2 else 3) for d in ds]


@register
class SchmidtGap(Base):
    """|l_0 - l_1| of eigvalsh(ptr(psi, dims, X), k=2, which='LM') with X = A or X = complement of A (P1); the constant 1.0
    only when one side is trivial; reading l_1 requires that the reduced state has at least two eigenvalues"""

    target = f"{CALC}::schmidt_gap"
    floor = 40
    bounded = ("entropies",)

    def cases(self):
        return [NS(name=f"K={k},A={sname(A)}", K=k, A=A) for k in (1, 2, 3, 4) for A in subsets(k, nonempty=True)]

    def inputs(self, cx, case):
        mark_case(cx, K=case.K, **{f"A{q}": b for q, b in enumerate(case.A)})
        return dict(psi_ab=cx.Opaque("psi_ab"), dims=dims_inputs(cx, case.K), sysa=SysSet(case.A))

    def requires(self, a, case):
        return {"dims>=1": dims_ge1(a.dims)}

    @staticmethod
    def EV(rho, k, which, idx):
        return U(f"eigvalsh_{which}", [rho, k, idx], REAL)

    def call(self, cx, name, args, kwargs, node):
        if name == "eigvalsh":
            rho = args[0]
            if not isinstance(rho, St) or rho.size is None or set(kwargs) != {"k", "which"}:
                raise Unsupported("eigvalsh call shape")
            # [leaf] partial eigen-decomposition: min(k, size) eigenvalues, ordered by the rule `which`
            return EigList(rho, kwargs["k"], kwargs["which"], Min(kwargs["k"], rho.size))
        if name == "__len__" and isinstance(args[0], EigList):
            return args[0].n
        if name == "__getitem__" and isinstance(args[0], EigList):
            el, idx = args
            cx.oblige(f"index@{node.lineno}:eigenvalue-{idx}-exists", "safety", And(idx >= -el.n, idx < el.n), node.lineno)
            return self.EV(el.rho, el.k, el.which, idx)
        return super().call(cx, name, args, kwargs, node)

    def attr(self, cx, base, attr, node):
        if isinstance(base, EigList) and attr == "size":
            return base.n
        return NotImplemented

    def ensures(self, a, r, cx, case):
        K, A = case.K, list(case.A)
        notA = [not b for b in A]
        if not is_z3(r):
            return {"constant-is-1": r == 1.0,
                    "constant-only-when-one-side-is-trivial": Or(And(*[a.dims[q] == 1 for q in range(K) if not A[q]]),
                                                                 And(*[a.dims[q] == 1 for q in range(K) if A[q]]))}
        alts = []
        for m in (A, notA):
            rho = t_ptr(a.psi_ab, a.dims, m)
            x = self.EV(rho, 2, "LM", 0) - self.EV(rho, 2, "LM", 1)
            alts.append(R(r) == If(x >= 0, x, -x))
        return {"gap-of-the-two-largest-eigenvalues-of-the-reduced-state-of-A-or-its-complement": Or(*alts)}

    def replay(self, model):
        import numpy as np
        import quimb as qu

        K = model_int(model, "case!K")
        if K is None:
            return dict(note="no case data in the model", reproduced=False)
        A = [q for q in range(K) if str(model.get(f"case!A{q}")) == "True"]
        dims = clip_dims(dims_from_model(model, K))
        D = int(np.prod(dims))
        psi = qu.qarray((np.arange(1, D + 1) * (1 + 0.5j)).reshape(-1, 1))
        psi = psi / np.linalg.norm(psi)
        call = f"schmidt_gap(psi[{D}], dims={dims}, sysa={tuple(A)})"
        rho = psi @ psi.conj().T
        t = np.asarray(rho).reshape(dims + dims)
        keep = A
        lam = None
        try:
            from drivers.c20 import ptrace
            lam = np.sort(np.linalg.eigvalsh(ptrace(np.asarray(psi), dims, keep)))[::-1]
        except Exception:  # noqa
            pass
        ref = float(lam[0] - (lam[1] if len(lam) > 1 else 0.0)) if lam is not None else None
        try:
            got = qu.schmidt_gap(psi, dims, tuple(A))
        except Exception as e:  # noqa
            return dict(call=call, observed=f"{type(e).__name__}: {e}", expected=ref, reproduced=True)
        bad = ref is not None and abs(float(got) - ref) > 1e-8
        return dict(call=call, observed=float(got), expected=ref, reproduced=bool(bad))


# =====================================================================================================================
# partial_transpose_norm / logneg / negativity / logneg_subsys
# =====================================================================================================================


def t_ptrans(p, dims, m):
    """[callee partial_transpose, contract in C15] the partial transpose of p over the subsystem SET m"""
    return U(f"partial_transpose{len(dims)}", [p, *dims, *m])


def t_PTN(p, dims, m):
    """[callee partial_transpose_norm] trace norm of the partial transpose of p over the subsystem SET m"""
    return U(f"partial_transpose_norm{len(dims)}", [p, *dims, *m], REAL)


def t_log2(x):
    return U("log2", [R(x)], REAL)


@register
class PartialTransposeNorm(Base):
    """ket: tr_sqrt(ptr(p, dims, X)) ** 2 with X = A or its complement (P1);  operator:
    norm_trace_dense(partial_transpose(p, dims, A), isherm=True)"""

    target = f"{CALC}::partial_transpose_norm"
    floor = 40

    def cases(self):
        return [NS(name=f"K={k},A={sname(A)},{kind}", K=k, A=A, isvec=kind == "ket")
                for k in (1, 2, 3, 4) for A in subsets(k, nonempty=True) for kind in ("ket", "op")]

    def inputs(self, cx, case):
        return dict(p=cx.Opaque("p"), dims=dims_inputs(cx, case.K), sysa=SysSet(case.A))

    def requires(self, a, case):
        return {"dims>=1": dims_ge1(a.dims)}

    def call(self, cx, name, args, kwargs, node):
        if name == "isvec":
            return cx.case.isvec
        if name == "tr_sqrt" and len(args) == 1 and not kwargs:
            return U("tr_sqrt", [args[0]], REAL)
        if name == "partial_transpose" and len(args) == 3 and not kwargs:
            p, dims, sysa = args
            cx.oblige(f"call-pre@{node.lineno}:partial_transpose:same-dims", "call-pre", same_dims(dims, cx.old.dims), node.lineno)
            return St(t_ptrans(p, cx.old.dims, mvec(sysa, len(dims))))
        if name == "norm_trace_dense" and len(args) == 1:
            return U("norm_trace_dense:" + ",".join(f"{k}={v}" for k, v in sorted(kwargs.items())), [args[0]], REAL)
        return super().call(cx, name, args, kwargs, node)

    def ensures(self, a, r, cx, case):
        A = list(case.A)
        notA = [not b for b in A]
        if case.isvec:
            alts = []
            for m in (A, notA):
                t = U("tr_sqrt", [t_ptr(a.p, a.dims, m)], REAL)
                alts.append(R(r) == t * t)
            return {"(tr sqrt of the reduced state of A or its complement)^2": Or(*alts)}
        return {"trace-norm-of-the-partial-transpose-over-A-or-its-complement": Or(*[
            R(r) == U("norm_trace_dense:isherm=True", [t_ptrans(a.p, a.dims, m)], REAL) for m in (A, notA)])}


class NegBase(Base):
    """logneg / negativity: one call of partial_transpose_norm with (p, dims, sysa) unchanged"""

    floor = 3

    def cases(self):
        return [NS(name=f"K={k}", K=k) for k in (1, 2, 3)]

    def inputs(self, cx, case):
        return dict(p=cx.Opaque("p"), dims=dims_inputs(cx, case.K),
                    sysa=SysSet([cx.Bool(f"inA{q}") for q in range(case.K)]))

    def call(self, cx, name, args, kwargs, node):
        if name == "partial_transpose_norm" and len(args) == 3 and not kwargs:
            p, dims, sysa = args
            if not isinstance(dims, (list, tuple)):
                raise Unsupported("dims argument")
            return t_PTN(p, dims, mvec(sysa, len(dims)))
        if name == "log2":
            return t_log2(args[0])
        return super().call(cx, name, args, kwargs, node)


@register
class Logneg(NegBase):
    target = f"{CALC}::logneg"

    def ensures(self, a, r, cx, case):
        x = t_log2(t_PTN(a.p, a.dims, a.sysa.mem))
        return {"max(0, log2 ||rho^T_A||)": R(r) == If(x >= 0, x, 0)}


@register
class Negativity(NegBase):
    target = f"{CALC}::negativity"

    def ensures(self, a, r, cx, case):
        x = (t_PTN(a.p, a.dims, a.sysa.mem) - 1) / 2
        return {"max(0, (||rho^T_A|| - 1) / 2)": R(r) == If(x >= 0, x, 0)}


class PyIter:
    """iter(<concrete sequence>): a python iterator consumed by next()"""

    def __init__(self, items):
        self.items = list(items)


class SList:
    """python list of SYMBOLIC length (z3 array Int -> Int + length), mutated in place by .append; ghost fields (maintained
    by the .append hook, definitional): src[r] = the subsystem whose append created position r, posof[j] = the position
    subsystem j was appended at"""

    def __init__(self, arr, n, src=None, posof=None):
        self.arr, self.n, self.src, self.posof = arr, n, src, posof

    def get(self, j):
        return z3.Select(self.arr, j)


class SSet:
    """subsystem set over a symbolic number of subsystems: membership array Int -> Bool"""

    def __init__(self, arr):
        self.arr = arr


class SUnion:
    def __init__(self, a, b):
        self.a, self.b = a, b


class Counter:
    """iter(range(stop)) with symbolic stop: next() returns pos and advances"""

    def __init__(self, pos, stop):
        self.pos, self.stop = pos, stop


SK_R, SK_R2, SK_S, SK_J = z3.Int("r!pos"), z3.Int("r2!pos"), z3.Int("s!entry"), z3.Int("j!sub")


def fresh_slist(name):
    return lambda cx: SList(cx.Array(name, INT, INT), cx.Int(name + "_len"), cx.Array(name + "_src", INT, INT),
                            cx.Array(name + "_posof", INT, INT))


@register
class LognegSubsys(PairBase):
    """three routes.  C trivial (all dimensions outside A u B are 1):  max(log2(tr_sqrt_subsys(psi, dims, A)^2), 0);
    threshold reached: logneg_subsys_approx(psi, dims, A, B, **opts); otherwise logneg(ptr(psi, dims, A u B), nd, na) where
    nd lists the dimensions of the kept subsystems in increasing index order and na the POSITIONS of A's members in that
    list -- i.e. the callee is asked for the same physical bipartition A | B of the reduced state.

    Case ``all-n`` (class LognegSubsysAllN, registered separately under ``...::logneg_subsys#all-n`` so that a construct it
    cannot read never hides the K <= 4 cases; SYMBOLIC number of subsystems, membership arrays): the renumbering loop of the
    exact route, by loop
    invariant with skolem constants -- for an arbitrary position r: nd[r] == dims[src r] with src r a kept subsystem,
    src strictly increasing (arbitrary pair), every kept subsystem has a position (arbitrary j); for an arbitrary entry s
    of na: it is the position of a member of A, and every member of A has its position in na; the position counter never
    runs out.  (In this case the sizes are uninterpreted, so the three route CONDITIONS are decided by the K <= 4 cases.)"""

    target = f"{CALC}::logneg_subsys"
    floor = 100
    KS = (2, 3, 4)

    def inputs(self, cx, case):
        if case.K is not None:
            return super().inputs(cx, case)
        n = cx.Int("n")
        cx.ghost["n"] = n
        return dict(psi_abc=cx.Opaque("psi_abc"), dims=SList(cx.Array("dims", INT, INT), n),
                    sysa=SSet(cx.Array("in_sysa", INT, z3.BoolSort())), sysb=SSet(cx.Array("in_sysb", INT, z3.BoolSort())),
                    approx_thresh=cx.Int("approx_thresh"), approx_opts=opts_case(cx))

    def requires(self, a, case):
        if case.K is not None:
            return super().requires(a, case)
        return {"n>=1": a.dims.n >= 1}

    # ---- hooks of the all-n case
    def call_alln(self, cx, name, args, kwargs, node):
        g = cx.ghost
        if name == "__contains__" and isinstance(args[0], SSet):
            return z3.Select(args[0].arr, args[1])
        if name == "__len__" and isinstance(args[0], SList):
            return args[0].n
        if name == "enumerate" and len(args) == 1 and isinstance(args[0], SList):
            from vf.pyvc import SymIter
            return SymIter(args[0].n, lambda t, L=args[0]: (t, L.get(t)))
        if name == "__genexp__":
            # prod(d for i, d in enumerate(dims) if i in <set>): the size of a subsystem set -- uninterpreted here
            gen = args[0].generators[0]
            if len(gen.ifs) == 1 and isinstance(gen.ifs[0], ast.Compare) and isinstance(gen.ifs[0].ops[0], ast.In):
                sset = cx.ev(gen.ifs[0].comparators[0])
                if isinstance(sset, SSet):
                    return ("size-of", sset)
            return NotImplemented
        if name == "prod":
            x = args[0]
            if isinstance(x, tuple) and len(x) == 2 and x[0] == "size-of":
                v = U("size_of_set", [cx.old.dims.arr, g["n"], x[1].arr], INT)
            elif isinstance(x, SList):
                v = U("size_of_all", [x.arr, x.n], INT)
            else:
                return NotImplemented
            cx.assume(v >= 1)  # [leaf] a product of dimensions >= 1
            return v
        if name in ("__nlmul__", "__nldivmod__"):
            return NotImplemented
        if name == "__binop__" and args[0] == "Add" and isinstance(args[1], SSet) and isinstance(args[2], SSet):
            return SUnion(args[1], args[2])
        if name == "ptr" and isinstance(args[1], SList) and isinstance(args[2], SUnion):
            return St(U("ptr_union_n", [args[0], args[1].arr, args[1].n, args[2].a.arr, args[2].b.arr]))
        if name in ("tr_sqrt_subsys", "logneg_subsys_approx"):
            cx.events.append((name,))
            return cx.Real(name)
        if name == "iter" and len(args) == 1 and isinstance(args[0], tuple) and args[0][0] == "range" and len(args[0]) == 2:
            return Counter(z3.IntVal(0), args[0][1])
        if name == "next" and len(args) == 1 and isinstance(args[0], Counter):
            c = args[0]
            cx.oblige(f"safety@{node.lineno}:position-counter-not-exhausted", "safety", c.pos < c.stop, node.lineno)
            v = c.pos
            c.pos = c.pos + 1
            return v
        if name == ".append" and isinstance(args[0], list) and not args[0]:
            raise Unsupported("append to a concrete list in the all-n case")
        if name == ".append" and isinstance(args[0], SList):
            L, x = args[0], args[1]
            i = cx.env["i"]  # the subsystem being processed (loop variable of the real loop)
            L.arr = z3.Store(L.arr, L.n, x)
            L.src = z3.Store(L.src, L.n, i)
            L.posof = z3.Store(L.posof, i, L.n)
            L.n = L.n + 1
            return None
        if name == "logneg" and len(args) == 3 and not kwargs and isinstance(args[1], SList) and isinstance(args[2], SList):
            cx.events.append(("logneg-n", args[0], args[1], args[2]))
            return cx.Real("logneg_value")
        return None

    def kept(self, cx, j):
        a = cx.old
        return Or(z3.Select(a.sysa.arr, j), z3.Select(a.sysb.arr, j))

    def alln_claims(self, cx, nd, na, t):
        """the claims about the two lists after the subsystems 0 .. t-1 have been processed"""
        a = cx.old
        r, r2, s, j = SK_R, SK_R2, SK_S, SK_J
        inA = lambda q: z3.Select(a.sysa.arr, q)
        src, pos = (lambda q: z3.Select(nd.src, q)), (lambda q: z3.Select(nd.posof, q))
        return {
            "lengths": And(0 <= nd.n, nd.n <= t, 0 <= na.n, na.n <= nd.n),
            "position-r-holds-the-dimension-of-a-kept-subsystem": Implies(And(0 <= r, r < nd.n), And(
                0 <= src(r), src(r) < t, self.kept(cx, src(r)), nd.get(r) == a.dims.get(src(r)), pos(src(r)) == r)),
            "positions-in-increasing-subsystem-order": Implies(And(0 <= r, r < r2, r2 < nd.n), src(r) < src(r2)),
            "every-kept-subsystem-has-a-position": Implies(And(0 <= j, j < t, self.kept(cx, j)), And(
                0 <= pos(j), pos(j) < nd.n, src(pos(j)) == j)),
            "entry-s-of-new_sysa-is-the-position-of-a-member-of-A": Implies(And(0 <= s, s < na.n), And(
                0 <= na.get(s), na.get(s) < nd.n, inA(src(na.get(s))))),
            "every-member-of-A-has-its-position-in-new_sysa": Implies(And(0 <= j, j < t, inA(j)), And(
                0 <= z3.Select(na.posof, j), z3.Select(na.posof, j) < na.n, na.get(z3.Select(na.posof, j)) == pos(j))),
        }

    def inv_alln(self, v):
        cx = v.cx
        zero = z3.K(INT, z3.IntVal(0))
        empty = lambda x: SList(zero, z3.IntVal(0), zero, zero) if isinstance(x, list) and not x else x
        nd, na, c = empty(v.new_dims), empty(v.new_sysa), v.new_inds
        if not (isinstance(nd, SList) and isinstance(na, SList) and isinstance(c, Counter)):
            raise Unsupported("all-n case: lists / counter of another kind")
        d = self.alln_claims(cx, nd, na, v._it0)
        d["counter-in-step-with-new_dims"] = And(c.pos == nd.n, c.stop == cx.ghost["n"], v._it0 <= cx.ghost["n"])
        return d

    @property
    def loops(self):
        def spec(case):
            if case.K is not None:
                return None  # concrete number of subsystems: the loop is unrolled
            return Loop("for (i, d) in enumerate(dims)", self.inv_alln, extra_modifies=("new_dims", "new_sysa", "new_inds"),
                        retype={"new_dims": fresh_slist("new_dims"), "new_sysa": fresh_slist("new_sysa"),
                                "new_inds": lambda cx: Counter(cx.Int("next_position"), cx.ghost["n"])})
        return {0: spec}

    def ensures_alln(self, a, r, cx):
        ev = [e for e in cx.events if e[0] in ("tr_sqrt_subsys", "logneg_subsys_approx", "logneg-n")]
        d = {"one-leaf-call": len(ev) == 1}
        if len(ev) != 1 or ev[0][0] != "logneg-n":
            return d  # the other two routes: decided by the K <= 4 cases
        _, rho, nd, na = ev[0]
        # (the union of the two sets: the order of the two operands is immaterial)
        d["reduced-state-of-A-u-B"] = isinstance(rho, St) and any(
            rho.z.eq(U("ptr_union_n", [a.psi_abc, a.dims.arr, a.dims.n, x.arr, y.arr])) for x, y in ((a.sysa, a.sysb), (a.sysb, a.sysa)))
        d.update(self.alln_claims(cx, nd, na, a.dims.n))
        return d

    def call(self, cx, name, args, kwargs, node):
        if cx.case.K is None:
            if name == "__binop__" and args[0] == "Add" and isinstance(args[1], list) and isinstance(args[2], list):
                return NotImplemented
            r = self.call_alln(cx, name, args, kwargs, node)
            if r is NotImplemented:
                return NotImplemented
            if r is not None or name in (".append",):
                return r
        if name == "tr_sqrt_subsys":
            psi, dims, sys_ = args
            cx.events.append(("tr_sqrt_subsys", psi, dims, kwargs))
            return U(f"tr_sqrt_subsys{len(dims)}", [psi, *dims, *mvec(sys_, len(dims))], REAL)
        if name == "logneg_subsys_approx":
            psi, dims, sa, sb = args
            cx.events.append(("logneg_subsys_approx", psi, dims, kwargs))
            K = len(dims)
            return U(f"logneg_subsys_approx{K}", [psi, *dims, *mvec(sa, K), *mvec(sb, K)], REAL)
        if name == "logneg":
            rho, nd, ns = args
            if kwargs or not isinstance(nd, (list, tuple)):
                raise Unsupported("logneg call shape")
            cx.events.append(("logneg", rho, nd, ns))
            return U(f"logneg{len(nd)}", [rho, *nd, *mvec(ns, len(nd))], REAL)
        if name == "log2":
            return t_log2(args[0])
        if name == "iter" and len(args) == 1 and isinstance(args[0], (range, list, tuple)):
            return PyIter(args[0])
        if name == "next" and len(args) == 1 and isinstance(args[0], PyIter):
            if not args[0].items:
                raise PyRaise("StopIteration", node.lineno)
            return args[0].items.pop(0)
        return super().call(cx, name, args, kwargs, node)

    def ensures(self, a, r, cx, case):
        if case.K is None:
            return self.ensures_alln(a, r, cx)
        K, A, B = case.K, list(case.A), list(case.B)
        AB = union(A, B)
        C_trivial = And(*[a.dims[q] == 1 for q in range(K) if not AB[q]])
        sz_ab = PROD([a.dims[q] for q in range(K) if AB[q]])
        reached = False if a.approx_thresh is None else sz_ab >= a.approx_thresh
        ev = [e for e in cx.events if e[0] in ("tr_sqrt_subsys", "logneg_subsys_approx", "logneg")]
        d = {"one-leaf-call": len(ev) == 1}
        if len(ev) != 1:
            return d
        e = ev[0]
        if e[0] == "tr_sqrt_subsys":
            t = U(f"tr_sqrt_subsys{K}", [a.psi_abc, *a.dims, *A], REAL)
            x = t_log2(t * t)
            d.update({"pure-bipartition-route-only-when-C-is-trivial": C_trivial,
                      "same-state": e[1] is a.psi_abc, "same-dims": same_dims(e[2], a.dims),
                      "threshold-and-options-passed": same_opts(e[3], self.all_opts(a)),
                      "max(log2((tr sqrt rho_A)^2), 0)": R(r) == If(x >= 0, x, 0)})
        elif e[0] == "logneg_subsys_approx":
            d.update({"approx-route-only-when-C-non-trivial-and-threshold-reached": And(Not(C_trivial), reached),
                      "same-state": e[1] is a.psi_abc, "same-dims": same_dims(e[2], a.dims),
                      "options-passed": same_opts(e[3], a.approx_opts),
                      "logneg_subsys_approx(psi, dims, A, B)": R(r) == U(f"logneg_subsys_approx{K}", [a.psi_abc, *a.dims, *A, *B], REAL)})
        else:
            kept = [q for q in range(K) if AB[q]]
            nd = [a.dims[q] for q in kept]
            na = [A[q] for q in kept]
            rho = t_ptr(a.psi_abc, a.dims, AB)
            d.update({"exact-route-only-when-C-non-trivial-and-below-threshold": And(Not(C_trivial), Not(reached)),
                      "dims-of-the-kept-subsystems-in-index-order": isinstance(e[2], (list, tuple)) and len(e[2]) == len(nd)
                      and And(*[zeq(x, y) for x, y in zip(e[2], nd)]),
                      "A-renumbered-to-its-positions-among-the-kept": mvec(e[3], len(nd)) == na if len(e[2]) == len(nd) else False,
                      "logneg-of-the-reduced-state-across-A|B": R(r) == U(f"logneg{len(nd)}", [rho, *nd, *na], REAL)})
        return d


class LognegSubsysAllN(LognegSubsys):
    """the ``all-n`` case of LognegSubsys (see there)"""

    floor = 20

    def cases(self):
        return [NS(name="all-n", K=None, A=None, B=None, thresh="int")]


REGISTRY[f"{CALC}::logneg_subsys#all-n"] = LognegSubsysAllN()


# =====================================================================================================================
# two-party measures: one_way_classical_information, quantum_discord
# =====================================================================================================================


def has_yield(node):
    """is this def a generator function (a yield in its own body, nested defs excluded)?"""
    stack = list(ast.iter_child_nodes(node))
    while stack:
        ch = stack.pop()
        if isinstance(ch, (ast.FunctionDef, ast.Lambda, ast.ClassDef)):
            continue
        if isinstance(ch, (ast.Yield, ast.YieldFrom)):
            return True
        stack.extend(ast.iter_child_nodes(ch))
    return False


class ClosureBase(Base):
    """calls of local closures by name; a generator closure is identified with the tuple of the values it yields"""

    def call(self, cx, name, args, kwargs, node):
        clo = cx.env.get(name)
        if isinstance(clo, tuple) and len(clo) == 3 and clo[0] == "def" and has_yield(clo[1]):
            saved = getattr(cx, "yielded", None)
            cx.yielded = []
            try:
                cx.call_closure(clo, args, kwargs)
                return tuple(cx.yielded)
            finally:
                if saved is None:
                    del cx.yielded
                else:
                    cx.yielded = saved
        return super().call(cx, name, args, kwargs, node)


def t_H(x):
    return U("entropy", [x], REAL)


@register
class OneWayClassicalInformation(ClosureBase):
    """J(A|B) for the projectors {prj_j}:  H(rho_A) - sum_j q_j H(rho_A|j)  with  M_j = 1 (x) prj_j  acting on the SECOND
    party,  q_j = tr(M_j rho),  rho_A|j = ptr(M_j rho, (2,2), keep the FIRST party) / q_j;  precomp_func=True returns the
    function of the projectors"""

    target = f"{CALC}::one_way_classical_information"
    floor = 4

    def cases(self):
        return [NS(name=f"M={m},precomp_func={pc}", M=m, pc=pc) for m in (1, 2, 3) for pc in (False, True)]

    def inputs(self, cx, case):
        prjs = tuple(cx.Opaque(f"prj{j}") for j in range(case.M))
        cx.ghost["prjs"] = prjs
        return dict(p_ab=cx.Opaque("p_ab"), prjs=None if case.pc else prjs, precomp_func=case.pc)

    def call(self, cx, name, args, kwargs, node):
        if name == "entropy" and len(args) == 1 and not kwargs:
            return t_H(args[0])
        if name == "eye" and args == [2] and not kwargs:
            return St(U("eye2", []))
        if name == "__binop__" and args[0] == "BitAnd":
            return St(U("kron", [args[1], args[2]]))  # [leaf] `a & b` of quimb arrays is the Kronecker product
        if name == "__binop__" and args[0] == "Div" and isinstance(args[1], St) and is_z3(args[2]):
            return St(U("divide_by", [args[1], R(args[2])]))
        if name == "dot" and len(args) == 2:
            return St(U("dot", args))
        if name == "tr" and len(args) == 1:
            return U("tr", args, REAL)
        return super().call(cx, name, args, kwargs, node)

    def spec(self, p_ab, prjs):
        tot = 0
        for prj in prjs:
            pj = U("dot", [U("kron", [U("eye2", []), prj]), p_ab])
            q = U("tr", [pj], REAL)
            tot = tot + q * t_H(U("divide_by", [t_ptr(pj, (2, 2), (True, False)), q]))
        return t_H(t_ptr(p_ab, (2, 2), (True, False))) - tot

    def ensures(self, a, r, cx, case):
        prjs = cx.ghost["prjs"]
        if case.pc:
            ok = isinstance(r, tuple) and len(r) == 3 and r[0] == "def"
            d = {"returns-a-function-of-the-projectors": ok}
            if not ok:
                return d
            r = cx.call_closure(r, [prjs])
        if not is_z3(r):
            return {"returns-a-number": False}
        return {"H(A) - sum_j q_j H(A|j), measured party = second, entropies of the first": R(r) == self.spec(a.p_ab, prjs)}


@register
class QuantumDiscord(ClosureBase):
    """the two-party state handed to mutual_information and one_way_classical_information is the reduced state of the pair
    {sysa, sysb} (the state itself for two subsystems) with sysa as its FIRST party and sysb as its SECOND (measured) party --
    D(A|B) = min over projective measurements on B of I(A:B) - J(A|B); the objective is I - J for the complementary
    projectors of a Bloch direction; the optimiser's value is returned, ValueError only when it reports failure"""

    target = f"{CALC}::quantum_discord"
    floor = 12
    bounded = ("two-qubit",)
    raises = {"ValueError": True}

    def cases(self):
        return [NS(name=f"K={k}", K=k) for k in (2, 3, 4)]

    def inputs(self, cx, case):
        mark_case(cx, K=case.K)
        return dict(p=cx.Opaque("p"), dims=dims_inputs(cx, case.K), sysa=cx.Int("sysa"), sysb=cx.Int("sysb"),
                    method="COBYLA", tol=cx.Real("tol"), maxiter=cx.Int("maxiter"))

    def requires(self, a, case):
        K = case.K
        return {"dims>=1": dims_ge1(a.dims), "two-distinct-subsystems": And(0 <= a.sysa, a.sysa < K, 0 <= a.sysb, a.sysb < K,
                                                                            a.sysa != a.sysb)}

    def attr(self, cx, base, attr, node):
        if base is None and attr == "pi":
            import math
            return math.pi
        return NotImplemented

    def call(self, cx, name, args, kwargs, node):
        if name == "ptr":
            p, dims, keep = args
            st = super().call(cx, name, args, kwargs, node)
            if isinstance(keep, tuple) and len(keep) == 2:
                # [leaf ptr] the kept subsystems appear in increasing index order
                st.order = [Min(keep[0], keep[1]), Max(keep[0], keep[1])]
            return st
        if name == "qu" and len(args) == 2 and args[1] == "dop":
            return St(U("dop", [args[0]]), order=[0, 1])
        if name == "permute" and len(args) == 3 and isinstance(args[0], St) and args[0].order is None and \
                isinstance(args[2], (tuple, list)) and not kwargs:
            return St(U("permute", [args[0], *args[2]]), order=None, base=args[0].base)  # positions unknown: stay unknown
        if name == "permute" and len(args) == 3 and isinstance(args[0], St) and args[0].order is not None and \
                isinstance(args[2], (tuple, list)) and sorted(args[2]) == list(range(len(args[0].order))) and not kwargs:
            # [leaf permute(p, dims, perm)] `dims` are the dimensions of the CURRENT positions of p; new position q holds
            # what old position perm[q] held
            pd, full = args[1], cx.old.dims
            dim_of = lambda idx: full[idx] if isinstance(idx, int) else cx.getitem(list(full), idx, node)
            cx.oblige(f"call-pre@{node.lineno}:permute:dims-of-the-current-positions", "call-pre",
                      isinstance(pd, (tuple, list)) and len(pd) == len(args[0].order) and
                      And(*[zeq(x, dim_of(o)) for x, o in zip(pd, args[0].order)]), node.lineno)
            return St(U("permute", [args[0], *args[2]]), order=[args[0].order[q] for q in args[2]], base=args[0].base)
        if name == "mutual_information" and len(args) == 1 and not kwargs and isinstance(args[0], St):
            cx.events.append(("mutinf", args[0]))
            return U("mutinf_2x2", [args[0]], REAL)
        if name == "one_way_classical_information":
            ok = len(args) == 2 and isinstance(args[0], St) and args[1] is None and kwargs == {"precomp_func": True}
            if not ok:
                raise Unsupported("one_way_classical_information call shape")
            cx.events.append(("owci", args[0]))
            return ("owci-fn", args[0])
        if name == "owci" and isinstance(cx.env.get("owci"), tuple) and cx.env["owci"][0] == "owci-fn":
            prjs = args[0]
            if not (isinstance(prjs, tuple) and len(prjs) == 2):
                raise Unsupported("owci argument")
            # [callee one_way_classical_information] J(first | second measured with the projectors)
            return U("owci", [cx.env["owci"][1], prjs[0], prjs[1]], REAL)
        if name in ("sin", "cos") and len(args) == 1:
            return U(name, [R(args[0])], REAL)
        if name == "bloch_state" and len(args) == 3 and not kwargs:
            return St(U("bloch_state", [R(x) for x in args]))
        if name == "eye" and args == [2] and not kwargs:
            return St(U("eye2", []))
        if name == "__binop__" and args[0] == "Sub" and isinstance(args[1], St) and isinstance(args[2], St):
            return St(U("minus", [args[1], args[2]]))
        if name == "minimize":
            obj = args[0]
            ok = isinstance(obj, tuple) and len(obj) == 3 and obj[0] == "def"
            if not ok:
                raise Unsupported("minimize objective")
            cx.ghost["objective"] = obj
            cx.ghost["opt_fun"] = cx.Real("opt_fun")
            return NS(success=cx.Bool("opt_success"), fun=cx.ghost["opt_fun"], message=cx.Opaque("opt_message"))
        return super().call(cx, name, args, kwargs, node)

    def ensures(self, a, r, cx, case):
        ev = {e[0]: e[1] for e in cx.events}
        ok = "mutinf" in ev and "owci" in ev and "objective" in cx.ghost
        d = {"mutual-information, one-way-information and an optimisation": ok}
        if not ok:
            return d
        st = ev["owci"]
        d["mutual-information-of-the-same-state"] = ev["mutinf"].z == st.z
        if case.K > 2:
            d["reduced-state-of-the-pair"] = st.base == t_ptr(a.p, a.dims, mvec((a.sysa, a.sysb), case.K))
        else:
            d["the-state-itself-as-operator"] = st.base == U("dop", [a.p])
        d["first-party-is-sysa"] = st.order is not None and zeq(st.order[0], a.sysa)
        d["second-(measured)-party-is-sysb"] = st.order is not None and zeq(st.order[1], a.sysb)
        # the objective, evaluated on arbitrary angles
        th, ph = z3.Real("theta!obj"), z3.Real("phi!obj")
        val = cx.call_closure(cx.ghost["objective"], [(th, ph)])
        s, c = (lambda x: U("sin", [x], REAL)), (lambda x: U("cos", [x], REAL))
        prj = U("bloch_state", [s(th) * c(ph), s(th) * s(ph), c(th)])
        d["objective = I - J over a projector of the Bloch sphere and its complement"] = is_z3(val) and R(val) == \
            U("mutinf_2x2", [st], REAL) - U("owci", [st, prj, U("minus", [U("eye2", []), prj])], REAL)
        d["returns-the-optimum-found"] = is_z3(r) and r.eq(cx.ghost["opt_fun"])
        return d

    def replay(self, model):
        import numpy as np
        import quimb as qu

        K, sa, sb = model_int(model, "case!K"), model_int(model, "sysa"), model_int(model, "sysb")
        if None in (K, sa, sb) or sa == sb or not (0 <= sa < K and 0 <= sb < K):
            return dict(note="no usable (K, sysa, sysb) in the model", reproduced=False)
        # classical on B: rho = 1/2 |0><0| (x) |0><0|_B + 1/2 |+><+| (x) |1><1|_B  ->  D(A|B) = 0 exactly, D(B|A) > 0
        k0, k1 = np.array([[1, 0], [0, 0]], dtype=complex), np.array([[0, 0], [0, 1]], dtype=complex)
        plus = np.full((2, 2), 0.5, dtype=complex)
        rho = 0
        for a_op, b_op in ((k0, k0), (plus, k1)):
            t = np.ones((1, 1), dtype=complex)
            for q in range(K):
                t = np.kron(t, a_op if q == sa else (b_op if q == sb else k0))
            rho = rho + 0.5 * t
        call = f"quantum_discord(rho_classical_on_B, dims={[2] * K}, sysa={sa}, sysb={sb})"
        try:
            got = float(qu.quantum_discord(qu.qarray(rho), [2] * K, sa, sb))
        except Exception as e:  # noqa
            return dict(call=call, observed=f"{type(e).__name__}: {e}", expected=0.0, reproduced=True)
        return dict(call=call, observed=got, expected=0.0, note="B = sysb carries an orthogonal classical register: D(A|B) = 0",
                    reproduced=bool(abs(got) > 1e-3))


# =====================================================================================================================
# correlation / qid : embedding arguments handed to ikron
# =====================================================================================================================


def t_ikron(ops, dims, inds):
    """[leaf ikron, bounded in C15] the operators `ops` placed on the subsystems `inds` (in that pairing) of `dims`; the
    options sparse / coo_build / stype only choose the REPRESENTATION of the same operator (trusted; dense and sparse
    agreement is what the fdx grid and the bounded driver check)"""
    ops = list(ops) if isinstance(ops, (tuple, list)) else [ops]
    inds = list(inds) if isinstance(inds, (tuple, list)) else [inds]
    return U(f"ikron{len(ops)}on{len(inds)}of{len(dims)}", [*ops, *dims, *inds])


class IkronBase(ClosureBase):
    def call(self, cx, name, args, kwargs, node):
        if name == "ikron":
            if len(args) != 3 or set(kwargs) - {"sparse", "coo_build", "stype"}:
                raise Unsupported("ikron call shape")
            ops, dims, inds = args
            if not isinstance(dims, (list, tuple)):
                raise Unsupported("ikron dims")
            return St(t_ikron(ops, dims, inds))
        if name == "expec" and len(args) == 2 and not kwargs:
            return U("expec", args, REAL)
        if name == "isvec" and len(args) == 1:
            return cx.case.isvec
        return super().call(cx, name, args, kwargs, node)


@register
class Correlation(IkronBase):
    """<A_a B_b> - <A_a><B_b>: A is embedded at sysa and B at sysb of the SAME dims (qubits when dims is None), alone and
    as the pair ((A, B), (sysa, sysb)); precomp_func=True returns the function of the state.  (The representation options
    handed to ikron are not part of the post-condition.)"""

    target = f"{CALC}::correlation"
    floor = 16
    bounded = ("decompositions-and-correlations",)

    def cases(self):
        return [NS(name=f"dims={dk},sparse={sk},precomp_func={pc}", dk=dk, sk=sk, pc=pc)
                for dk in ("None:n=2", "None:n=3", "given:K=2", "given:K=3") for sk in ("None", "bool") for pc in (False, True)]

    def inputs(self, cx, case):
        K = int(case.dk[-1])
        cx.ghost["spA"], cx.ghost["spB"] = cx.Bool("issparse_A"), cx.Bool("issparse_B")
        return dict(p=cx.Opaque("p"), A=cx.Opaque("A"), B=cx.Opaque("B"), sysa=cx.Int("sysa"), sysb=cx.Int("sysb"),
                    dims=None if case.dk.startswith("None") else tuple(dims_inputs(cx, K)),
                    sparse=None if case.sk == "None" else cx.Bool("sparse"), precomp_func=case.pc)

    def call(self, cx, name, args, kwargs, node):
        if name == "infer_size" and len(args) == 1 and not kwargs:
            return int(cx.case.dk[-1])  # [leaf] number of qubits of p (case)
        if name == "issparse" and len(args) == 1:
            return cx.ghost["spA"] if args[0] is cx.old.A else (cx.ghost["spB"] if args[0] is cx.old.B else NotImplemented)
        return super().call(cx, name, args, kwargs, node)

    def ensures(self, a, r, cx, case):
        K = int(case.dk[-1])
        dims = a.dims if a.dims is not None else (2,) * K
        state = a.p
        if case.pc:
            ok = isinstance(r, tuple) and len(r) == 3 and r[0] == "def"
            if not ok:
                return {"returns-a-function-of-the-state": False}
            state = cx.Opaque("any_state")
            r = cx.call_closure(r, [state])
        if not is_z3(r):
            return {"returns-a-number": False}
        ik = lambda ops, inds: t_ikron(ops, dims, inds)
        ex = lambda op: U("expec", [op, state], REAL)
        return {"<A_a B_b> - <A_a><B_b> with A on sysa and B on sysb of the same dims":
                R(r) == ex(ik((a.A, a.B), (a.sysa, a.sysb))) - ex(ik((a.A,), a.sysa)) * ex(ik((a.B,), a.sysb))}


@register
class Qid(IkronBase):
    """entry k of the result is  sum_{s in x,y,z} coeff * norm_func([rho, sigma_s on inds[k] of dims]) ** power  (rho the
    projector of a ket), one entry per index in the order given (an int is one index)"""

    target = f"{CALC}::qid"
    floor = 8

    def cases(self):
        return [NS(name=f"inds={ik},{sk},precomp_func={pc}", ik=ik, isvec=sk == "ket", pc=pc)
                for ik in ("int", "1", "2", "3") for sk in ("ket", "op") for pc in (False, True)]

    def inputs(self, cx, case):
        inds = cx.Int("ind") if case.ik == "int" else tuple(cx.Int(f"ind{k}") for k in range(int(case.ik)))
        return dict(p=cx.Opaque("p"), dims=tuple(dims_inputs(cx, 3)), inds=inds, precomp_func=case.pc,
                    sparse_comp=cx.Bool("sparse_comp"), norm_func=cx.Opaque("norm_func"), power=cx.Int("power"),
                    coeff=cx.Real("coeff"))

    def call(self, cx, name, args, kwargs, node):
        if name == "pauli" and len(args) == 1 and isinstance(args[0], str) and not kwargs:
            return St(U("pauli_" + args[0].lower(), []))
        if name == "dop" and len(args) == 1:
            return St(U("dop", args))
        if name == "dot" and len(args) == 2:
            return St(U("dot", args))
        if name == "__binop__" and args[0] == "Sub" and isinstance(args[1], St) and isinstance(args[2], St):
            return St(U("minus", [args[1], args[2]]))
        if name == "norm_func" and len(args) == 1 and not kwargs:
            return U("norm_func", [cx.old.norm_func, args[0]], REAL)
        if name == "__pow__":
            return U("pow", [R(args[0]), R(args[1])], REAL)
        return super().call(cx, name, args, kwargs, node)

    def ensures(self, a, r, cx, case):
        inds = (a.inds,) if case.ik == "int" else a.inds
        x = a.p
        if case.pc:
            ok = isinstance(r, tuple) and len(r) == 3 and r[0] == "def"
            if not ok:
                return {"returns-a-function-of-the-state": False}
            x = cx.Opaque("any_state")
            r = cx.call_closure(r, [x])
        ok = isinstance(r, tuple) and len(r) == len(inds)
        d = {"one-entry-per-index": ok}
        if not ok:
            return d
        rho = U("dop", [x]) if case.isvec else unz(x)
        for k, ind in enumerate(inds):
            tot = 0
            for s in "xyz":
                op = t_ikron(U("pauli_" + s, []), a.dims, ind)
                comm = U("minus", [U("dot", [rho, op]), U("dot", [op, rho])])
                tot = tot + a.coeff * U("pow", [U("norm_func", [a.norm_func, comm], REAL), R(a.power)], REAL)
            d[f"entry{k} = sum over x,y,z of coeff * ||[rho, sigma on inds[{k}]]|| ** power"] = is_z3(r[k]) and R(r[k]) == tot
        return d


# =====================================================================================================================
# ent_cross_matrix : block index arithmetic (block size fixed per case, number of sites symbolic)
# =====================================================================================================================

INT = z3.IntSort()


class Mat:
    """2-d numpy array of opaque scalars: z3 array Int -> Int -> V and a shape; mutated in place by stores"""

    def __init__(self, a, shape):
        self.a, self.shape = a, tuple(shape)

    def get(self, r, c):
        return z3.Select(z3.Select(self.a, r), c)


class QubitDims:
    """the tuple (2,) * n of symbolic length n"""

    def __init__(self, n):
        self.n = n


def fresh_mat(name):
    return lambda cx: Mat(cx.Array(name, INT, INT, V), cx.env[name].shape)


NANV = U("nan", [])


@register
class EntCrossMatrix(Base):
    """for an arbitrary pair of blocks a <= b < n = sz_p // sz_blc (skolem pair):  ents[a, b] == ents[b, a] ==
         a < b : ent_fn(ptr(p, qubits, sites of block a + sites of block b), dims=(2^blc, 2^blc)) / blc
         a = b : ent_fn(purify(ptr(p, qubits, sites of block a)), dims=(2^blc, 2^blc)) / blc   or nan (calc_self_ent=False)
       (pure state of exactly two blocks: ent_fn(p, dims=(2^blc, 2^blc)) / blc everywhere, nan on the diagonal if not
       calc_self_ent), block a = sites a*blc .. a*blc+blc-1; result of shape (n, n).  upscale: shape (sz_p, sz_p) and, for an
       arbitrary entry (r, c):  up[r, c] == ents[r // blc, c // blc] when both blocks exist, nan otherwise.  Every array access
       is inside the array (safety)."""

    target = f"{CALC}::ent_cross_matrix"
    floor = 150
    bounded = ("decompositions-and-correlations",)

    def cases(self):
        return [NS(name=f"blc={b},{'ket' if pure else 'op'},self={cs},upscale={up}", blc=b, pure=pure, cs=cs, up=up)
                for b in (1, 2, 3) for pure in (True, False) for cs in (True, False) for up in (False, True)]

    # ghosts: an arbitrary entry (r, c) of the upscaled array and its pair of blocks ga <= gb
    def inputs(self, cx, case):
        g = cx.ghost
        g["sz_p"] = cx.Int("sz_p")
        g["r"], g["c"], g["ga"], g["gb"] = z3.Int("r!sk"), z3.Int("c!sk"), z3.Int("a!sk"), z3.Int("b!sk")
        return dict(p=cx.Opaque("p"), sz_blc=case.blc, ent_fn=cx.Opaque("ent_fn"), calc_self_ent=case.cs, upscale=case.up)

    def requires(self, a, case):
        # (the ghost constants are not inputs of the function: their ranges are the hypotheses of the skolemised claims)
        sz, r, c, ga, gb = (z3.Int("sz_p"), z3.Int("r!sk"), z3.Int("c!sk"), z3.Int("a!sk"), z3.Int("b!sk"))
        b = case.blc
        n = sz / b
        # (the range of the skolem PAIR is the hypothesis `pair_exists` of every claim about it, not an assumption: a system
        # smaller than one block has no pair at all and is covered too)
        return {"sz_p>=1": sz >= 1,
                "skolem-entry": And(0 <= r, r < sz, 0 <= c, c < sz,
                                    Implies(And(r / b < n, c / b < n), And(ga == Min(r / b, c / b), gb == Max(r / b, c / b))))}

    def attr(self, cx, base, attr, node):
        if base is None and attr == "np":
            return NS(nan=NANV)
        return NotImplemented

    # ---- spec
    def D(self, case):
        return 2 ** case.blc

    def ENT(self, cx, state):
        case = cx.case
        return U("divide", [U("ent_fn", [cx.old.ent_fn, state, self.D(case), self.D(case)]), case.blc])

    def block(self, case, a):
        return [a * case.blc + t for t in range(case.blc)]

    def E(self, cx, ga, gb):
        case, sz = cx.case, cx.ghost["sz_p"]
        p = cx.old.p
        keep = lambda sites: U(f"ptr_qubits{len(sites)}", [p, sz, *sites])
        cross = self.ENT(cx, keep(self.block(case, ga) + self.block(case, gb)))
        self_ = self.ENT(cx, U("purify", [keep(self.block(case, ga))])) if case.cs else NANV
        gen = If(ga == gb, self_, cross)
        if not case.pure:
            return gen
        bip = self.ENT(cx, p) if case.cs else If(ga == gb, NANV, self.ENT(cx, p))
        return If(2 * case.blc == sz, bip, gen)

    # ---- hooks
    def call(self, cx, name, args, kwargs, node):
        g = cx.ghost
        if name == "infer_size" and len(args) == 1 and not kwargs:
            return g["sz_p"]  # [leaf] number of qubits of p
        if name == "isvec":
            return cx.case.pure
        if name == "__binop__" and args[0] == "Mult" and args[1] == (2,) and is_int(args[2]):
            return QubitDims(args[2])
        if name == "np.empty" and len(args) == 1:
            return Mat(cx.Array("empty", INT, INT, V), args[0])
        if name == "np.tile" and len(args) == 2 and is_z3(args[0]) and args[0].eq(NANV):
            return Mat(z3.K(INT, z3.K(INT, NANV)), args[1])
        if name == "ptr" and isinstance(args[1], QubitDims):
            p, dims, keep = args
            if p is not cx.old.p or not isinstance(keep, list):
                raise Unsupported("ptr call shape")
            cx.oblige(f"call-pre@{node.lineno}:ptr:dims-are-sz_p-qubits", "call-pre", dims.n == g["sz_p"], node.lineno)
            cx.oblige(f"call-pre@{node.lineno}:ptr:sites-exist-and-are-distinct", "call-pre",
                      And(*[And(0 <= s, s < g["sz_p"]) for s in keep], *[keep[x] < keep[x + 1] for x in range(len(keep) - 1)]),
                      node.lineno)
            return St(U(f"ptr_qubits{len(keep)}", [p, dims.n, *keep]))
        if name == "purify" and len(args) == 1:
            return St(U("purify", args))
        if name == "ent_fn" and len(args) == 1 and set(kwargs) == {"dims"} and isinstance(kwargs["dims"], tuple) \
                and len(kwargs["dims"]) == 2:
            return U("ent_fn", [cx.old.ent_fn, args[0], *kwargs["dims"]])
        if name == "__binop__" and args[0] == "Div" and is_z3(args[1]) and args[1].sort() == V and is_int(args[2]):
            return U("divide", [args[1], args[2]])
        if name == "__getitem__" and isinstance(args[0], Mat):
            m, idx = args
            if not (isinstance(idx, tuple) and len(idx) == 2 and all(is_int(x) for x in idx)):
                raise Unsupported("matrix read")
            for k in range(2):
                cx.oblige(f"index@{node.lineno}:ax{k}", "safety", And(idx[k] >= 0, idx[k] < m.shape[k]), node.lineno)
            return m.get(*idx)
        if name == "__setitem__" and isinstance(args[0], Mat):
            m, idx, val = args
            if not (isinstance(idx, tuple) and len(idx) == 2):
                raise Unsupported("matrix store")
            val = unz(val)
            if all(is_int(x) for x in idx):
                for k in range(2):
                    cx.oblige(f"index@{node.lineno}:store:ax{k}", "safety", And(idx[k] >= 0, idx[k] < m.shape[k]), node.lineno)
                m.a = z3.Store(m.a, idx[0], z3.Store(z3.Select(m.a, idx[0]), idx[1], val))
                return None
            if all(isinstance(x, slice) and x.step is None for x in idx):
                lo = [0 if x.start is None else x.start for x in idx]
                hi = [m.shape[k] if x.stop is None else x.stop for k, x in enumerate(idx)]
                for k in range(2):
                    # numpy clips slice bounds silently; the blocks written here are meant to lie inside the array
                    cx.oblige(f"enc@{node.lineno}:slice-inside-array:ax{k}", "enc", And(0 <= lo[k], lo[k] <= hi[k], hi[k] <= m.shape[k]),
                              node.lineno)
                x, y = z3.Int("x!lam"), z3.Int("y!lam")
                old = m.a
                m.a = z3.Lambda([x], z3.Lambda([y], z3.If(And(lo[0] <= x, x < hi[0], lo[1] <= y, y < hi[1]), val,
                                                          z3.Select(z3.Select(old, x), y))))
                return None
            raise Unsupported("matrix store")
        return super().call(cx, name, args, kwargs, node)

    # ---- invariants
    def pair_exists(self, cx):
        g = cx.ghost
        return And(0 <= g["ga"], g["ga"] <= g["gb"], g["gb"] < g["sz_p"] / cx.case.blc)

    def done_pair(self, v, done):
        """ents holds the value of the skolem pair, at both positions, when `done`"""
        cx = v.cx
        ga, gb = cx.ghost["ga"], cx.ghost["gb"]
        e = self.E(cx, ga, gb)
        return Implies(And(self.pair_exists(cx), done), And(v.ents.get(ga, gb) == e, v.ents.get(gb, ga) == e))

    def inv0(self, v):
        cx = v.cx
        ga, gb = cx.ghost["ga"], cx.ghost["gb"]
        whole = self.ENT(cx, cx.old.p)
        return {"i-range": And(0 <= v.i, v.i <= v.n), "n": v.n == cx.ghost["sz_p"] / cx.case.blc,
                "shape": And(v.ents.shape[0] == v.n, v.ents.shape[1] == v.n),
                "entry": Implies(self.pair_exists(cx), And(v.ents.get(ga, gb) == If(And(ga == gb, ga < v.i), NANV, whole),
                                                           v.ents.get(gb, ga) == If(And(ga == gb, ga < v.i), NANV, whole)))}

    def inv1(self, v):
        cx = v.cx
        return {"t>=0": v._it1 >= 0, "n": v.n == cx.ghost["sz_p"] / cx.case.blc,
                "shape": And(v.ents.shape[0] == v.n, v.ents.shape[1] == v.n),
                "rows-done": self.done_pair(v, cx.ghost["ga"] < v._it1)}

    def inv2(self, v):
        cx = v.cx
        ga, gb = cx.ghost["ga"], cx.ghost["gb"]
        return {"t>=0": And(v._it1 >= 0, v._it2 >= 0), "i": v.i == cx.case.blc * v._it1, "n": v.n == cx.ghost["sz_p"] / cx.case.blc,
                "shape": And(v.ents.shape[0] == v.n, v.ents.shape[1] == v.n), "row-exists": v._it1 < v.n,
                "rows-done": self.done_pair(v, Or(ga < v._it1, And(ga == v._it1, gb < v._it1 + v._it2)))}

    def up_entry(self, v, done):
        cx = v.cx
        g, b = cx.ghost, cx.case.blc
        R_, C_ = g["r"] / b, g["c"] / b
        both = And(R_ < v.n, C_ < v.n)
        return v.up_ents.get(g["r"], g["c"]) == If(And(both, done(Min(R_, C_), Max(R_, C_))), self.E(cx, g["ga"], g["gb"]), NANV)

    def inv3(self, v):
        cx = v.cx
        return {"i-range": And(0 <= v.i, v.i <= v.n), "n": v.n == cx.ghost["sz_p"] / cx.case.blc,
                "shape": And(v.up_ents.shape[0] == cx.ghost["sz_p"], v.up_ents.shape[1] == cx.ghost["sz_p"]),
                "entry": self.up_entry(v, lambda lo, hi: lo < v.i)}

    def inv4(self, v):
        cx = v.cx
        return {"i-range": And(0 <= v.i, v.i < v.n, v._it4 >= 0, v.j == v.i + v._it4, v.j <= v.n),
                "n": v.n == cx.ghost["sz_p"] / cx.case.blc,
                "shape": And(v.up_ents.shape[0] == cx.ghost["sz_p"], v.up_ents.shape[1] == cx.ghost["sz_p"]),
                "entry": self.up_entry(v, lambda lo, hi: Or(lo < v.i, And(lo == v.i, hi < v.j)))}

    @property
    def loops(self):
        return {0: Loop("for i in range(n)", self.inv0, retype={"ents": fresh_mat("ents")}),
                1: Loop("for i in range(0, sz_p - sz_blc + 1, sz_blc)", self.inv1, retype={"ents": fresh_mat("ents")}),
                2: Loop("for j in range(i, sz_p - sz_blc + 1, sz_blc)", self.inv2, retype={"ents": fresh_mat("ents")}),
                3: Loop("for i in range(n)", self.inv3, retype={"up_ents": fresh_mat("up_ents")}),
                4: Loop("for j in range(i, n)", self.inv4, retype={"up_ents": fresh_mat("up_ents")})}

    def ensures(self, a, r, cx, case):
        g, b = cx.ghost, case.blc
        sz = g["sz_p"]
        n = sz / b
        if not isinstance(r, Mat):
            return {"returns-a-matrix": False}
        e = self.E(cx, g["ga"], g["gb"])
        if not case.up:
            return {"shape-(n,n)": And(r.shape[0] == n, r.shape[1] == n),
                    "entry-of-an-arbitrary-pair-of-blocks": Implies(self.pair_exists(cx), And(r.get(g["ga"], g["gb"]) == e,
                                                                                              r.get(g["gb"], g["ga"]) == e))}
        both = And(g["r"] / b < n, g["c"] / b < n)
        return {"shape-(sz_p,sz_p)": And(r.shape[0] == sz, r.shape[1] == sz),
                "arbitrary-upscaled-entry-is-the-entry-of-its-pair-of-blocks-or-nan": r.get(g["r"], g["c"]) == If(both, e, NANV)}


# =====================================================================================================================
# simulate_counts : outcome labelling and multinomial bookkeeping
# =====================================================================================================================


class Samples:
    """rng.choice(d, size=C, p=probs): C integers of range(d)"""

    def __init__(self, rng, d, size, probs, extra):
        self.rng, self.d, self.size, self.probs, self.extra = rng, d, size, probs, extra


class Freq:
    """frequencies(samples): {value: number of occurrences}; the counts sum to len(samples)"""

    def __init__(self, samples):
        self.samples = samples


class Keyed:
    """keymap(f, d): the dict d with every key k replaced by f(k)"""

    def __init__(self, f, d):
        self.f, self.d = f, d


class Label:
    """the string a labelling function produces for the basis index `of`: positional digits in `base`, zero padded on the
    left to `width` characters (base / width None = unknown); or, `digits` given: the concatenation of str(digit) for the
    listed integer digits, most significant first"""

    def __init__(self, of, base=None, width=None, fill="0", align=">", digits=None):
        self.of, self.base, self.width, self.fill, self.align, self.digits = of, base, width, fill, align, digits


class DigitCh:
    """str(r) of a symbolic integer r"""

    def __init__(self, r):
        self.r = r


FORMAT_BASES = {"b": 2, "o": 8, "d": 10, "x": 16, "X": 16}


def parse_int_format(fmt):
    """'{:0>5b}' -> (fill, align, width, base) of python's format mini-language for ONE integer field; None if not that"""
    import re
    m = re.fullmatch(r"\{:(?:(.)?([<>^=]))?(0)?(\d+)?([bodxX])\}", fmt)
    if not m:
        return None
    fill, align, zero, width, typ = m.groups()
    if zero and not align:
        fill, align = "0", "="  # the '0' flag: sign-aware zero padding (same as right alignment for non-negative ints)
    if align is None:
        fill, align = " ", ">"
    if fill is None:
        fill = " "
    return fill, ">" if align == "=" else align, int(width) if width else 0, FORMAT_BASES[typ]


@register
class SimulateCounts(Base):
    """C samples of range(phys_dim ** n) drawn with the Born probabilities in basis order; the result maps the label of
    each sampled index to its number of occurrences, where the label of index k is its n-digit base-phys_dim string (most
    significant digit first, zero padded): that labelling is injective, so the counts sum to C"""

    target = f"{CALC}::simulate_counts"
    floor = 12
    bounded = ("maps-and-measurement",)

    def cases(self):
        return [NS(name=f"n={n},{kind}", n=n, isop=kind == "op") for n in (1, 2, 3) for kind in ("ket", "op")]

    def inputs(self, cx, case):
        mark_case(cx, n=case.n, isop=case.isop)
        return dict(p=cx.Opaque("p"), C=cx.Int("C"), phys_dim=cx.Int("phys_dim"), seed=cx.Opaque("seed"))

    def requires(self, a, case):
        return {"phys_dim>=2": a.phys_dim >= 2, "C>=0": a.C >= 0}

    def attr(self, cx, base, attr, node):
        if isinstance(base, St) and attr == "real":
            return St(U("real", [base]))
        if isinstance(base, str) and attr == "format":
            return ("str.format", base)
        return NotImplemented

    def call(self, cx, name, args, kwargs, node):
        if name == "np.random.default_rng" and len(args) == 1:
            return ("rng", args[0])
        if name == "infer_size" and 1 <= len(args) <= 2 and not set(kwargs) - {"base"}:
            base = args[1] if len(args) == 2 else kwargs.get("base", 2)  # (default of the real signature: qubits)
            cx.oblige(f"call-pre@{node.lineno}:infer_size:base-is-phys_dim", "call-pre", zeq(base, cx.old.phys_dim), node.lineno)
            return cx.case.n  # [leaf] p has phys_dim ** n entries per side (case)
        if name == "__pow__" and is_int(args[0]) and is_int(args[1]):
            return U("int_pow", [args[0], args[1]], INT)
        if name == "isop":
            return cx.case.isop
        if name in ("np.diag", "np.conj") and len(args) == 1:
            return St(U(name[3:], args))
        if name == "np.multiply" and len(args) == 2:
            return St(U("multiply", args))
        if name == ".reshape" and isinstance(args[0], St) and args[1:] == [-1]:
            return St(U("flatten", [args[0]]))
        if name == "rng.choice" and isinstance(cx.env.get("rng"), tuple) and len(args) == 1:
            return Samples(cx.env["rng"], args[0], kwargs.get("size"), kwargs.get("p"),
                           {k: v for k, v in kwargs.items() if k not in ("size", "p")})
        if name == "str" and len(args) == 1 and isinstance(args[0], int):
            return str(args[0])
        if name == "str" and len(args) == 1 and is_z3(args[0]) and z3.is_int(args[0]):
            return DigitCh(args[0])
        if name == ".join" and args[0] == "" and len(args) == 2 and isinstance(args[1], (list, tuple)) and args[1] and \
                all(isinstance(x, DigitCh) for x in args[1]):
            return Label(None, digits=[x.r for x in args[1]])
        if name == "divmod" and len(args) == 2 and is_int(args[0]) and is_z3(args[1]):
            # euclidean division by a positive divisor (side condition emitted): a == b*q + r, 0 <= r < b
            cx.oblige(f"enc@{node.lineno}:divisor-positive", "enc", args[1] > 0, node.lineno)
            q, r_ = cx.Int("quot"), cx.Int("rem")
            cx.assume(And(Z(args[0]) == args[1] * q + r_, 0 <= r_, r_ < args[1]))
            return q, r_
        if name == "frequencies" and len(args) == 1 and isinstance(args[0], Samples):
            return Freq(args[0])
        if name == "keymap" and len(args) == 2:
            return Keyed(args[0], args[1])
        if name == "np.base_repr" and 2 <= len(args) <= 3:
            return Label(args[0], base=args[1] if not kwargs else kwargs.get("base"), width=None)
        if name in (".zfill", ".rjust") and isinstance(args[0], Label) and args[0].width is None:
            if name == ".rjust" and args[2:] != ["0"]:
                raise Unsupported("rjust fill")
            return Label(args[0].of, args[0].base, args[1])
        return super().call(cx, name, args, kwargs, node)

    def label_of(self, cx, f, k):
        """the label the function `f` gives to the basis index k"""
        if isinstance(f, tuple) and len(f) == 2 and f[0] == "str.format":
            ps = parse_int_format(f[1])
            if ps is None:
                raise Unsupported(f"format string {f[1]!r}")
            fill, align, width, base = ps
            return Label(k, base, width, fill, align)
        if isinstance(f, tuple) and len(f) == 3 and f[0] == "lambda":
            return cx.apply_lambda(f, [k])
        if isinstance(f, tuple) and len(f) == 3 and f[0] == "def":
            return cx.call_closure(f, [k])
        raise Unsupported("labelling function")

    def ensures(self, a, r, cx, case):
        n = case.n
        ok = isinstance(r, Keyed) and isinstance(r.d, Freq)
        d = {"result = keymap(label, frequencies(samples))": ok}
        if not ok:
            return d
        s = r.d.samples
        born = U("flatten", [U("real", [U("diag", [a.p])])]) if case.isop else \
            U("flatten", [U("real", [U("multiply", [U("conj", [a.p]), a.p])])])
        D = PROD([a.phys_dim] * n)
        d["C-samples"] = s.size is not None and zeq(s.size, a.C)
        d["of-range(phys_dim**n)"] = is_int(s.d) and zeq(s.d, D)
        d["with-the-Born-probabilities-in-basis-order"] = isinstance(s.probs, St) and s.probs.z == born and not s.extra
        d["seeded-generator"] = s.rng == ("rng", a.seed)
        k = z3.Int("k!index")
        cx.assume(And(0 <= k, k < D))
        lab = self.label_of(cx, r.f, k)
        if isinstance(lab, Label) and lab.digits is not None:
            ds = lab.digits
            val = 0
            for x in ds:
                val = val * a.phys_dim + x
            d["labels-have-n-digits-zero-padded"] = len(ds) == n
            d["labels-use-base-phys_dim"] = And(*[And(0 <= x, x < a.phys_dim) for x in ds], val == k)
            d["every-digit-is-one-character"] = And(*[x < 10 for x in ds])  # str(digit): two characters from 10 on
            return d
        ok = isinstance(lab, Label) and lab.of is k
        d["label-is-a-positional-digit-string-of-the-index"] = ok
        if ok:
            d["labels-use-base-phys_dim"] = lab.base is not None and zeq(lab.base, a.phys_dim)
            d["labels-have-n-digits-zero-padded"] = lab.width is not None and zeq(lab.width, n) and lab.fill == "0" and lab.align == ">"
        return d

    def replay(self, model):
        import numpy as np
        import quimb as qu

        n, pd = model_int(model, "case!n"), model_int(model, "phys_dim")
        if n is None or pd is None:
            return dict(note="no (n, phys_dim) in the model", reproduced=False)
        pd = min(max(pd, 2), 5)
        isop = str(model.get("case!isop")) == "True"
        D = pd ** n
        k = D - 1
        v = np.zeros((D, 1), dtype=complex)
        v[k] = 1
        x = qu.qarray(v @ v.conj().T if isop else v)
        digits, kk = [], k
        for _ in range(n):
            kk, rr = divmod(kk, pd)
            digits.append("0123456789abcdefghijklmnopqrstuvwxyz"[rr])
        exp = {"".join(reversed(digits)): 5}
        call = f"simulate_counts(basis state {k} of {D} as {'operator' if isop else 'ket'}, 5, phys_dim={pd}, seed=0)"
        try:
            got = qu.simulate_counts(x, 5, phys_dim=pd, seed=0)
        except Exception as e:  # noqa
            return dict(call=call, observed=f"{type(e).__name__}: {e}", expected=str(exp), reproduced=True)
        got = {str(kx): int(vx) for kx, vx in dict(got).items()}
        return dict(call=call, observed=str(got), expected=str(exp), reproduced=got != exp)


# =====================================================================================================================
# dephase : count vs proportion
# =====================================================================================================================


class Dg:
    """a real diagonal (d x d) matrix with `count` equal non-zero entries of value `val` (positions: all of them, or a
    random choice of distinct / possibly repeated positions)"""

    def __init__(self, dim, count, val, where="all", distinct=True):
        self.dim, self.count, self.val, self.where, self.distinct = dim, count, val, where, distinct


class DiagView:
    def __init__(self, of):
        self.of = of


class Scaled:
    def __init__(self, c, x):
        self.c, self.x = c, x


class Mix:
    def __init__(self, parts):
        self.parts = parts


@register
class Dephase(Base):
    """(1 - p) * rho + p * D with D a diagonal state of trace one having k equal non-zero entries: k = d when rand_rank is
    None; rand_rank an INTEGER: k = that many entries (clamped to 1..d), at distinct random positions (all positions when
    k = d); rand_rank a FLOAT: the proportion, k = int(rand_rank * d) clamped to 1..d"""

    target = f"{CALC}::dephase"
    floor = 10
    bounded = ("maps-and-measurement",)

    def cases(self):
        return [NS(name=f"rand_rank={k}", kind=k) for k in ("None", "int", "float")]

    def inputs(self, cx, case):
        mark_case(cx, **{"rand_rank_is_" + case.kind: True})
        cx.ghost["d"] = cx.Int("d")
        rr = None if case.kind == "None" else (cx.Int("rand_rank") if case.kind == "int" else cx.Real("rand_rank"))
        return dict(rho=St(cx.Val("rho")), p=cx.Real("p"), rand_rank=rr)

    def requires(self, a, case):
        return {"d>=1": z3.Int("d") >= 1}

    def attr(self, cx, base, attr, node):
        if isinstance(base, St) and attr == "shape":
            return (cx.ghost["d"], cx.ghost["d"])
        return NotImplemented

    def call(self, cx, name, args, kwargs, node):
        if name == "eye" and len(args) == 1 and not kwargs:
            return Dg(args[0], args[0], 1)
        if name == "__binop__" and args[0] == "Div" and isinstance(args[1], Dg) and is_num(args[2]):
            cx.oblige(f"divzero@{node.lineno}", "safety", args[2] != 0, node.lineno)
            return Dg(args[1].dim, args[1].count, R(args[1].val) / R(args[2]), args[1].where, args[1].distinct)
        if name == "np.zeros" and len(args) == 1 and isinstance(args[0], tuple) and len(args[0]) == 2:
            if zeq(args[0][0], args[0][1]) is False:
                raise Unsupported("zeros shape")
            return Dg(args[0][0], 0, 0, "none")
        if name == "np.einsum" and len(args) == 2 and isinstance(args[1], Dg):
            spec = args[0].replace(" ", "") if isinstance(args[0], str) else ""
            if not (len(spec) == 5 and spec[0] == spec[1] == spec[4] and spec[2:4] == "->"):
                raise Unsupported("einsum subscripts")
            return DiagView(args[1])  # [leaf] einsum('aa->a', M) is a writeable view of the diagonal of M
        if name == "np.arange" and len(args) == 1:
            return ("arange", args[0])
        if name == "np.random.choice":
            pool = args[0]
            if not (isinstance(pool, tuple) and pool[0] == "arange") or set(kwargs) - {"size", "replace"}:
                raise Unsupported("choice call shape")
            return ("choice", pool[1], kwargs.get("size", args[1] if len(args) > 1 else None), kwargs.get("replace", True))
        if name == "__setitem__" and isinstance(args[0], DiagView) and isinstance(args[1], tuple) and args[1][0] == "choice":
            view, (_, pool, size, replace), val = args
            g = view.of
            if g.where != "none" or size is None:
                raise Unsupported("diagonal store")
            cx.oblige(f"index@{node.lineno}:positions-on-the-diagonal", "safety", zeq(pool, g.dim), node.lineno)
            g.count, g.val, g.where, g.distinct = size, val, "random", replace is False
            return None
        if name == "__binop__" and args[0] == "Mult" and is_num(args[1]) and isinstance(args[2], (St, Dg)):
            return Scaled(args[1], args[2])
        if name == "__binop__" and args[0] == "Add" and isinstance(args[1], Scaled) and isinstance(args[2], Scaled):
            return Mix([args[1], args[2]])
        return super().call(cx, name, args, kwargs, node)

    def ensures(self, a, r, cx, case):
        d_ = cx.ghost["d"]
        ok = isinstance(r, Mix) and len(r.parts) == 2 and isinstance(r.parts[0].x, St) and isinstance(r.parts[1].x, Dg)
        d = {"(1-p)*rho + p*dephaser": ok}
        if not ok:
            return d
        g = r.parts[1].x
        d["coefficients"] = And(R(r.parts[0].c) == 1 - a.p, R(r.parts[1].c) == a.p, r.parts[0].x.z == a.rho.z)
        d["dephaser-has-the-dimension-of-rho"] = zeq(g.dim, d_)
        clamp = lambda k: Min(Max(1, k), d_)
        if case.kind == "None":
            want = d_
        elif case.kind == "int":
            want = clamp(a.rand_rank)
        else:
            t = z3.Int("trunc!spec")
            x = a.rand_rank * R(d_)
            cx.assume(If(x >= 0, And(R(t) <= x, R(t) + 1 > x), And(R(t) >= x, R(t) - 1 < x)))  # def: t = int(rand_rank * d)
            want = clamp(t)
        d["number-of-non-zero-entries-is-the-requested-rank"] = zeq(g.count, want)
        d["entries-at-distinct-positions"] = g.distinct is True
        d["unit-trace"] = R(g.count) * R(g.val) == 1
        return d

    def replay(self, model):
        import numpy as np
        import quimb as qu

        if str(model.get("case!rand_rank_is_int")) != "True":
            return dict(note="replay implemented for the integer kind", reproduced=False)
        d_, rr = model_int(model, "d"), model_int(model, "rand_rank")
        if d_ is None or rr is None:
            return dict(note="no (d, rand_rank) in the model", reproduced=False)
        d_ = min(max(d_, 1), 6)
        rho = np.diag(np.arange(1, d_ + 1, dtype=float))
        rho = qu.qarray(rho / np.trace(rho))
        call = f"dephase(rho[{d_}x{d_}], 0.5, rand_rank={rr})   (integer rand_rank)"
        want = min(max(1, rr), d_)
        try:
            out = np.asarray(qu.dephase(rho, 0.5, rr))
        except Exception as e:  # noqa
            return dict(call=call, observed=f"{type(e).__name__}: {e}", expected=f"{want} non-zero entries", reproduced=True)
        D = (out - 0.5 * np.asarray(rho)) / 0.5
        nnz = int((np.abs(np.diag(D)) > 1e-12).sum())
        return dict(call=call, observed=f"dephaser with {nnz} non-zero diagonal entries", expected=f"{want} non-zero entries",
                    reproduced=nnz != want)


# =====================================================================================================================
# kraus_op : which index of which tensor is summed (index calculus of the two contractions)
# =====================================================================================================================


def canon_contraction(operands, out):
    """canonical form of a tensor contraction.  operands: list of (tensor key, labels); out: labels.  The operands are
    ordered by tensor key, then every label is replaced by the number of its first occurrence (operands in that order, then
    the output): two contractions have the same canonical form iff they are the same sum up to renaming of the labels"""
    ops = sorted(operands, key=lambda t: t[0])  # (stable: the same tensor twice keeps the order given)
    ren = {}
    ren_of = lambda l: ren.setdefault(l, len(ren))
    body = [(k, tuple(ren_of(l) for l in labs)) for k, labs in ops]
    o = tuple(ren_of(l) for l in out)
    if any(out.count(l) > 1 for l in out) or any(l not in {x for _, ls in ops for x in ls} for l in out):
        raise Unsupported("malformed output labels")
    return ";".join(f"{k}{list(ls)}" for k, ls in body) + "->" + str(list(o))


def einsum_implicit(spec, nops):
    """numpy einsum subscripts -> (list of label strings per operand, output labels); implicit output = the labels that
    appear exactly once, in alphabetical order"""
    spec = spec.replace(" ", "")
    lhs, arrow, rhs = spec.partition("->")
    parts = lhs.split(",")
    if len(parts) != nops or not all(p.isalpha() for p in parts) or (arrow and not (rhs.isalpha() or rhs == "")):
        raise Unsupported(f"einsum subscripts {spec!r}")
    if not arrow:
        allc = "".join(parts)
        rhs = "".join(sorted(c for c in set(allc) if allc.count(c) == 1))
    return [tuple(p) for p in parts], tuple(rhs)


class Ten:
    """an array in a contraction: tensor key ('E' Kraus stack, 'E*' its conjugate, 'rho'), shape it was reshaped to"""

    def __init__(self, key, shape=None, z=None):
        self.key, self.shape, self.z = key, shape, z


def where_cases(K):
    for m in range(1, K + 1):
        for w in itertools.permutations(range(K), m):
            yield w


@register
class KrausOp(Base):
    """sigma = sum_k E_k rho E_k^dagger with E_k acting on the subsystems `where` (its tensor factors in THAT order) of
    dims.  Checked as index calculus: rho is reshaped to dims + dims, the stack of Kraus operators to (K,) + kdims + kdims
    with kdims = dims[where], and the contraction array_contract((E, rho, E*), ...) is -- up to renaming of labels --
      E[K, a_w.., a'_w..] rho[.. a'_q (q in where) | a_q .., .. b'_q | b_q ..] E*[K, b_w.., b'_w..] -> [a_0.., b_0..]
    reshaped to (D, D), D = prod(dims).  check=True: ValueError exactly when || einsum(E*[k,i,j] E[k,i,l] -> [j,l]) -
    eye(d) ||_fro > 1e-12.  ValueError when exactly one of dims / where is given."""

    target = f"{CALC}::kraus_op"
    floor = 70
    bounded = ("maps-and-measurement",)

    def cases(self):
        out = []
        for check in (False, True):
            out.append(NS(name=f"whole,check={check}", K=0, where=None, wint=False, check=check, arr=True, bad=None))
            for K in (1, 2, 3):
                for w in where_cases(K):
                    out.append(NS(name=f"K={K},where={'.'.join(map(str, w))},check={check}", K=K, where=w, wint=False,
                                  check=check, arr=True, bad=None))
                if not check:
                    for q in range(K):
                        out.append(NS(name=f"K={K},where=int {q}", K=K, where=(q,), wint=True, check=False, arr=True, bad=None))
        out.append(NS(name="whole,Ek=list", K=0, where=None, wint=False, check=True, arr=False, bad=None))
        out.append(NS(name="K=2,where=1.0,Ek=list", K=2, where=(1, 0), wint=False, check=False, arr=False, bad=None))
        out.append(NS(name="dims-without-where", K=2, where=None, wint=False, check=False, arr=True, bad="where"))
        out.append(NS(name="where-without-dims", K=0, where=(0,), wint=False, check=False, arr=True, bad="dims"))
        return out

    def inputs(self, cx, case):
        g = cx.ghost
        g["nk"], g["dE"] = cx.Int("n_kraus"), cx.Int("d_kraus")
        g["normval"] = None
        dims = tuple(dims_inputs(cx, case.K)) if case.K else None
        where = None if case.where is None else (case.where[0] if case.wint else case.where)
        return dict(rho=Ten("rho"), Ek=Ten("E", shape=(g["nk"], g["dE"], g["dE"])) if case.arr else ("list-of-kraus-operators",),
                    dims=dims, where=where, check=case.check)

    def requires(self, a, case):
        return {"dims>=1": dims_ge1(a.dims) if a.dims else True}

    raises = {"ValueError": True}

    def attr(self, cx, base, attr, node):
        if isinstance(base, Ten) and attr == "shape" and base.shape is not None:
            return base.shape
        return NotImplemented

    def call(self, cx, name, args, kwargs, node):
        g = cx.ghost
        if name == "__isinstance__" and args[1] == "np.ndarray":
            return isinstance(args[0], Ten)
        if name == "np.stack" and args[0] == ("list-of-kraus-operators",) and kwargs == {"axis": 0}:
            return Ten("E", shape=(g["nk"], g["dE"], g["dE"]))  # [leaf] K arrays (d, d) stacked along a new first axis
        if name == ".conj" and isinstance(args[0], Ten) and args[0].key == "E":
            return Ten("E*", args[0].shape)
        if name == ".reshape" and isinstance(args[0], Ten):
            shape = args[1] if len(args) == 2 and isinstance(args[1], tuple) else tuple(args[1:])
            return Ten(args[0].key, shape, args[0].z)
        if name == "np.einsum":
            labs, out = einsum_implicit(args[0], len(args) - 1)
            if not all(isinstance(t, Ten) and len(l) == len(t.shape or ()) for t, l in zip(args[1:], labs)):
                raise Unsupported("einsum operands")
            return Ten("S", shape=None, z=U("contract:" + canon_contraction([(t.key, l) for t, l in zip(args[1:], labs)], out), []))
        if name == "eye" and len(args) == 1 and not kwargs:
            return St(U("eye", [args[0]]))
        if name == "__binop__" and args[0] == "Sub" and isinstance(args[1], Ten) and args[1].z is not None and isinstance(args[2], St):
            return St(U("minus", [args[1].z, args[2]]))
        if name == "norm" and len(args) == 2 and args[1] == "fro" and not kwargs:
            g["normval"] = U("norm_fro", [args[0]], REAL)
            return g["normval"]
        if name == "__genexp__":
            if cx.ev(args[0].generators[0].iter) is None:
                raise PyRaise("TypeError", node.lineno)  # python: 'NoneType' object is not iterable
            return NotImplemented
        if name == "array_contract" and len(args) == 3 and not kwargs:
            tens, inds, out = args
            if not (all(isinstance(t, Ten) for t in tens) and len(tens) == len(inds)):
                raise Unsupported("array_contract operands")
            for t, l in zip(tens, inds):
                if t.shape is not None and len(t.shape) != len(l) and t.key != "rho":
                    raise PyRaise("ValueError", node.lineno)
            g["contraction"] = (list(zip(tens, inds)), out)
            return Ten("sigma", None, U("contract:" + canon_contraction([(t.key, tuple(l)) for t, l in zip(tens, inds)], tuple(out)), []))
        return super().call(cx, name, args, kwargs, node)

    def ensures_raise(self, a, exc, cx, case):
        g = cx.ghost
        d = {"only-ValueError": exc == "ValueError"}
        if case.bad:
            d["raises-because-exactly-one-of-dims/where-is-given"] = True
            return d
        if case.check and g.get("normval") is not None:
            want = U("norm_fro", [U("minus", [U("contract:" + canon_contraction([("E*", ("k", "i", "j")), ("E", ("k", "i", "l"))],
                                                                                ("j", "l")), []), U("eye", [g["dE"]])])], REAL)
            d["raises-only-when-sum_k E_k^dagger E_k differs from the identity"] = And(g["normval"] == want, want > Z(1e-12))
            return d
        d["no-raise-without-check"] = False
        return d

    def ensures(self, a, r, cx, case):
        g = cx.ghost
        if case.bad:
            return {"must-raise-when-exactly-one-of-dims/where-is-given": False}
        d = {}
        if case.check:
            want = U("norm_fro", [U("minus", [U("contract:" + canon_contraction([("E*", ("k", "i", "j")), ("E", ("k", "i", "l"))],
                                                                                ("j", "l")), []), U("eye", [g["dE"]])])], REAL)
            d["completeness-was-checked"] = g.get("normval") is not None and And(g["normval"] == want, want <= Z(1e-12))
        ok = isinstance(r, Ten) and r.key == "sigma" and "contraction" in g
        d["returns-the-contraction"] = ok
        if not ok:
            return d
        ops, out = g["contraction"]
        byk = {t.key: t for t, _ in ops}
        d["operands-are-E-rho-E*"] = sorted(byk) == ["E", "E*", "rho"]
        if sorted(byk) != ["E", "E*", "rho"]:
            return d
        if not case.K:
            spec = canon_contraction([("E", ("K", "a", "a'")), ("rho", ("a'", "b'")), ("E*", ("K", "b", "b'"))], ("a", "b"))
            d["sum_k E_k rho E_k^dagger"] = r.z.eq(U("contract:" + spec, []))
            d["no-reshape"] = r.shape is None and byk["rho"].shape is None and byk["E"].shape == (g["nk"], g["dE"], g["dE"])
            return d
        N, w = case.K, case.where
        A = lambda q: f"a{q}"
        Ap = lambda q: f"a'{q}"
        B = lambda q: f"b{q}"
        Bp = lambda q: f"b'{q}"
        spec = canon_contraction([
            ("E", ("K", *[A(q) for q in w], *[Ap(q) for q in w])),
            ("rho", (*[Ap(q) if q in w else A(q) for q in range(N)], *[Bp(q) if q in w else B(q) for q in range(N)])),
            ("E*", ("K", *[B(q) for q in w], *[Bp(q) for q in w]))],
            (*[A(q) for q in range(N)], *[B(q) for q in range(N)]))
        d["E acts on the subsystems `where` of the ket side, E^dagger on the bra side"] = r.z.eq(U("contract:" + spec, []))
        kd = [a.dims[q] for q in w]
        sh = byk["rho"].shape
        d["rho-reshaped-to-dims+dims"] = sh is not None and len(sh) == 2 * N and And(*[zeq(x, y) for x, y in zip(sh, a.dims + a.dims)])
        for key in ("E", "E*"):
            sh = byk[key].shape
            d[f"{key}-reshaped-to-(K,)+dims[where]+dims[where]"] = sh is not None and len(sh) == 1 + 2 * len(w) and sh[0] == -1 and \
                And(*[zeq(x, y) for x, y in zip(sh[1:], kd + kd)])
        D = PROD(a.dims)
        d["result-reshaped-to-(D,D)"] = r.shape is not None and len(r.shape) == 2 and And(zeq(r.shape[0], D), zeq(r.shape[1], D))
        return d


# =====================================================================================================================
# projector / measure : eigenvalue -> column selection
# =====================================================================================================================

el_of = z3.Function("eigenvalue_at", V, INT, REAL)  # entry i of a spectrum


class Spec_:
    """1-d array of eigenvalues (n entries): entry i is el_of(z, i)"""

    def __init__(self, z, n):
        self.z, self.n = z, n


class Vecs:
    """matrix whose column i is the eigenvector of eigenvalue i"""

    def __init__(self, z, n, dag=False):
        self.z, self.n, self.dag = z, n, dag


class Shift:
    def __init__(self, el, lam, absd=False):
        self.el, self.lam, self.absd = el, lam, absd


class Mask:
    """boolean array  |el_i - lam| < tol   (absd False: el_i - lam < tol)"""

    def __init__(self, el, lam, tol, absd=True):
        self.el, self.lam, self.tol, self.absd = el, lam, tol, absd

    def at(self, i):
        x = el_of(self.el.z, i) - R(self.lam)
        return (If(x >= 0, x, -x) if self.absd else x) < R(self.tol)


class Col:
    def __init__(self, vecs, i, dag=False):
        self.vecs, self.i, self.dag = vecs, i, dag


class Outer:
    def __init__(self, i, j, vecs):
        self.i, self.j, self.vecs = i, j, vecs


class Acc:
    """sum of outer products |v_i><v_i| of the columns of `vecs`: multiplicity of every column (z3 array Int -> Int)"""

    def __init__(self, mult, vecs):
        self.mult, self.vecs = mult, vecs


class EigBase(Base):
    def eig_inputs(self, cx, kind):
        g = cx.ghost
        g["n"] = cx.Int("n")
        g["el"], g["ev"] = Spec_(cx.Val("el"), g["n"]), Vecs(cx.Val("ev"), g["n"])
        if kind == "tuple":
            return (g["el"], g["ev"])
        g["A"] = cx.Opaque("A")
        return g["A"]

    def call(self, cx, name, args, kwargs, node):
        g = cx.ghost
        if name == "__isinstance__" and args[1] == "(tuple, list)":
            return isinstance(args[0], (tuple, list))
        if name == "eigh" and len(args) == 1 and args[0] is g.get("A"):
            g["eigh_kwargs"] = dict(kwargs)
            return (g["el"], g["ev"])  # [leaf] eigenvalues and, column i, the eigenvector of eigenvalue i
        if name == "__binop__" and args[0] in ("Sub", "Add") and isinstance(args[1], Spec_) and is_num(args[2]):
            return Shift(args[1], args[2] if args[0] == "Sub" else -R(args[2]))
        if name == "abs" and len(args) == 1 and isinstance(args[0], Shift):
            return Shift(args[0].el, args[0].lam, True)
        if name == "__cmp__" and args[0] == "<" and isinstance(args[1], Shift) and is_num(args[2]):
            return Mask(args[1].el, args[1].lam, args[2], args[1].absd)
        return super().call(cx, name, args, kwargs, node)

    def attr(self, cx, base, attr, node):
        if isinstance(base, (Vecs, Col)) and attr == "H":
            return Vecs(base.z, base.n, not base.dag) if isinstance(base, Vecs) else Col(base.vecs, base.i, not base.dag)
        if isinstance(base, Spec_) and attr == "size":
            return base.n
        return NotImplemented


SKJ = z3.Int("j!col")  # an arbitrary column


@register
class Projector(EigBase):
    """P = sum of |v_i><v_i| over exactly the columns i with |el_i - eigenvalue| < tol, each once (proved for an arbitrary
    column j); (el, ev) is the given pair or eigh(A, autoblock=autoblock)"""

    target = f"{CALC}::projector"
    floor = 8
    bounded = ("maps-and-measurement",)

    def cases(self):
        return [NS(name=f"A={k}", kind=k) for k in ("tuple", "operator")]

    def inputs(self, cx, case):
        return dict(A=self.eig_inputs(cx, case.kind), eigenvalue=cx.Real("eigenvalue"), tol=cx.Real("tol"),
                    autoblock=cx.Bool("autoblock"))

    def requires(self, a, case):
        return {"n>=0": z3.Int("n") >= 0, "skolem-column": And(0 <= SKJ, SKJ < z3.Int("n"))}

    def call(self, cx, name, args, kwargs, node):
        g = cx.ghost
        if name == "np.argwhere" and len(args) == 1 and isinstance(args[0], Mask):
            mask = args[0]
            m = cx.Int("n_selected")
            w = z3.Function(cx._name("selected"), INT, INT)
            pos = z3.Function(cx._name("position_of"), INT, INT)
            g.update(mask=mask, m=m, w=w, pos=pos)
            # [leaf np.argwhere] the m indices with a true entry, in increasing order -- instances at the skolem column:
            cx.assume(m >= 0)
            cx.assume(Implies(mask.at(SKJ), And(0 <= pos(SKJ), pos(SKJ) < m, w(pos(SKJ)) == SKJ)))
            from vf.pyvc import SymIter
            return SymIter(m, lambda t: w(t))
        if name == "__getslice__" and type(args[0]).__name__ == "SymIter" and isinstance(args[1], int) and args[1] >= 0 \
                and args[2] is None and args[3] is None:
            it, lo = args[0], args[1]
            from vf.pyvc import SymIter
            return SymIter(If(it.length >= lo, it.length - lo, 0), lambda t: it.getter(t + lo))
        if name == "np.zeros_like" and len(args) == 1 and isinstance(args[0], Vecs):
            return Acc(z3.K(INT, z3.IntVal(0)), args[0])
        if name == "__getitem__" and isinstance(args[0], Vecs) and isinstance(args[1], tuple) and len(args[1]) == 2 \
                and args[1][0] == slice(None, None, None) and is_int(args[1][1]) and not args[0].dag:
            cx.oblige(f"index@{node.lineno}:column-exists", "safety", And(0 <= args[1][1], args[1][1] < args[0].n), node.lineno)
            return Col(args[0], args[1][1])
        if name == "__binop__" and args[0] == "MatMult" and isinstance(args[1], Col) and isinstance(args[2], Col) \
                and not args[1].dag and args[2].dag:
            return Outer(args[1].i, args[2].i, args[1].vecs)
        if name == "__binop__" and args[0] == "Add" and isinstance(args[1], Acc) and isinstance(args[2], Outer):
            acc, o = args[1], args[2]
            if o.vecs.z is not acc.vecs.z and not o.vecs.z.eq(acc.vecs.z):
                raise Unsupported("outer product of another matrix")
            cx.oblige(f"enc@{node.lineno}:outer-product-of-one-column-with-itself", "enc", zeq(o.i, o.j), node.lineno)
            return Acc(z3.Store(acc.mult, o.i, z3.Select(acc.mult, o.i) + 1), acc.vecs)
        return super().call(cx, name, args, kwargs, node)

    def inv(self, v):
        g = v.cx.ghost
        t = v._it0
        return {"included-so-far": z3.Select(v.P.mult, SKJ) == If(And(g["mask"].at(SKJ), g["pos"](SKJ) < t), 1, 0),
                "same-eigenvectors": v.P.vecs.z.eq(g["ev"].z)}

    def facts(self, v):
        g = v.cx.ghost
        t, w, pos, m = v._it0, g["w"], g["pos"], g["m"]
        # [leaf np.argwhere] instances at the current position t and the skolem column: entries in range and selected,
        # strictly increasing (hence distinct)
        return [Implies(And(0 <= t, t < m), And(0 <= w(t), w(t) < g["n"], g["mask"].at(w(t)))),
                Implies(And(0 <= t, t < m, 0 <= pos(SKJ), pos(SKJ) < m, pos(SKJ) < t), w(pos(SKJ)) < w(t)),
                Implies(And(0 <= t, t < m, 0 <= pos(SKJ), pos(SKJ) < m, t < pos(SKJ)), w(t) < w(pos(SKJ)))]

    @property
    def loops(self):
        return {0: Loop("for i in which", self.inv, facts=self.facts,
                        retype={"P": lambda cx: Acc(cx.Array("P_mult", INT, INT), cx.ghost["ev"])})}

    def ensures(self, a, r, cx, case):
        g = cx.ghost
        ok = isinstance(r, Acc) and "mask" in g
        d = {"returns-a-sum-of-outer-products-of-eigenvectors": ok}
        if not ok:
            return d
        want = Mask(g["el"], a.eigenvalue, a.tol)
        d["column-included-exactly-once-iff-its-eigenvalue-is-within-tol"] = z3.Select(r.mult, SKJ) == If(want.at(SKJ), 1, 0)
        d["of-the-eigenvectors-of-A"] = r.vecs.z.eq(g["ev"].z)
        if case.kind == "operator":
            d["autoblock-passed-to-eigh"] = same_opts(g.get("eigh_kwargs", {}), {"autoblock": a.autoblock})
        return d


@register
class Measure(EigBase):
    """outcome probabilities p_j = <v_j|p|v_j> (|<v_j|psi>|^2) paired with eigenvalue j; a random outcome is el[j] for j
    drawn from range(n) with those probabilities; the state is projected with projector((el, ev), eigenvalue, tol) and
    normalised by the total probability of the SAME eigenspace (|el - eigenvalue| < tol); returns (eigenvalue, state)"""

    target = f"{CALC}::measure"
    floor = 8
    bounded = ("maps-and-measurement",)

    def cases(self):
        return [NS(name=f"A={k},{s},eigenvalue={e}", kind=k, isvec=s == "ket", given=e == "given")
                for k in ("tuple", "operator") for s in ("ket", "op") for e in ("None", "given")]

    def inputs(self, cx, case):
        return dict(p=Ten("p"), A=self.eig_inputs(cx, case.kind), eigenvalue=cx.Real("eigenvalue") if case.given else None,
                    tol=cx.Real("tol"))

    def call(self, cx, name, args, kwargs, node):
        g = cx.ghost
        if name == "isvec":
            return cx.case.isvec
        if name == "np.arange" and len(args) == 1:
            return ("arange", args[0])
        if name == "__binop__" and args[0] == "MatMult" and isinstance(args[1], Vecs) and args[1].dag and args[2] is cx.old.p:
            return St(U("overlaps", [args[1].z, U("p", [])]))  # ev.H @ psi: entry j is <v_j|psi>
        if name == "abs" and len(args) == 1 and isinstance(args[0], St):
            return St(U("abs", args))
        if name == "__binop__" and args[0] == "Pow" and isinstance(args[1], St) and args[2] == 2:
            return St(U("square", [args[1]]))
        if name == ".flatten" and isinstance(args[0], St):
            return St(U("flatten", [args[0]]))
        if name == "array_contract" and len(args) == 3 and not kwargs:
            tens, inds, out = args
            keys = []
            for t in tens:
                if isinstance(t, Vecs) and t.z.eq(g["ev"].z):
                    keys.append("ev^H" if t.dag else "ev")
                elif t is cx.old.p:
                    keys.append("p")
                else:
                    raise Unsupported("array_contract operand")
            return Ten("pj", None, U("contract:" + canon_contraction([(k, tuple(l)) for k, l in zip(keys, inds)], tuple(out)), []))
        if name == "np.random.choice" and len(args) == 1 and not set(kwargs) - {"p"}:
            j = cx.Int("j_drawn")
            g["draw"] = (args[0], kwargs.get("p"), j)
            if isinstance(args[0], tuple) and args[0][0] == "arange":
                cx.assume(And(0 <= j, j < args[0][1]))  # [leaf] choice returns an element of the pool range(len)
            return j
        if name == "__getitem__" and isinstance(args[0], Spec_) and is_int(args[1]):
            cx.oblige(f"index@{node.lineno}:eigenvalue-exists", "safety", And(0 <= args[1], args[1] < args[0].n), node.lineno)
            return el_of(args[0].z, args[1])
        if name == "projector" and len(args) == 1 and isinstance(args[0], tuple) and len(args[0]) == 2 and \
                isinstance(args[0][0], Spec_) and isinstance(args[0][1], Vecs) and not set(kwargs) - {"eigenvalue", "tol"}:
            # [callee projector, own contract] defaults of the real signature: eigenvalue=1.0, tol=1e-12
            return St(U("projector", [args[0][0].z, args[0][1].z, R(kwargs.get("eigenvalue", 1.0)), R(kwargs.get("tol", 1e-12))]))
        if name == "__getitem__" and isinstance(args[1], Mask):
            return ("masked", args[0], args[1])
        if name == "np.sum" and len(args) == 1 and isinstance(args[0], tuple) and args[0][0] == "masked":
            _, pj, mk = args[0]
            return U("sum_where_within_tol", [unz(pj.z if isinstance(pj, Ten) else pj), mk.el.z, R(mk.lam), R(mk.tol)], REAL)
        if name == "__pow__" and is_z3(args[0]) and is_num(args[1]):
            return U("pow", [R(args[0]), R(args[1])], REAL)
        if name == "__binop__" and args[0] == "Div" and args[1] is cx.old.p and is_z3(args[2]):
            return St(U("divide", [U("p", []), R(args[2])]))
        if name == "__binop__" and args[0] == "MatMult" and isinstance(args[1], St) and args[2] is cx.old.p:
            return St(U("matmul", [args[1], U("p", [])]))
        if name == "__binop__" and args[0] == "MatMult" and isinstance(args[1], St) and isinstance(args[2], St):
            return St(U("matmul", [args[1], args[2]]))
        if name == "__binop__" and args[0] == "Div" and isinstance(args[1], St) and is_z3(args[2]):
            return St(U("divide", [args[1], R(args[2])]))
        return super().call(cx, name, args, kwargs, node)

    def attr(self, cx, base, attr, node):
        if isinstance(base, Ten) and base.key == "pj" and attr == "real":
            return Ten("pj", None, U("real", [base.z]))
        if isinstance(base, St) and attr == "H":
            return St(U("dagger", [base]))
        return super().attr(cx, base, attr, node)

    def ensures(self, a, r, cx, case):
        g = cx.ghost
        ok = isinstance(r, tuple) and len(r) == 2 and is_z3(r[0]) and isinstance(r[1], St)
        d = {"returns-(eigenvalue, state)": ok}
        if not ok:
            return d
        lam, after = r
        pvec = U("p", [])
        if case.isvec:
            pj = U("flatten", [U("square", [U("abs", [U("overlaps", [g["ev"].z, pvec])])])])
        else:
            pj = U("real", [U("contract:" + canon_contraction([("ev^H", ("j", "k")), ("p", ("k", "l")), ("ev", ("l", "j"))], ("j",)), [])])
        if case.given:
            d["the-given-eigenvalue-is-returned"] = lam.eq(a.eigenvalue)
        else:
            ok = "draw" in g
            d["random-outcome"] = ok
            if ok:
                pool, probs, j = g["draw"]
                d["index-drawn-from-range(n)"] = isinstance(pool, tuple) and pool[0] == "arange" and zeq(pool[1], g["n"])
                d["with-probability-<v_j|p|v_j>"] = probs is not None and unz(probs.z if isinstance(probs, Ten) else probs).eq(pj)
                d["outcome-is-the-eigenvalue-of-the-drawn-index"] = lam.eq(el_of(g["el"].z, j))
        P = U("projector", [g["el"].z, g["ev"].z, R(lam), R(a.tol)])
        tot = U("sum_where_within_tol", [pj, g["el"].z, R(lam), R(a.tol)], REAL)
        if case.isvec:
            d["P psi / sqrt(total probability of the eigenspace)"] = after.z == U("matmul", [P, U("divide", [
                pvec, U("pow", [tot, R(0.5)], REAL)])])
        else:
            d["P rho P^dagger / total probability of the eigenspace"] = after.z == U("divide", [
                U("matmul", [U("matmul", [P, pvec]), U("dagger", [P])]), tot])
        if case.kind == "operator":
            d["eigh-of-A"] = g.get("eigh_kwargs") == {}
        return d


# =====================================================================================================================
# lazy partial-trace operators (approx_spectral.py): which axes are summed, which are rows / columns
# =====================================================================================================================


class TenT:
    """quimb Tensor: data (a Ten) + one label per axis"""

    def __init__(self, data, inds):
        self.data, self.inds = data, list(inds)


class TNet:
    def __init__(self, tensors):
        self.tensors = list(tensors)


class LinOp:
    def __init__(self, tn, left, right, opts):
        self.tn, self.left, self.right, self.opts = tn, list(left), list(right), opts


def ordered_subsets(K, nonempty=True):
    """sorted tuples and, for sets of two or more, also the reversed tuple (an order that is not the index order)"""
    for bits in subsets(K, nonempty=nonempty):
        t = tuple(q for q in range(K) if bits[q])
        yield t
        if len(t) > 1:
            yield t[::-1]


class LazyBase(Base):
    def call(self, cx, name, args, kwargs, node):
        if name == "np.asarray" and len(args) == 1:
            return args[0]
        if name == ".reshape" and isinstance(args[0], Opaque) and len(args) == 2 and isinstance(args[1], (list, tuple)):
            return Ten("psi", tuple(args[1]), args[0].z)
        if name == "Tensor" and len(args) == 1 and set(kwargs) == {"inds"} and isinstance(args[0], Ten):
            return TenT(args[0], kwargs["inds"])
        if name == ".conjugate" and isinstance(args[0], Ten) and args[0].key == "psi":
            return Ten("psi*", args[0].shape, args[0].z)
        if name == "__binop__" and args[0] == "BitAnd" and isinstance(args[1], TenT) and isinstance(args[2], TenT):
            return TNet([args[1], args[2]])  # [leaf] `&` of two tensors: a network contracting their equal labels
        if name == ".aslinearoperator" and isinstance(args[0], TNet) and len(args) == 3:
            return LinOp(args[0], args[1], args[2], dict(kwargs))
        return super().call(cx, name, args, kwargs, node)

    def attr(self, cx, base, attr, node):
        if isinstance(base, TenT) and attr == "data":
            return base.data
        return NotImplemented

    def common(self, a, r, cx, psi):
        """the network is psi (reshaped to dims) and its conjugate, one label per subsystem axis each; returns
        (checks, ket labels, bra labels) or (checks, None, None)"""
        K = len(a.dims)
        ok = isinstance(r, LinOp) and len(r.tn.tensors) == 2 and {t.data.key for t in r.tn.tensors} == {"psi", "psi*"}
        d = {"operator-of-the-network-psi-&-psi*": ok}
        if not ok:
            return d, None, None
        ket = [t for t in r.tn.tensors if t.data.key == "psi"][0]
        bra = [t for t in r.tn.tensors if t.data.key == "psi*"][0]
        d["state-reshaped-to-dims"] = And(*[t.data.z is psi.z and len(t.data.shape) == K and
                                            And(*[zeq(x, y) for x, y in zip(t.data.shape, a.dims)]) for t in (ket, bra)])
        d["one-label-per-subsystem"] = len(ket.inds) == K and len(bra.inds) == K and all(isinstance(x, str) for x in ket.inds + bra.inds)
        d["labels-of-one-tensor-distinct"] = len(set(ket.inds)) == len(ket.inds) and len(set(bra.inds)) == len(bra.inds)
        d["options-passed-through"] = same_opts(r.opts, a.linop_opts)
        if not (d["one-label-per-subsystem"] and d["labels-of-one-tensor-distinct"]):
            return d, None, None
        # a label shared by the two tensors must sit on the SAME axis of both (it is then summed over that subsystem)
        d["shared-labels-on-the-same-axis"] = all((k in bra.inds) == (k == bra.inds[q]) for q, k in enumerate(ket.inds))
        return d, ket.inds, bra.inds


@register
class LazyPtrLinop(LazyBase):
    """rows x columns = (ket axes of A in some order pi) x (bra axes of A in the SAME order pi), every axis outside A summed
    (shared label), no axis of A summed: the operator is the reduced state of A (subsystems in the order pi)"""

    target = f"{APX}::lazy_ptr_linop"
    floor = 40

    def cases(self):
        out = [NS(name=f"K={k},sysa={'.'.join(map(str, t))}", K=k, sysa=t, sint=False) for k in (1, 2, 3, 4) for t in ordered_subsets(k)]
        out += [NS(name=f"K={k},sysa=int {q}", K=k, sysa=(q,), sint=True) for k in (2, 3) for q in range(k)]
        return out

    def inputs(self, cx, case):
        return dict(psi_ab=cx.Opaque("psi_ab"), dims=dims_inputs(cx, case.K), sysa=case.sysa[0] if case.sint else case.sysa,
                    linop_opts=opts_case(cx))

    def ensures(self, a, r, cx, case):
        d, ket, bra = self.common(a, r, cx, a.psi_ab)
        if ket is None:
            return d
        K, A = case.K, set(case.sysa)
        d["exactly-the-axes-outside-A-are-summed"] = all((ket[q] == bra[q]) == (q not in A) for q in range(K))
        ok = len(r.left) == len(A) and len(r.right) == len(A) and all(x in ket for x in r.left)
        d["rows-are-the-ket-axes-of-A-each-once"] = ok and sorted(ket.index(x) for x in r.left) == sorted(A)
        d["columns-are-the-bra-axes-of-A-in-the-same-order"] = ok and [bra[ket.index(x)] for x in r.left] == r.right
        return d


@register
class LazyPtrPptLinop(LazyBase):
    """axes outside A u B summed; for the kept axes in one common order pi: rows = (bra axis if in A else ket axis),
    columns = (ket axis if in A else bra axis) -- the reduced state of A u B partially transposed over A"""

    target = f"{APX}::lazy_ptr_ppt_linop"
    floor = 100

    def cases(self):
        out = []
        for k in (2, 3, 4):
            for A, B in disjoint_pairs(k):
                ta, tb = tuple(q for q in range(k) if A[q]), tuple(q for q in range(k) if B[q])
                out.append(NS(name=f"K={k},A={sname(A)},B={sname(B)}", K=k, sysa=ta, sysb=tb, ints=False))
                if len(ta) > 1 or len(tb) > 1:
                    out.append(NS(name=f"K={k},A={sname(A)},B={sname(B)},reversed", K=k, sysa=ta[::-1], sysb=tb[::-1], ints=False))
                if len(ta) == 1 and len(tb) == 1 and k == 3:
                    out.append(NS(name=f"K={k},A=int {ta[0]},B=int {tb[0]}", K=k, sysa=ta, sysb=tb, ints=True))
        return out

    def inputs(self, cx, case):
        return dict(psi_abc=cx.Opaque("psi_abc"), dims=dims_inputs(cx, case.K), sysa=case.sysa[0] if case.ints else case.sysa,
                    sysb=case.sysb[0] if case.ints else case.sysb, linop_opts=opts_case(cx))

    def ensures(self, a, r, cx, case):
        d, ket, bra = self.common(a, r, cx, a.psi_abc)
        if ket is None:
            return d
        K, A, B = case.K, set(case.sysa), set(case.sysb)
        AB = A | B
        d["exactly-the-axes-outside-A-u-B-are-summed"] = all((ket[q] == bra[q]) == (q not in AB) for q in range(K))
        ok = len(r.left) == len(AB) and len(r.right) == len(AB) and all(x in ket or x in bra for x in r.left + r.right)
        d["one-row-label-and-one-column-label-per-kept-axis"] = ok
        if not ok or not d["exactly-the-axes-outside-A-u-B-are-summed"]:
            return d
        axis = lambda x: ket.index(x) if x in ket else bra.index(x)
        d["rows-and-columns-list-the-kept-axes-in-one-common-order"] = [axis(x) for x in r.left] == [axis(x) for x in r.right] and \
            sorted(axis(x) for x in r.left) == sorted(AB)
        d["rows: bra axis on A, ket axis on B"] = all(x == (bra[axis(x)] if axis(x) in A else ket[axis(x)]) for x in r.left)
        d["columns: ket axis on A, bra axis on B"] = all(x == (ket[axis(x)] if axis(x) in A else bra[axis(x)]) for x in r.right)
        return d


# =====================================================================================================================
# providers: fdx (the REAL function on a complete finite domain, post-condition evaluated exactly) and E4 (ast)
# =====================================================================================================================


def _load(relpath, modname):
    """the module under test: the installed one when it is the file below the engine's REPO, else (mutant testing) the
    file below REPO executed as a scratch sub-module of the same package (relative imports resolve to the real package)"""
    import importlib
    import importlib.util

    mod = importlib.import_module(modname)
    want = os.path.realpath(os.path.join(P.REPO, relpath))
    if os.path.realpath(mod.__file__) == want:
        return mod
    spec = importlib.util.spec_from_file_location(modname + "__c20_scratch", want)
    m = importlib.util.module_from_spec(spec)
    spec.loader.exec_module(m)
    return m


def _ob(fn, label, ok, t0, model=None, detail=None, unknown=False, kind="fdx", backend="exhaustive", engine="fdx", path=CALC):
    from vf.framework import ObResult

    if not ok and not unknown and isinstance(model, dict):
        ce = (model.get("counterexample") or [None])[0]
        if isinstance(ce, dict) and "call" in ce:
            # the counterexample is an input of the real function: a native replay by construction
            model = dict(model, native_replay=dict(call=ce["call"], observed=ce.get("observed", ce.get("raised")),
                                                   expected=ce.get("expected"), reproduced=True))
    return ObResult(id=f"{path}::{fn}::{label}", kind=kind, status="unknown" if unknown else ("discharged" if ok else "failed"),
                    backend=backend, solver_s=time.time() - t0, function=f"{path}::{fn}", model=None if (ok and not unknown) else model,
                    detail=detail, engine=engine)


def _digits(k, base, n):
    out = []
    for _ in range(n):
        k, r = divmod(k, base)
        out.append("0123456789abcdefghijklmnopqrstuvwxyz"[r])
    return "".join(reversed(out))


def provider_simulate_counts(tier):
    """simulate_counts on EVERY computational basis state of phys_dim ** n <= 125 (256 thorough) levels, as ket and as
    projector: the outcome is certain, so the result must be exactly {n-digit base-phys_dim string of the index: C};
    and on the uniform superposition: valid, distinct labels whose counts sum to C"""
    import numpy as np

    calc = _load(CALC, "quimb.calc")
    import quimb as qu

    out = []
    grid = [(pd, n) for pd in (2, 3, 4, 5) for n in (1, 2, 3, 4) if pd ** n <= (256 if tier == "thorough" else 125)]
    for pd in sorted({g[0] for g in grid}):
        t0 = time.time()
        bad, bad_sum, ncalls = [], [], 0
        for n in [g[1] for g in grid if g[0] == pd]:
            D = pd ** n
            for k in range(D):
                v = np.zeros((D, 1), dtype=complex)
                v[k] = 1
                for rep in ("ket", "op"):
                    x = qu.qarray(v if rep == "ket" else v @ v.T)
                    C = 3 + (k % 4)
                    call = f"simulate_counts(basis state {k} of {pd}**{n} as {rep}, {C}, phys_dim={pd}, seed={k})"
                    ncalls += 1
                    exp = {_digits(k, pd, n): C}
                    try:
                        got = {str(a): int(b) for a, b in dict(calc.simulate_counts(x, C, phys_dim=pd, seed=k)).items()}
                    except Exception as e:  # noqa
                        bad.append(dict(call=call, raised=f"{type(e).__name__}: {e}", expected=str(exp)))
                        continue
                    if got != exp:
                        bad.append(dict(call=call, observed=str(got), expected=str(exp)))
            # multinomial bookkeeping on a state with every outcome possible
            u = qu.qarray(np.ones((D, 1), dtype=complex) / np.sqrt(D))
            for C in (0, 1, 57):
                call = f"simulate_counts(uniform superposition of {pd}**{n}, {C}, phys_dim={pd}, seed=7)"
                ncalls += 1
                try:
                    got = dict(calc.simulate_counts(u, C, phys_dim=pd, seed=7))
                    valid = {_digits(k, pd, n) for k in range(D)}
                    okk = sum(int(b) for b in got.values()) == C and all(str(a) in valid for a in got) and \
                        all(int(b) >= 1 for b in got.values())
                    if not okk:
                        bad_sum.append(dict(call=call, observed=str(got)[:300], expected=f"labels among the {D} {n}-digit base-{pd} "
                                                                                         f"strings, positive counts summing to {C}"))
                except Exception as e:  # noqa
                    bad_sum.append(dict(call=call, raised=f"{type(e).__name__}: {e}"))
        dom = f"phys_dim={pd}, n in {[g[1] for g in grid if g[0] == pd]}: {ncalls} calls"
        out.append(_ob("simulate_counts", f"certain-outcome-labelled-by-its-base-phys_dim-digits[phys_dim={pd}]", not bad, t0,
                       model=dict(domain=dom, violations=len(bad), counterexample=bad[:1], more=bad[1:5])))
        out.append(_ob("simulate_counts", f"valid-labels-and-counts-sum-to-C[phys_dim={pd}]", not bad_sum, t0,
                       model=dict(domain=dom, violations=len(bad_sum), counterexample=bad_sum[:1], more=bad_sum[1:5])))
    return out


PAULI_TEXTBOOK = {"I": [[1, 0], [0, 1]], "X": [[0, 1], [1, 0]], "Y": [[0, -1j], [1j, 0]], "Z": [[1, 0], [0, -1]]}

_pow_of = {}


def pow_fn(base):
    """spec function base ** n for n >= 0:  pow(0) = 1, pow(n + 1) = base * pow(n)"""
    return _pow_of.setdefault(base, z3.Function(f"pow{base}", INT, INT))


@lemmas.lemma("C20", "pow2-positive-base")
def lem_pow_b():
    p = pow_fn(2)
    return [p(0) == 1], p(0) >= 1


@lemmas.lemma("C20", "pow2-positive-step")
def lem_pow_s():
    p, n = pow_fn(2), z3.Int("n")
    return [n >= 0, p(n) >= 1, p(n + 1) == 2 * p(n)], p(n + 1) >= 1


class _LambdaEval(Contract):
    """evaluates the normalisation lambda on a symbolic n: an integer constant to the power +-n is pow_c(n) / its inverse"""

    target = f"{CALC}::decomp"
    property_ids = PID

    def call(self, cx, name, args, kwargs, node):
        if name == "__pow__" and isinstance(args[0], int) and args[0] >= 1 and is_z3(args[1]) and z3.is_int(args[1]):
            n, b = cx.ghost["n"], args[0]
            for sign in (1, -1):
                c = z3.simplify(args[1] - sign * n)  # exponent = sign * n + c with a concrete integer c
                if z3.is_int_value(c):
                    c = c.as_long()
                    k = z3.RealVal(b) ** abs(c)
                    k = z3.simplify(k if c >= 0 else 1 / k)
                    pn = z3.ToReal(pow_fn(b)(n))
                    return k * pn if sign == 1 else k / pn
        return NotImplemented


def provider_decomp_partials(tier):
    """E4 (ast of the module-level bindings) + one arithmetic obligation:  pauli_decomp = partial(decomp, fn=pauli,
    fn_args=<the four distinct Pauli labels>, fn_d=2, nmlz_func=f) with  f(n) * fn_d ** n == 1 for ALL n >= 0  (a string of
    n Paulis squares to the identity of dimension 2**n, so tr(P a) / 2**n is the coefficient of P);  bell_decomp binds the
    four Bell states, fn_d = 4 and normalisation 1 (populations)"""
    out = []
    src = open(os.path.join(P.REPO, CALC)).read()
    tree = ast.parse(src)
    binds = {}
    for st in tree.body:
        if isinstance(st, ast.Assign) and len(st.targets) == 1 and isinstance(st.targets[0], ast.Name) and \
                st.targets[0].id in ("pauli_decomp", "bell_decomp") and isinstance(st.value, ast.Call) and \
                ast.unparse(st.value.func) in ("functools.partial", "partial"):
            binds[st.targets[0].id] = st.value
    for nm, labels, fn, fd in (("pauli_decomp", list("IXYZ"), "pauli", 2), ("bell_decomp", [0, 1, 2, 3], "bell_state", 4)):
        t0 = time.time()
        call = binds.get(nm)
        if call is None:
            out.append(_ob(nm, "binding-found", False, t0, unknown=True, detail=f"no module-level `{nm} = functools.partial(...)`",
                           kind="e4", backend="ast", engine="E4"))
            continue
        kw = {k.arg: k.value for k in call.keywords}
        pos = [ast.unparse(x) for x in call.args]
        try:
            fargs = list(ast.literal_eval(kw["fn_args"]))
        except Exception:  # noqa
            fargs = None
        ok = pos == ["decomp"] and ast.unparse(kw.get("fn", ast.Constant(None))) == fn
        out.append(_ob(nm, f"binds-decomp-with-fn={fn}", ok, t0, model=dict(found=ast.unparse(call)), kind="e4", backend="ast", engine="E4"))
        ok = fargs is not None and sorted(map(str, fargs)) == sorted(map(str, labels)) and len(set(fargs)) == len(fargs)
        out.append(_ob(nm, "fn_args-are-the-four-distinct-labels", ok, t0, model=dict(fn_args=str(fargs), expected=str(labels)),
                       kind="e4", backend="ast", engine="E4"))
        try:
            fdv = ast.literal_eval(kw["fn_d"])
        except Exception:  # noqa
            fdv = None
        out.append(_ob(nm, f"fn_d-is-the-dimension-{fd}-of-one-factor", fdv == fd, t0, model=dict(fn_d=str(fdv)), kind="e4",
                       backend="ast", engine="E4"))
        lam = kw.get("nmlz_func")
        t0 = time.time()
        if not isinstance(lam, ast.Lambda) or len(lam.args.args) != 1 or fdv != fd:
            out.append(_ob(nm, "normalisation", False, t0, unknown=True, detail="nmlz_func is not a one-argument lambda", kind="e4",
                           backend="ast", engine="E4"))
            continue
        con = _LambdaEval()
        cx = P.Ctx(con, NS(name=""), (), lam, P.Collector())
        n = z3.Int("n")
        cx.ghost["n"] = n
        try:
            val = cx.apply_lambda(("lambda", lam, {}), [n])
        except Unsupported as e:
            out.append(_ob(nm, "normalisation", False, t0, unknown=True, detail=f"lambda outside the evaluator's subset: {e}", kind="e4",
                           backend="ast", engine="E4"))
            continue
        p = pow_fn(fd)
        if nm == "pauli_decomp":
            # hypothesis: pow2(n) >= 1 (lemmas pow2-positive-base / -step, induction on n)
            ob = P.Obligation(f"{CALC}::{nm}", "nmlz_func(n) * fn_d**n == 1 for all n >= 0", "e4", lam.lineno,
                              [n >= 0, p(n) >= 1], R(val) * z3.ToReal(p(n)) == 1)
        else:
            ob = P.Obligation(f"{CALC}::{nm}", "nmlz_func(n) == 1 for all n (populations are not rescaled)", "e4", lam.lineno,
                              [n >= 0], R(val) == 1)
        P.discharge(ob)
        out.append(_ob(nm, ob.label, ob.status == "discharged", t0, model=dict(lambda_=ast.unparse(lam), z3_model=ob.model),
                       unknown=ob.status == "unknown", kind="e4", backend=ob.backend, engine="E4"))
    return out


def provider_pauli_decomp(tier):
    """pauli_decomp(a, mode='c') for n = 1, 2, 3 on EVERY matrix unit |r><c| of the 2**n-dimensional space (the function
    is linear in a -- trusted: expec is linear -- so the matrix units decide every operator) and on one dense complex a:
      names: the 4**n strings over I, X, Y, Z, each exactly once (the overlap leaf is called 4**n times, once per string);
      coefficient of P: tr(P a) / 2**n (exact in floating point: entries 0, +-1, +-i scaled by a power of two);
      sum_P c_P P == a;  ordered by non-increasing magnitude"""
    import numpy as np

    calc = _load(CALC, "quimb.calc")
    out = []
    PM = {k: np.array(v, dtype=complex) for k, v in PAULI_TEXTBOOK.items()}
    real_expec = calc.expec
    for n in (1, 2, 3):
        t0 = time.time()
        D = 2 ** n
        strings = ["".join(s) for s in itertools.product("IXYZ", repeat=n)]
        mats = {}
        for s in strings:
            m = np.ones((1, 1), dtype=complex)
            for ch in s:
                m = np.kron(m, PM[ch])
            mats[s] = m
        bad_names, bad_coeff, bad_sum, bad_order = [], [], [], []
        inputs = [(f"matrix unit |{r}><{c}| of dimension {D}", r, c) for r in range(D) for c in range(D)] + [("dense complex a", None, None)]
        for desc, r, c in inputs:
            if r is None:
                a = (np.arange(D * D).reshape(D, D) % 7 - 3) + 1j * (np.arange(D * D).reshape(D, D) % 5 - 2)
                a = a.astype(complex)
            else:
                a = np.zeros((D, D), dtype=complex)
                a[r, c] = 1
            calls = []

            def counting_expec(x, y, calls=calls):
                calls.append(1)
                return real_expec(x, y)

            call = f"pauli_decomp({desc}, mode='c')"
            calc.expec = counting_expec
            try:
                import quimb as qu
                res = calc.pauli_decomp(qu.qarray(a), mode="c")
            except Exception as e:  # noqa
                bad_names.append(dict(call=call, raised=f"{type(e).__name__}: {e}"))
                continue
            finally:
                calc.expec = real_expec
            names = list(res)
            if sorted(names) != sorted(strings) or len(calls) != 4 ** n:
                bad_names.append(dict(call=call, observed=f"{len(names)} names, {len(calls)} overlaps; missing "
                                                          f"{sorted(set(strings) - set(names))[:4]}, extra {sorted(set(names) - set(strings))[:4]}",
                                      expected=f"the {4 ** n} strings over IXYZ, one overlap each"))
                continue
            for s in strings:
                want = np.trace(mats[s] @ a) / D
                if complex(res[s]) != complex(want):
                    bad_coeff.append(dict(call=call, observed=f"c[{s}] = {complex(res[s])!r}", expected=f"tr(P a)/2**{n} = {complex(want)!r}"))
                    break
            tot = sum(complex(res[s]) * mats[s] for s in strings)
            if not np.array_equal(tot, a):
                bad_sum.append(dict(call=call, observed="sum_P c_P P != a", expected="a"))
            mags = [abs(complex(res[s])) for s in names]
            if any(mags[i] < mags[i + 1] for i in range(len(mags) - 1)):
                bad_order.append(dict(call=call, observed=str([round(m, 4) for m in mags[:8]]), expected="non-increasing magnitudes"))
        dom = f"n={n}: {len(inputs)} operators x {4 ** n} strings"
        for lab, bad in (("every-Pauli-string-enumerated-exactly-once", bad_names), ("coefficient-is-tr(P a)/2**n", bad_coeff),
                         ("decomposition-sums-to-the-operator", bad_sum), ("ordered-by-non-increasing-magnitude", bad_order)):
            out.append(_ob("decomp", f"{lab}[pauli,n={n}]", not bad, t0,
                           model=dict(domain=dom, violations=len(bad), counterexample=bad[:1], more=bad[1:4])))
    return out


def provider_pauli_correlations(tier):
    """pauli_correlations with its callee `correlation` (and `pauli`) replaced by recording stubs, for EVERY tuple of one or
    two (thorough: three) operator pairs over the letters x, y, z, every ordered pair of distinct sites of 3, sum_abs and
    precomp_func both ways: entry t is correlation(p, pauli(first letter), pauli(second letter), sysa, sysb,
    precomp_func=...), in order; sum_abs adds the absolute values (of the functions' values when precomp_func)"""
    calc = _load(CALC, "quimb.calc")
    out = []
    real_corr, real_pauli = calc.correlation, calc.pauli
    pairs = ["".join(s) for s in itertools.product("xyz", repeat=2)]
    maxlen = 3 if tier == "thorough" else 2
    sss = [t for L in range(1, maxlen + 1) for t in itertools.product(pairs, repeat=L)]

    def val(A, B, sa, sb, state):
        # a deterministic value depending on everything (both signs occur)
        h = (ord(A[1]) * 7 + ord(B[1]) * 13 + sa * 3 + sb * 5 + (11 if state == "p'" else 0)) % 17
        return (h - 8) / 4.0

    def stub_corr(p, A, B, sysa, sysb, dims=None, sparse=None, precomp_func=False):
        if dims is not None or sparse is not None or not (isinstance(A, tuple) and isinstance(B, tuple)):
            raise AssertionError("unexpected arguments handed to correlation")
        if precomp_func:
            return lambda state: val(A, B, sysa, sysb, state)
        return val(A, B, sysa, sysb, p)

    calc.correlation, calc.pauli = stub_corr, (lambda s, *a, **k: ("pauli", s.lower()))
    try:
        for sum_abs in (False, True):
            for pc in (False, True):
                t0 = time.time()
                bad, ncalls = [], 0
                for ss in sss:
                    for sa, sb in itertools.permutations(range(3), 2):
                        ncalls += 1
                        call = f"pauli_correlations('p', ss={ss!r}, sysa={sa}, sysb={sb}, sum_abs={sum_abs}, precomp_func={pc})"
                        want = [val(("pauli", s[0]), ("pauli", s[1]), sa, sb, "p'" if pc else "p") for s in ss]
                        try:
                            got = calc.pauli_correlations("p", ss=ss, sysa=sa, sysb=sb, sum_abs=sum_abs, precomp_func=pc)
                            if sum_abs:
                                got = got("p'") if pc else got
                                okk = got == sum(abs(w) for w in want)
                            else:
                                got = [f("p'") for f in got] if pc else list(got)
                                okk = got == want
                        except Exception as e:  # noqa
                            bad.append(dict(call=call, raised=f"{type(e).__name__}: {e}"))
                            continue
                        if not okk:
                            bad.append(dict(call=call, observed=str(got), expected=str(sum(abs(w) for w in want) if sum_abs else want)))
                out.append(_ob("pauli_correlations", f"letters-paired-with-sites-in-order[sum_abs={sum_abs},precomp_func={pc}]", not bad, t0,
                               model=dict(domain=f"{len(sss)} operator-pair tuples x 6 site pairs = {ncalls} calls", violations=len(bad),
                                          counterexample=bad[:1], more=bad[1:4])))
    finally:
        calc.correlation, calc.pauli = real_corr, real_pauli
    return out


def _embed(op, dims, where):
    """plain numpy: operator acting on the subsystems `where` (tensor factors of op in that order) embedded into dims"""
    import numpy as np

    dims, where = list(dims), list(where)
    n = len(dims)
    rest = [q for q in range(n) if q not in where]
    dr = int(np.prod([dims[q] for q in rest])) if rest else 1
    full = np.kron(np.asarray(op, dtype=complex), np.eye(dr))
    cur = where + rest
    t = full.reshape([dims[q] for q in cur] * 2)
    perm = [cur.index(q) for q in range(n)]
    Dt = int(np.prod(dims))
    return t.transpose(perm + [n + p_ for p_ in perm]).reshape(Dt, Dt)


def provider_correlation_grid(tier):
    """correlation with the REAL ikron on a complete small grid: every dims in {1,2,3}^2 and {1,2}^3 (thorough: {1,2,3}^3)
    of total dimension > 1,
    every ordered pair of distinct sites, sparse in {None, False, True}, operators dense or csr, state ket or operator --
    integer-valued real symmetric operators and integer states, so <A_a B_b> - <A_a><B_b> is exact; reference: plain numpy
    Kronecker embedding"""
    import numpy as np
    import scipy.sparse as sp

    calc = _load(CALC, "quimb.calc")
    import quimb as qu

    def sym(d, off):
        m = np.arange(off, off + d * d).reshape(d, d) % 5 - 2
        return (m + m.T).astype(complex)

    out = []
    # (total dimension 1 is left out: a 1 x 1 array is both a ket and an operator, the value is a matter of convention)
    grids = {2: [d for d in itertools.product((1, 2, 3), repeat=2) if max(d) > 1],
             3: [d for d in itertools.product((1, 2, 3) if tier == "thorough" else (1, 2), repeat=3) if max(d) > 1]}
    for K, dimss in grids.items():
        for sparse in (None, False, True):
            for opk in ("dense", "csr"):
                t0 = time.time()
                bad, ncalls = [], 0
                for dims in dimss:
                    Dt = int(np.prod(dims))
                    psi = (np.arange(1, Dt + 1) % 4 + 1).astype(complex).reshape(-1, 1)
                    for sa, sb in itertools.permutations(range(K), 2):
                        A0, B0 = sym(dims[sa], 1), sym(dims[sb], 3)
                        EA, EB = _embed(A0, dims, [sa]), _embed(B0, dims, [sb])
                        for sk in ("ket", "op"):
                            rho = psi @ psi.conj().T
                            ex = (lambda M: complex((psi.conj().T @ M @ psi)[0, 0])) if sk == "ket" else (lambda M: complex(np.trace(M @ rho)))
                            want = (ex(EA @ EB) - ex(EA) * ex(EB)).real
                            A = qu.qarray(A0) if opk == "dense" else sp.csr_matrix(A0)
                            B = qu.qarray(B0) if opk == "dense" else sp.csr_matrix(B0)
                            state = qu.qarray(psi if sk == "ket" else rho)
                            call = (f"correlation({sk} of dims {list(dims)}, A[{dims[sa]}x{dims[sa]}] {opk}, B[{dims[sb]}x{dims[sb]}] {opk}, "
                                    f"sysa={sa}, sysb={sb}, dims={list(dims)}, sparse={sparse})")
                            ncalls += 1
                            try:
                                got = calc.correlation(state, A, B, sa, sb, dims=list(dims), sparse=sparse)
                                if abs(complex(got) - want) > 1e-9 * max(1.0, abs(want)):
                                    bad.append(dict(call=call, observed=repr(complex(got)), expected=repr(want)))
                            except Exception as e:  # noqa
                                bad.append(dict(call=call, raised=f"{type(e).__name__}: {e}", expected=repr(want)))
                out.append(_ob("correlation", f"<A_a B_b> - <A_a><B_b> on the complete grid[K={K},sparse={sparse},ops={opk}]", not bad, t0,
                               model=dict(domain=f"{len(dimss)} dimension lists x {K * (K - 1)} site pairs x ket/op = {ncalls} calls",
                                          violations=len(bad), counterexample=bad[:1], more=bad[1:4])))
    return out


def provider_fdx(tier):
    """all provider obligations of C20"""
    out = []
    for p in (provider_decomp_partials, provider_pauli_decomp, provider_pauli_correlations, provider_simulate_counts,
              provider_correlation_grid):
        out.extend(p(tier))
    return out


# =====================================================================================================================
# purify : eigenvalue i <-> eigenvector column i <-> ancilla basis state i      concurrence : the reduced pair
# (two more E1 contracts, placed after the providers)
# =====================================================================================================================


class TermAcc:
    """sum_i c_i * kron(column i of vecs, basis_vec(i, d)): coefficient per index (z3 array Int -> Real)"""

    def __init__(self, coef, rows):
        self.coef, self.rows = coef, rows


class KronTerm:
    def __init__(self, col, bas, dim, vecs):
        self.col, self.bas, self.dim, self.vecs = col, bas, dim, vecs


clip01 = z3.Function("clip_0_1", REAL, REAL)
sqrt_ = z3.Function("sqrt", REAL, REAL)
sqrtclip = lambda x: sqrt_(clip01(x))


@register
class Purify(EigBase):
    """psi = sum_i sqrt(clip(l_i, 0, 1)) * kron(v_i, |i>) over ALL d eigenpairs of rho, |i> the i-th basis state of a
    d-level ancilla: proved for an arbitrary index j (coefficient of term j is sqrt(clip(l_j)), every term pairs column i
    with basis state i of dimension d); the accumulator has d**2 rows"""

    target = f"{CALC}::purify"
    floor = 6
    bounded = ("distances",)

    def inputs(self, cx, case):
        self.eig_inputs(cx, "operator")
        cx.ghost["rho"] = cx.ghost["A"]
        return dict(rho=cx.ghost["A"])

    def requires(self, a, case):
        return {"d>=1": z3.Int("n") >= 1, "skolem-index": And(0 <= SKJ, SKJ < z3.Int("n"))}

    def attr(self, cx, base, attr, node):
        if base is cx.ghost.get("rho") and attr == "shape":
            return (cx.ghost["n"], cx.ghost["n"])
        if isinstance(base, Arr) and attr == "flat":
            return base
        if base is None and attr == "complex":
            return "complex"
        return super().attr(cx, base, attr, node)

    def call(self, cx, name, args, kwargs, node):
        g = cx.ghost
        if name == "np.clip" and len(args) == 3 and isinstance(args[0], Spec_) and args[1:] == [0, 1]:
            i = z3.Int("i!lam")
            return Arr(z3.Lambda([i], clip01(el_of(args[0].z, i))), (args[0].n,))
        if name == "np.sqrt" and len(args) == 1 and isinstance(args[0], Arr) and args[0].ndim == 1:
            i = z3.Int("i!lam2")
            return Arr(z3.Lambda([i], sqrt_(z3.Select(args[0].a, i))), args[0].shape)
        if name == "np.zeros" and set(kwargs) <= {"shape", "dtype"} and "shape" in kwargs and not args:
            sh = kwargs["shape"]
            if not (isinstance(sh, tuple) and len(sh) == 2 and sh[1] == 1):
                raise Unsupported("zeros shape")
            return TermAcc(z3.K(INT, z3.RealVal(0)), sh[0])
        if name == "__getitem__" and isinstance(args[0], Vecs) and isinstance(args[1], tuple) and len(args[1]) == 2 \
                and args[1][0] == slice(None, None, None) and isinstance(args[1][1], list) and len(args[1][1]) == 1 and not args[0].dag:
            i = args[1][1][0]
            cx.oblige(f"index@{node.lineno}:column-exists", "safety", And(0 <= i, i < args[0].n), node.lineno)
            return Col(args[0], i)
        if name == "basis_vec" and len(args) == 2 and not kwargs:
            cx.oblige(f"call-pre@{node.lineno}:basis_vec:0<=i<dim", "call-pre", And(0 <= args[0], args[0] < args[1]), node.lineno)
            return ("basis", args[0], args[1])
        if name == "kron" and len(args) == 2 and isinstance(args[0], Col) and isinstance(args[1], tuple) and args[1][0] == "basis":
            return KronTerm(args[0].i, args[1][1], args[1][2], args[0].vecs)
        if name == "__binop__" and args[0] == "Mult" and is_z3(args[1]) and isinstance(args[2], KronTerm):
            return Scaled(args[1], args[2])
        if name == "__binop__" and args[0] == "Add" and isinstance(args[1], TermAcc) and isinstance(args[2], KronTerm):
            args = [args[0], args[1], Scaled(1, args[2])]
        if name == "__binop__" and args[0] == "Add" and isinstance(args[1], TermAcc) and isinstance(args[2], Scaled) \
                and isinstance(args[2].x, KronTerm):
            acc, c, t = args[1], args[2].c, args[2].x
            cx.oblige(f"enc@{node.lineno}:eigenvector-i-paired-with-ancilla-state-i-of-dimension-d", "enc",
                      And(t.col == t.bas, t.dim == g["n"], t.vecs.z.eq(g["ev"].z)), node.lineno)
            return TermAcc(z3.Store(acc.coef, t.col, z3.Select(acc.coef, t.col) + R(c)), acc.rows)
        if name == "qu" and len(args) == 1 and isinstance(args[0], TermAcc) and not kwargs:
            return args[0]
        return super().call(cx, name, args, kwargs, node)

    def inv(self, v):
        g = v.cx.ghost
        return {"coefficient-so-far": z3.Select(v.psi.coef, SKJ) == If(SKJ < v._it0, sqrtclip(el_of(g["el"].z, SKJ)), 0),
                "rows": v.psi.rows == g["n"] * g["n"]}

    @property
    def loops(self):
        return {0: Loop("for (i, evals) in enumerate(evals.flat)", self.inv,
                        retype={"psi": lambda cx: TermAcc(cx.Array("psi_coef", INT, REAL), cx.env["psi"].rows),
                                "evals": lambda cx: cx.Real("evals_item")})}

    def ensures(self, a, r, cx, case):
        g = cx.ghost
        ok = isinstance(r, TermAcc)
        d = {"returns-the-accumulated-ket": ok}
        if not ok:
            return d
        d["coefficient-of-term-j-is-sqrt(clip(l_j))"] = z3.Select(r.coef, SKJ) == sqrtclip(el_of(g["el"].z, SKJ))
        d["d**2-rows"] = r.rows == g["n"] * g["n"]
        d["eigh-of-rho"] = g.get("eigh_kwargs") == {}
        return d


def term_mentions(t, target):
    """does the z3 term t contain the sub-term target?"""
    seen, stack = set(), [t]
    while stack:
        x = stack.pop()
        if x.get_id() in seen:
            continue
        seen.add(x.get_id())
        if x.eq(target):
            return True
        stack.extend(x.children())
    return False


@register
class Concurrence(Base):
    """the formula is evaluated on the reduced state of the pair {sysa, sysb} when there are more than two subsystems (the
    measure is symmetric under exchanging the two qubits, so their order is immaterial) and on p itself otherwise: the
    result depends on p only THROUGH that state.  The formula itself (Wootters) is numerical: bounded driver."""

    target = f"{CALC}::concurrence"
    floor = 4

    def cases(self):
        return [NS(name=f"K={k},{s}", K=k, isop=s == "op") for k in (2, 3, 4) for s in ("op", "ket")]

    def inputs(self, cx, case):
        return dict(p=St(cx.Val("p")), dims=dims_inputs(cx, case.K), sysa=cx.Int("sysa"), sysb=cx.Int("sysb"))

    def requires(self, a, case):
        K = case.K
        return {"two-distinct-subsystems": And(0 <= a.sysa, a.sysa < K, 0 <= a.sysb, a.sysb < K, a.sysa != a.sysb)}

    def attr(self, cx, base, attr, node):
        if isinstance(base, St) and attr in ("real", "imag", "H", "T"):
            return St(U("attr_" + attr, [base]))
        return NotImplemented

    def call(self, cx, name, args, kwargs, node):
        if name == "isop":
            return cx.case.isop
        if name == "pauli" and len(args) == 1 and isinstance(args[0], str):
            return St(U("pauli_" + args[0].lower(), []))
        r = super().call(cx, name, args, kwargs, node)
        if r is not NotImplemented:
            return r
        if name in ("max", "abs") and any(isinstance(x, St) for x in args) and all(isinstance(x, St) or is_num(x) for x in args):
            return St(U("fn_" + name, [x if isinstance(x, St) else R(x) for x in args]))
        if (name in ("dot", "kron", "dag", "nla.eigvals", "np.max", "np.sum", "np.real", "np.abs", "np.sqrt") or
            name in (".conj", ".item", ".conjugate")) and args and isinstance(args[0], St) and not kwargs and \
                all(isinstance(x, St) or is_num(x) for x in args):
            # numerical leaves: uninterpreted (the formula is not under contract)
            return St(U("fn_" + name.lstrip("."), [x if isinstance(x, St) else R(x) for x in args]))
        return NotImplemented

    def ensures(self, a, r, cx, case):
        ok = isinstance(r, St)
        d = {"returns-a-function-of-a-state": ok}
        if not ok:
            return d
        if case.K == 2:
            d["evaluated-on-p-itself"] = term_mentions(r.z, a.p.z)
            return d
        red = t_ptr(a.p, a.dims, mvec((a.sysa, a.sysb), case.K))
        X = z3.Const("X!reduced", V)
        d["depends-on-the-reduced-state-of-the-pair"] = term_mentions(r.z, red)
        d["depends-on-p-only-through-the-reduced-state-of-the-pair"] = not term_mentions(z3.substitute(r.z, (red, X)), a.p.z)
        return d
