"""C02 -- the map-maintenance primitives of TensorNetwork (quimb/tensor/tensor_core.py) and the ordered-set type
quimb/utils.py::oset under contract (domains `tnmaps` + `fsets` of DESIGN 1.5).

Abstract state of a network heap object (ghost fields; labels, tags and tids are Int-coded):
    tagm : Key -> (Tid -> Bool)   entries of tag_map          indm : the same for ind_map
    tagd : Key -> Bool            key present in tag_map      indd
    tagc : Key -> Int             ghost cardinality           indc
    inner, outer : Key -> Bool    _inner_inds / _outer_inds
    tdom : Tid -> Bool            keys of tensor_map
    tagsof, indsof : Tid -> Int   ghost: id of the tag / label sequence of the tensor stored under a tid
    _tid_counter : Int            (concrete)
Class invariant INV, always stated at ONE arbitrary key X (and one arbitrary tid T): the constants X, T are never
constrained, so a statement proved at X, T holds at every key / tid (skolem form; quantifier free => failed
obligations come with models).  When INV is *assumed* it is assumed at the same X, T: sound because nothing else is
known about them, and sufficient because every primitive touches one key per step (either that key is X or X's
entries do not change).
    (I1)    tagd[X] <=> tagc[X] >= 1,  not tagd[X] => tagm[X] == {}            (same for ind)
    (Icard) tagc[X] == card(tagm[X])                                           (fsets: card with ground axioms)
    (I4)    not (inner[X] and outer[X]);  inner[X] or outer[X] <=> indd[X]
    (I5)    inner[X] <=> indc[X] >= 2;  outer[X] <=> indc[X] == 1
    (I2/I3) tagm[X][T] <=> tdom[T] and X in tags(tagsof[T])   (only in add_tensor / pop_tensor / _modify_*)
DOMAIN RESTRICTION (stated in ASSUMPTIONS): (I5) counts TENSORS; the property's fresh scan counts OCCURRENCES.  The two
agree only when no tensor carries the same label twice.  The case `repeats-allowed` of _unlink_inds / _link_inds drops
that restriction and uses the multiplicity reading (ghost occ); it is EXPECTED TO FAIL for _unlink_inds on the
unchanged tree (known defect, DESIGN finding 2 / C02-a).

Sequences of symbolic length (tags, inds, xs) are KSeq values: item j of sequence s is seq_at(s, j); the spec function
seen(s, x, i) := exists j < i. seq_at(s, j) == x is given by its definitional recurrence (Loop.facts).

NOT covered: insertion ORDER of oset / dict (membership view only); owner registry (I6; Tensor.add_owner / remove_owner
are leaves without effect on the maps); non-int tid kinds of pop_tensor.
"""

import ast

import z3

from vf.pyvc import (And, Contract, If, Implies, Loop, NS, Not, Or, PyRaise, Ref, REGISTRY, SymIter, Unsupported, Z,
                     is_int, is_z3, register)

TC = "quimb/tensor/tensor_core.py"
UT = "quimb/utils.py"
TNC = f"{TC}::TensorNetwork"
PID = "C02"

INT, BOOL = z3.IntSort(), z3.BoolSort()
SET = z3.ArraySort(INT, BOOL)
MAP = z3.ArraySort(INT, SET)
EMPTY = z3.K(INT, z3.BoolVal(False))
TRUE, FALSE = z3.BoolVal(True), z3.BoolVal(False)

card = z3.Function("card", SET, INT)  # fsets: cardinality of a finite set (ground-instantiated axioms below)
seq_at = z3.Function("seq_at", INT, INT, INT)  # (sequence id, position) -> key
seen = z3.Function("seen", INT, INT, INT, BOOL)  # (sequence id, key, i): key occurs among the first i items
count = z3.Function("count", INT, INT, INT, INT)  # (sequence id, key, i): number of occurrences among the first i
NoDup = z3.Function("NoDup", INT, BOOL)  # the sequence has pairwise distinct items
slen = z3.Function("slen", INT, INT)  # length of a sequence (by id)
X = z3.Int("x!key")  # the arbitrary key (label / tag)
T = z3.Int("t!tid")  # the arbitrary tid


def sel(a, *idx):
    for i in idx:
        a = z3.Select(a, i)
    return a


def add1(S, t):
    return z3.Store(S, t, TRUE)


def del1(S, t):
    return z3.Store(S, t, FALSE)


# ---- fsets: ground instances of the finite-set axioms (trusted; sanity-checked by exhaustive evaluation, see index)
def card_axioms(S):
    return And(card(S) >= 0, (card(S) == 0) == (S == EMPTY))


def card_add(S, t):
    return And(card(add1(S, t)) == card(S) + If(sel(S, t), 0, 1), card_axioms(add1(S, t)))


def card_discard(S, t):
    return And(card(del1(S, t)) == card(S) - If(sel(S, t), 1, 0), card_axioms(del1(S, t)))


# ---- sequences
def def_seen(sid, x, i):
    """definitional recurrence of seen / count at (x, i)"""
    hit = seq_at(sid, i) == x
    return [Not(seen(sid, x, 0)), seen(sid, x, i + 1) == Or(seen(sid, x, i), hit),
            count(sid, x, 0) == 0, count(sid, x, i + 1) == count(sid, x, i) + If(hit, 1, 0)]


def def_nodup(sid, i, n):
    """instance of  NoDup(s) := forall i < len. not seen(s, seq_at(s, i), i)"""
    return Implies(And(NoDup(sid), 0 <= i, i < n), Not(seen(sid, seq_at(sid, i), i)))


class KSeq(SymIter):
    """a sequence of keys of symbolic length (tuple of labels, oset of tags, ...)"""

    def __init__(self, sid, length):
        self.sid = sid
        super().__init__(length, lambda t: seq_at(sid, t))


class MapH:
    """self.tag_map / self.ind_map / self.tensor_map of a network object"""

    def __init__(self, ref, w):
        self.ref, self.w = ref, w


class SetH:
    """alias of the oset stored under ``key`` in a map of a network (reads / writes go to the heap fields)"""

    def __init__(self, cx, ref, w, key):
        self.cx, self.ref, self.w, self.key = cx, ref, w, key
        self.stamp = cx.ghost.get(("gen", ref.oid, w), 0)

    def live(self):
        if self.stamp != self.cx.ghost.get(("gen", self.ref.oid, self.w), 0):
            raise Unsupported("use of an oset alias after its map entry was deleted / replaced")
        return self.cx.fields(self.ref)

    @property
    def truth(self):
        return sel(self.live()[self.w + "c"], self.key) != 0


class FSet:
    """self._inner_inds / self._outer_inds"""

    def __init__(self, ref, field):
        self.ref, self.field = ref, field


class ConcatV:
    """toolz.concat(xs) of a tuple of osets"""

    def __init__(self, parts):
        self.parts = tuple(parts)


class TensorV:
    """a Tensor: only its tag sequence and label sequence matter here"""

    def __init__(self, tags, inds, name="t"):
        self.tags, self.inds, self.name = tags, inds, name


MAPF = ("tagm", "tagd", "tagc", "indm", "indd", "indc", "inner", "outer", "tdom", "tagsof", "indsof", "_tid_counter")
TAGF = ("tagm", "tagd", "tagc")
INDF = ("indm", "indd", "indc", "inner", "outer")


def new_tn(cx, name="tn"):
    return cx.new_obj("TN",
                      tagm=cx.Array(f"tagm_{name}", INT, INT, BOOL), tagd=cx.Array(f"tagd_{name}", INT, BOOL),
                      tagc=cx.Array(f"tagc_{name}", INT, INT),
                      indm=cx.Array(f"indm_{name}", INT, INT, BOOL), indd=cx.Array(f"indd_{name}", INT, BOOL),
                      indc=cx.Array(f"indc_{name}", INT, INT),
                      inner=cx.Array(f"inner_{name}", INT, BOOL), outer=cx.Array(f"outer_{name}", INT, BOOL),
                      tdom=cx.Array(f"tdom_{name}", INT, BOOL),
                      tagsof=cx.Array(f"tagsof_{name}", INT, INT), indsof=cx.Array(f"indsof_{name}", INT, INT),
                      _tid_counter=cx.Int(f"tidctr_{name}"))


def frame(f, p, fields):
    return And(*[f[k] == p[k] for k in fields])


def inv_map(f, w, x):
    """(I1) + (Icard) of one map at key x"""
    m, d, c = f[w + "m"], f[w + "d"], f[w + "c"]
    return {f"INV-I1-{w}-present-iff-nonempty": sel(d, x) == (sel(c, x) >= 1),
            f"INV-I1-{w}-absent-is-empty": Implies(Not(sel(d, x)), sel(m, x) == EMPTY),
            f"INV-Icard-{w}": sel(c, x) == card(sel(m, x))}


def inv_io(f, x, cnt=None):
    """(I4) + (I5) at label x; ``cnt``: the number the classification is judged by (default: ghost cardinality)"""
    c = sel(f["indc"], x) if cnt is None else cnt
    i, o = sel(f["inner"], x), sel(f["outer"], x)
    return {"INV-I4-inner-outer-disjoint": Not(And(i, o)), "INV-I4-inner-outer-cover-dom": Or(i, o) == sel(f["indd"], x),
            "INV-I5-inner-iff-count>=2": i == (c >= 2), "INV-I5-outer-iff-count==1": o == (c == 1)}


def inv_facts(f, x):
    """trusted fsets instances at the entries of key x (used wherever INV is assumed or proved)"""
    return [card_axioms(sel(f["tagm"], x)), card_axioms(sel(f["indm"], x)), card_axioms(EMPTY)]


# ---- oset / dict objects ------------------------------------------------------------------------
# an oset is a heap object Ref("oset") with field d -> Ref("dict") with field keys : SET (membership view of the dict
# whose values are all None).  ``self._d`` evaluates to DH(dict ref); python ``set`` values are immutable PySetV.

E = z3.Int("e!elem")  # the arbitrary element
OSET_CLASS = "<class oset>"
OSET_METHODS = {}  # method name -> contract target (filled below)


class DH:
    """the value of ``o._d``: a reference to a dict heap object"""

    def __init__(self, ref):
        self.ref = ref


class PySetV:
    """an (immutable use of a) python set value"""

    def __init__(self, arr):
        self.arr = arr


def new_dict(cx, keys):
    return cx.new_obj("dict", keys=keys)


def new_oset(cx, name=None, keys=None):
    keys = keys if keys is not None else cx.Array(f"S_{name}", INT, BOOL)
    return cx.new_obj("oset", d=new_dict(cx, keys))


def okeys(cx, o, pre=False):
    h = cx.pre_heap if pre else cx.heap
    return h[h[o.oid]["d"].oid]["keys"]


def is_oset(v):
    return isinstance(v, Ref) and v.kind == "oset"


def content(cx, o, pre=False):
    """membership array of an oset object or of an iterable of keys"""
    if is_oset(o):
        return okeys(cx, o, pre)
    if isinstance(o, KSeq):
        e = z3.Int("e!bound")
        return z3.Lambda([e], seen(o.sid, e, o.length))
    raise Unsupported(f"content of {o!r}")


iter_of = z3.Function("iter_of", SET, INT)  # id of the sequence in which a set's members are enumerated


def oset_iter(cx, o, keys_at=()):
    """LEAF (trusted): iterating an oset enumerates exactly its members, each once.  Instances at the given keys."""
    S = okeys(cx, o)
    sid = iter_of(S)
    n = card(S)
    s = KSeq(sid, n)
    cx.assume(And(card_axioms(S), slen(sid) == n, NoDup(sid), Implies(And(0 <= J, J < n), sel(S, seq_at(sid, J)))))
    for k in keys_at:
        cx.assume(And(seen(sid, k, n) == sel(S, k), count(sid, k, n) == If(sel(S, k), 1, 0), Not(seen(sid, k, 0)),
                      count(sid, k, 0) == 0))
    return s


def oset_attr(con, cx, base, attr, node):
    if is_oset(base) and attr == "_d":
        d = cx.fields(base)["d"]
        if d is None:
            raise PyRaise("AttributeError", getattr(node, "lineno", 0))
        return DH(d)
    if isinstance(base, KSeq) and attr == "_d":
        raise PyRaise("AttributeError", getattr(node, "lineno", 0))  # a plain iterable has no _d
    if base is None and attr == "oset":
        return OSET_CLASS
    return NotImplemented


def oset_dictcomp(con, cx, n):
    """{k: None for k in <dict> if <filter(k)>}: set-builder model -- the filter is evaluated once at a fresh symbolic
    element e and the result is the dict with keys  { e | e in <dict> and filter(e) }  (z3 lambda)"""
    if len(n.generators) != 1:
        return NotImplemented
    g = n.generators[0]
    src = cx.ev(g.iter)
    if not isinstance(src, (DH, PySetV)):
        return NotImplemented
    src_keys = src.arr if isinstance(src, PySetV) else cx.fields(src.ref)["keys"]
    e = z3.Int(cx._name("k!elem"))
    saved = dict(cx.env)
    cx.assign(g.target, e)
    conds = []
    for c in g.ifs:
        t = cx.truth(cx.ev(c))
        conds.append(t)
    key, val = cx.ev(n.key), cx.ev(n.value)
    cx.env = saved
    if key is not e or val is not None:
        raise Unsupported("dict comprehension that is not a key filter")
    body = And(sel(src_keys, e), *conds)
    return DH(new_dict(cx, z3.Lambda([e], Z(body))))


def oset_call(con, cx, name, args, kwargs, node):
    line = getattr(node, "lineno", 0)
    a0 = args[0] if args else None
    if name == "__setattr__" and is_oset(a0) and args[1] == "_d":
        if not isinstance(args[2], DH):
            raise Unsupported("_d set to a non-dict")
        cx.fields(a0)["d"] = args[2].ref
        return True
    if isinstance(a0, DH):
        f = cx.fields(a0.ref)
        if name == "__setitem__" and args[2] is None:
            f["keys"] = add1(f["keys"], args[1])
            return True
        if name == ".pop" and len(args) == 3:
            f["keys"] = del1(f["keys"], args[1])
            return None  # every value of the dict is None, and so is the default the code passes
        if name == "__delitem__":
            if not cx.decide(sel(f["keys"], args[1]), line):
                raise PyRaise("KeyError", line)
            f["keys"] = del1(f["keys"], args[1])
            return True
        if name == ".clear":
            f["keys"] = EMPTY
            return None
        if name == ".update" and len(args) == 2 and isinstance(args[1], DH):
            f["keys"] = z3.SetUnion(f["keys"], cx.fields(args[1].ref)["keys"])
            return None
        if name == ".copy":
            return DH(new_dict(cx, f["keys"]))
        if name == ".__len__":
            cx.assume(card_axioms(f["keys"]))
            return card(f["keys"])
        if name in (".__contains__", "__contains__"):
            return sel(f["keys"], args[1])
        if name == "__eq__" and isinstance(args[1], DH):
            return f["keys"] == cx.fields(args[1].ref)["keys"]  # all values None: dict equality = key-set equality
        if name == "set":
            return PySetV(f["keys"])
    if name == "__contains__" and isinstance(a0, PySetV):
        return sel(a0.arr, args[1])
    if name in ("set.intersection", "set.union") and args and all(isinstance(x, PySetV) for x in args):
        r = args[0].arr
        for x in args[1:]:
            r = (z3.SetIntersect if name == "set.intersection" else z3.SetUnion)(r, x.arr)
        return PySetV(r)
    if name == "__isinstance__" and args[1] == "oset":
        return is_oset(a0)
    if name == "object.__new__" and a0 == OSET_CLASS:
        return cx.new_obj("oset", d=None)
    if name in ("oset._from_dict", "oset.from_dict"):
        return cx.call_contract(REGISTRY[f"{UT}::{name}"], args, kwargs, node, recv=OSET_CLASS)
    if name.startswith(".") and is_oset(a0) and name[1:] in OSET_METHODS:
        return cx.call_contract(REGISTRY[OSET_METHODS[name[1:]]], args[1:], kwargs, node, recv=a0)
    if name == "__binop__" and is_oset(args[1]) and args[0] in ("Sub", "BitOr", "BitAnd"):
        m = {"Sub": "__sub__", "BitOr": "__or__", "BitAnd": "__and__"}[args[0]]
        return cx.call_contract(REGISTRY[OSET_METHODS[m]], [args[2]], {}, node, recv=args[1])
    return NotImplemented


class Base(Contract):
    """shared modelling of network objects, tensors, key sequences and oset values"""

    property_ids = (PID,)
    ghost_fields = MAPF + ("keys",)
    safety = False
    drops = "decorators, docstring, annotations"
    methods = {}  # TensorNetwork method name -> contract target (filled at the end of the module)

    # -- contract interface: pre (obliged at call sites, assumed for the body), facts (definitional / trusted instances)
    def pre(self, cx, a, case):
        return {}

    def facts(self, cx, a, case):
        return []

    def requires(self, a, case):
        cx = a["_cx"]
        d = dict(self.pre(cx, a, case))
        for k, c in enumerate(self.facts(cx, a, case)):
            d[f"fact{k}"] = c
        return d

    def apply(self, cx, a, node, case=None):
        case = case or self.case_of_call(cx, a)
        a.__dict__["_cx"] = cx
        name = self.target.split("::")[-1]
        # the callee's contract is a statement for EVERY key: it is used (pre obliged, post assumed) at each key the
        # calling contract reasons about (default: the arbitrary key X only)
        keys = getattr(cx.contract, "inst_keys", lambda cx: [X])(cx)

        def at(c, k):
            return c if k is X else z3.substitute(Z(c), (X, k))
        self.prepare_call(cx, a, keys)
        for k in keys:
            for c in self.facts(cx, a, case):
                cx.assume(at(c, k))
        for ki, k in enumerate(keys):
            for lab, c in self.pre(cx, a, case).items():
                cx.oblige(f"call-pre@{node.lineno}:{name}:{lab}" + ("" if ki == 0 else f":at-key{ki}"), "call-pre",
                          at(c, k), node.lineno)
        pre = {k: dict(v) for k, v in cx.heap.items()}
        for ref, fields in self.modifies(a, case):
            for fl in fields:
                cx.heap[ref.oid][fl] = cx.havoc_value(cx.heap[ref.oid][fl], f"{fl}#{ref.oid}")
        res = self.fresh_result(cx, a, case)
        saved = cx.pre_heap
        cx.pre_heap = pre
        try:
            for k in keys:
                for lab, c in self.ensures(a, res, cx, case).items():
                    cx.assume(at(c, k))
                if any(isinstance(o, Ref) and o.kind == "TN" for o in a.__dict__.values()):
                    for c in inv_facts(cx.fields(a.self), k):
                        cx.assume(c)
        finally:
            cx.pre_heap = saved
        return res

    def prepare_call(self, cx, a, keys):
        pass

    def fresh_result(self, cx, a, case):
        raise Unsupported(f"{self.target}: not usable as a callee")

    # -- attribute reads
    def attr(self, cx, base, attr, node):
        if isinstance(base, Ref) and base.kind == "TN":
            if attr in ("tag_map", "ind_map", "tensor_map"):
                return MapH(base, attr[:-4])
            if attr in ("_inner_inds", "_outer_inds"):
                return FSet(base, attr[1:6])
        if isinstance(base, TensorV) and attr in ("tags", "inds"):
            return getattr(base, attr)
        return oset_attr(self, cx, base, attr, node)

    def on_dictcomp(self, cx, n):
        return oset_dictcomp(self, cx, n)

    # -- calls
    def call(self, cx, name, args, kwargs, node):
        line = getattr(node, "lineno", 0)
        r = oset_call(self, cx, name, args, kwargs, node)
        if r is not NotImplemented:
            return r
        if name == "__contains__" and isinstance(args[0], MapH):
            h, x = args
            return sel(cx.fields(h.ref)["tdom" if h.w == "tensor" else h.w + "d"], x)
        if name == "__contains__" and isinstance(args[0], FSet):
            return sel(cx.fields(args[0].ref)[args[0].field], args[1])
        if name == "__getitem__" and isinstance(args[0], MapH) and args[0].w in ("tag", "ind"):
            h, x = args
            if not cx.decide(sel(cx.fields(h.ref)[h.w + "d"], x), line):
                raise PyRaise("KeyError", line)
            return SetH(cx, h.ref, h.w, x)
        if name == "__getitem__" and isinstance(args[0], str) and isinstance(args[1], int):
            return args[0][args[1]]
        if name == "__setitem__" and isinstance(args[0], MapH) and args[0].w in ("tag", "ind"):
            h, x, v = args
            if not is_oset(v):
                raise Unsupported("map entry set to a non-oset")
            f = cx.fields(h.ref)
            w = h.w
            arr = okeys(cx, v)
            cx.assume(card_axioms(arr))
            f[w + "m"] = z3.Store(f[w + "m"], x, arr)
            f[w + "d"] = z3.Store(f[w + "d"], x, TRUE)
            f[w + "c"] = z3.Store(f[w + "c"], x, card(arr))  # ghost cardinality of the stored oset
            cx.ghost[("gen", h.ref.oid, w)] = cx.ghost.get(("gen", h.ref.oid, w), 0) + 1
            return None
        if name == "__setitem__" and isinstance(args[0], MapH) and args[0].w == "tensor":
            h, t, v = args
            if not isinstance(v, TensorV):
                raise Unsupported("tensor_map entry set to a non-tensor")
            f = cx.fields(h.ref)
            f["tdom"] = z3.Store(f["tdom"], t, TRUE)
            f["tagsof"] = z3.Store(f["tagsof"], t, v.tags.sid)  # ghost: the sequences of the tensor now stored under t
            f["indsof"] = z3.Store(f["indsof"], t, v.inds.sid)
            cx.ghost["stored_tid"] = t
            return None
        if name == ".pop" and isinstance(args[0], MapH) and args[0].w == "tensor" and len(args) == 2:
            h, t = args
            f = cx.fields(h.ref)
            if not cx.decide(sel(f["tdom"], t), line):
                raise PyRaise("KeyError", line)
            st, si = sel(f["tagsof"], t), sel(f["indsof"], t)
            f["tdom"] = z3.Store(f["tdom"], t, FALSE)
            return TensorV(KSeq(st, slen(st)), KSeq(si, slen(si)), "popped")
        if name == "__delitem__" and isinstance(args[0], MapH) and args[0].w in ("tag", "ind"):
            h, x = args
            f = cx.fields(h.ref)
            w = h.w
            if not cx.decide(sel(f[w + "d"], x), line):
                raise PyRaise("KeyError", line)
            # the key and its whole entry are gone: the abstract entry of an absent key is the empty set
            f[w + "m"] = z3.Store(f[w + "m"], x, EMPTY)
            f[w + "d"] = z3.Store(f[w + "d"], x, FALSE)
            f[w + "c"] = z3.Store(f[w + "c"], x, z3.IntVal(0))
            cx.ghost[("gen", h.ref.oid, w)] = cx.ghost.get(("gen", h.ref.oid, w), 0) + 1
            return None
        if name == "__len__" and isinstance(args[0], SetH):
            h = args[0]
            return sel(h.live()[h.w + "c"], h.key)
        if name in (".add", ".discard") and isinstance(args[0], SetH):
            h, t = args
            f = h.live()
            w = h.w
            m, c = f[w + "m"], f[w + "c"]
            S = sel(m, h.key)
            if name == ".add":
                cx.assume(card_add(S, t))  # fsets axiom instance at the add site
                f[w + "m"] = z3.Store(m, h.key, add1(S, t))
                f[w + "c"] = z3.Store(c, h.key, sel(c, h.key) + If(sel(S, t), 0, 1))
            else:
                cx.assume(card_discard(S, t))  # fsets axiom instance at the discard site
                f[w + "m"] = z3.Store(m, h.key, del1(S, t))
                f[w + "c"] = z3.Store(c, h.key, sel(c, h.key) - If(sel(S, t), 1, 0))
            return None
        if name in (".add", ".discard") and isinstance(args[0], FSet):
            h, x = args
            f = cx.fields(h.ref)
            f[h.field] = z3.Store(f[h.field], x, TRUE if name == ".add" else FALSE)
            return None
        if name == "oset":
            return self.mk_oset(cx, args, node)
        if name == "__isinstance__":
            v, cname = args
            if cname == "int":
                return is_int(v)
            raise Unsupported(f"isinstance(..., {cname})")
        if name in (".copy",) and isinstance(args[0], TensorV):
            t = args[0]
            return TensorV(t.tags, t.inds, t.name + "_copy")  # leaf: Tensor.copy() keeps tags and labels
        if name in (".add_owner", ".remove_owner") and isinstance(args[0], TensorV):
            return None  # leaf: owner registry (I6) is not part of these contracts; no effect on the maps
        if name.startswith(".") and isinstance(args[0], Ref) and args[0].kind == "TN" and name[1:] in self.methods:
            callee = REGISTRY[self.methods[name[1:]]]
            return cx.call_contract(callee, args[1:], kwargs, node, recv=args[0])
        return NotImplemented

    def mk_oset(self, cx, args, node):
        """oset(it) for the literal forms the carriers use.  LEAF (oset.__init__ = dict.fromkeys): holds exactly the items"""
        if not args or (isinstance(args[0], tuple) and len(args[0]) == 0):
            arr = EMPTY
        elif isinstance(args[0], tuple) and len(args[0]) == 1:
            arr = add1(EMPTY, args[0][0])
            cx.assume(card_add(EMPTY, args[0][0]))
        elif isinstance(args[0], MapH) and args[0].w == "tensor":
            arr = cx.fields(args[0].ref)["tdom"]  # iterating a dict yields its keys
        elif isinstance(args[0], ConcatV):
            arr = U(*[okeys(cx, o) for o in args[0].parts]) if args[0].parts else EMPTY
        else:
            raise Unsupported(f"oset({args[0]!r})")
        cx.assume(card_axioms(arr))
        cx.assume(card_axioms(EMPTY))
        return new_oset(cx, keys=arr)


# ================================================================================================
# _link_tags / _unlink_tags
# ================================================================================================


class TagPrim(Base):
    floor = 10
    W = "tag"
    PARAM = "tags"

    def inputs(self, cx, case):
        n = cx.Int("n")
        cx.assume(n >= 0)
        return {"self": new_tn(cx), self.PARAM: KSeq(z3.Int("s!" + self.PARAM), n), "tid": cx.Int("tid"), "_cx": cx}

    def fresh_result(self, cx, a, case):
        return None

    def seq(self, a):
        return a[self.PARAM]

    def prepare_call(self, cx, a, keys):
        s = a[self.PARAM]
        if is_oset(s):  # the sequence is an oset: LEAF oset iteration (exactly the members, each once)
            a.__dict__[self.PARAM] = oset_iter(cx, s, keys_at=keys)
        elif not isinstance(s, KSeq):
            raise Unsupported(f"{self.PARAM} = {s!r}")

    def pre(self, cx, a, case):
        return inv_map(cx.fields(a.self), self.W, X)

    def facts(self, cx, a, case):
        s = self.seq(a)
        return inv_facts(cx.fields(a.self), X) + [Not(seen(s.sid, X, 0)), count(s.sid, X, 0) == 0, s.length >= 0]

    def modifies(self, a, case):
        return [(a.self, list(TAGF if self.W == "tag" else INDF))]

    # effect after the first i items of the sequence (i = len: the post-condition)
    def effect(self, f, p, a, i):
        raise NotImplementedError

    def ensures(self, a, r, cx, case):
        f, p = cx.fields(a.self), cx.pre(a.self)
        for c in inv_facts(f, X):
            cx.assume(c)
        d = {"returns-None": r is None}
        d.update(self.effect(f, p, a, self.seq(a).length, case))
        return d

    def inv(self, v):
        cx = v.cx
        f, p = cx.fields(v.self), cx.old_heap[v.self.oid]
        return self.effect(f, p, v.old, v._it0, v.case)

    def loop_facts(self, v):
        cx = v.cx
        s = self.seq(v.old)
        return def_seen(s.sid, X, v._it0) + inv_facts(cx.fields(v.self), X) + [def_nodup(s.sid, v._it0, s.length)]

    @property
    def loops(self):
        return {0: Loop(f"for {self.PARAM[:-1]} in {self.PARAM}", self.inv, facts=self.loop_facts)}


@register
class LinkTags(TagPrim):
    """_link_tags(tags, tid): tid joins the entry of every tag of the sequence; nothing else changes"""

    target = f"{TNC}._link_tags"

    def effect(self, f, p, a, i, case):
        s = seen(self.seq(a).sid, X, i)
        pm = sel(p["tagm"], X)
        d = {"effect-entry": sel(f["tagm"], X) == If(s, add1(pm, a.tid), pm),
             "effect-present": sel(f["tagd"], X) == Or(sel(p["tagd"], X), s),
             "effect-card": sel(f["tagc"], X) == sel(p["tagc"], X) + If(And(s, Not(sel(pm, a.tid))), 1, 0),
             "frame-other-fields": frame(f, p, [k for k in MAPF if k not in TAGF])}
        d.update(inv_map(f, "tag", X))
        return d


@register
class UnlinkTags(TagPrim):
    """_unlink_tags(tags, tid): tid leaves the entry of every tag of the sequence, emptied entries disappear"""

    target = f"{TNC}._unlink_tags"

    def effect(self, f, p, a, i, case):
        s = seen(self.seq(a).sid, X, i)
        pm = sel(p["tagm"], X)
        d = {"effect-entry": sel(f["tagm"], X) == If(s, del1(pm, a.tid), pm),
             "effect-present": sel(f["tagd"], X) == And(sel(p["tagd"], X),
                                                       Not(And(s, sel(pm, a.tid), sel(p["tagc"], X) == 1))),
             "effect-card": sel(f["tagc"], X) == sel(p["tagc"], X) - If(And(s, sel(pm, a.tid)), 1, 0),
             "frame-other-fields": frame(f, p, [k for k in MAPF if k not in TAGF])}
        d.update(inv_map(f, "tag", X))
        return d


# ================================================================================================
# _link_inds / _unlink_inds   (cases: `norepeat` = the stated domain; `repeats-allowed` = multiplicity reading)
# ================================================================================================

J = z3.Int("j!pos")  # the arbitrary position used to state  forall j < len(seq). ...  at call sites
NOREPEAT = NS(name="norepeat", rep=False)
REPEATS = NS(name="repeats-allowed", rep=True)


def not_linked(m, s, tid, j):
    """instance at position j of:  tid is in no entry of the labels of the sequence"""
    return Implies(And(0 <= j, j < s.length), Not(sel(m, seq_at(s.sid, j), tid)))


class IndPrim(TagPrim):
    W = "ind"
    PARAM = "inds"
    floor = 20

    def cases(self):
        return [NOREPEAT, REPEATS]

    def case_of_call(self, cx, a):
        return NOREPEAT

    def inputs(self, cx, case):
        d = super().inputs(cx, case)
        if case.rep:
            cx.ghost["occ"] = cx.Array("occ", INT, INT)  # occurrences of a label in the network, WITH multiplicity
            cx.ghost["mult"] = cx.Array("mult", INT, INT)  # occurrences of a label on the tensor `tid`
        return d

    def occ_inv0(self, cx, a):
        """(I1), (I4), (I5) of the entry state in the multiplicity reading, at X"""
        p = cx.old_heap[a.self.oid] if getattr(cx, "old_heap", None) else cx.fields(a.self)
        occ = sel(cx.ghost["occ"], X)
        return {"occ-present-iff-occ>=1": sel(p["indd"], X) == (occ >= 1), "occ-inner-iff-occ>=2": sel(p["inner"], X) == (occ >= 2),
                "occ-outer-iff-occ==1": sel(p["outer"], X) == (occ == 1), "occ>=tensors": occ >= sel(p["indc"], X)}


@register
class LinkInds(IndPrim):
    """_link_inds(inds, tid): as _link_tags on ind_map, plus the inner/outer classification of every linked label"""

    target = f"{TNC}._link_inds"

    def pre(self, cx, a, case):
        f = cx.fields(a.self)
        s = self.seq(a)
        d = dict(inv_map(f, "ind", X))
        d["tid-not-yet-linked-under-these-labels"] = not_linked(f["indm"], s, a.tid, J)
        if case.rep:
            d.update(self.occ_inv0(cx, a))
        else:
            d.update(inv_io(f, X))
            d["labels-pairwise-distinct"] = NoDup(s.sid)
        return d

    def loop_facts(self, v):
        # + the instance at the current position of the (universally quantified) precondition `tid not yet linked`
        p = v.cx.old_heap[v.self.oid]
        return super().loop_facts(v) + [not_linked(p["indm"], self.seq(v.old), v.old.tid, v._it0)]

    def effect(self, f, p, a, i, case):
        sid = self.seq(a).sid
        s = seen(sid, X, i)
        pm = sel(p["indm"], X)
        d = {"effect-entry": sel(f["indm"], X) == If(s, add1(pm, a.tid), pm),
             "effect-present": sel(f["indd"], X) == Or(sel(p["indd"], X), s),
             "effect-card": sel(f["indc"], X) == sel(p["indc"], X) + If(And(s, Not(sel(pm, a.tid))), 1, 0),
             "frame-other-fields": frame(f, p, [k for k in MAPF if k not in INDF])}
        d.update(inv_map(f, "ind", X))
        if not case.rep:
            d["effect-inner"] = sel(f["inner"], X) == If(s, sel(p["indd"], X), sel(p["inner"], X))
            d["effect-outer"] = sel(f["outer"], X) == If(s, Not(sel(p["indd"], X)), sel(p["outer"], X))
            d.update(inv_io(f, X))
        else:
            cnt = count(sid, X, i)
            occ = sel(a["_cx"].ghost["occ"], X) + cnt  # occ' = occ + number of occurrences in the linked prefix
            d["spec-seen-iff-count>=1"] = And(cnt >= 0, s == (cnt >= 1))
            d.update(inv_io(f, X, cnt=occ))
        return d


@register
class UnlinkInds(IndPrim):
    """_unlink_inds(inds, tid): as _unlink_tags on ind_map, plus re-classification of every unlinked label.
    Case `repeats-allowed`: inds is the complete label tuple of tensor tid (count(x) = mult(x)), occ' = occ - mult;
    occ is the sum over the carrying tensors of their multiplicities (ghost decomposition facts below)."""

    target = f"{TNC}._unlink_inds"

    def others(self, cx):
        return sel(cx.ghost["occ"], X) - sel(cx.ghost["mult"], X)

    def pre(self, cx, a, case):
        f = cx.fields(a.self)
        d = dict(inv_map(f, "ind", X))
        if case.rep:
            d.update(self.occ_inv0(cx, a))
            mult = sel(cx.ghost["mult"], X)
            rest = sel(f["indc"], X) - If(sel(f["indm"], X, a.tid), 1, 0)  # number of OTHER tensors carrying X
            s = self.seq(a)
            d["I2-tid-carries-X-iff-linked"] = And(mult >= 0, sel(f["indm"], X, a.tid) == (mult >= 1))
            d["occ-is-sum-of-multiplicities"] = And(self.others(cx) >= rest, (self.others(cx) == 0) == (rest == 0))
            d["inds-is-the-label-tuple-of-tid"] = count(s.sid, X, s.length) == mult
        else:
            d.update(inv_io(f, X))
        return d

    def effect(self, f, p, a, i, case):
        sid = self.seq(a).sid
        s = seen(sid, X, i)
        pm = sel(p["indm"], X)
        d = {"effect-entry": sel(f["indm"], X) == If(s, del1(pm, a.tid), pm),
             "effect-card": sel(f["indc"], X) == sel(p["indc"], X) - If(And(s, sel(pm, a.tid)), 1, 0),
             "frame-other-fields": frame(f, p, [k for k in MAPF if k not in INDF])}
        d.update(inv_map(f, "ind", X))
        if not case.rep:
            d["effect-present"] = sel(f["indd"], X) == And(sel(p["indd"], X),
                                                         Not(And(s, sel(pm, a.tid), sel(p["indc"], X) == 1)))
            d.update(inv_io(f, X))
        else:
            cx = a["_cx"]
            cnt = count(sid, X, i)
            d["spec-seen-iff-count>=1"] = And(cnt >= 0, s == (cnt >= 1))
            oth = self.others(cx)
            new = {k: v for k, v in inv_io(f, X, cnt=oth).items()}
            new["occ-present-iff-occ>=1"] = sel(f["indd"], X) == (oth >= 1)
            same = And(sel(f["inner"], X) == sel(p["inner"], X), sel(f["outer"], X) == sel(p["outer"], X),
                       sel(f["indd"], X) == sel(p["indd"], X))
            for k, v in new.items():
                d[k] = If(s, v, same)
        return d

    def replay(self, model):
        """native replay of the `repeats-allowed` failures (the solver's models all have this shape: after the unlink
        some OTHER tensor still carries the label twice, or the unlinked tensor itself carried it twice): the real
        primitive is run on the smallest such networks and the cached classification compared with a fresh scan"""
        import numpy as np
        import quimb.tensor as qtn

        out = []
        for name, shapes, victim in (("other tensor carries 'a' twice: [T(a,a), T(a)], unlink the second", (2, 1), 1),
                                     ("the unlinked tensor carries 'a' twice: [T(a,a)], unlink it", (2,), 0)):
            ts = [qtn.Tensor(np.ones((2,) * k), inds=("a",) * k, tags=f"T{j}") for j, k in enumerate(shapes)]
            tn = qtn.TensorNetwork(ts)
            tid = next(iter(tn.tag_map[f"T{victim}"]))
            t = tn.tensor_map.pop(tid)
            tn._unlink_tags(t.tags, tid)
            tn._unlink_inds(t.inds, tid)  # the primitive under contract, called as pop_tensor calls it
            fresh = qtn.TensorNetwork(tn.tensors)
            got = dict(inner=sorted(tn._inner_inds), outer=sorted(tn._outer_inds), ind_map=sorted(tn.ind_map))
            exp = dict(inner=sorted(fresh._inner_inds), outer=sorted(fresh._outer_inds), ind_map=sorted(fresh.ind_map))
            out.append(dict(scenario=name, observed=got, fresh_scan=exp, differs=got != exp))
        return dict(call="TensorNetwork._unlink_inds(t.inds, tid) on networks with a label repeated on one tensor",
                    scenarios=out, reproduced=any(o["differs"] for o in out))


# ================================================================================================
# _reset_inner_outer / _next_tid
# ================================================================================================


@register
class ResetInnerOuter(IndPrim):
    """_reset_inner_outer(inds): every label of the sequence is re-classified from the size of its entry (the entry
    state need NOT satisfy I4/I5 -- that is what the function is for); ind_map itself is only read"""

    target = f"{TNC}._reset_inner_outer"
    floor = 8
    raises = {}

    def cases(self):
        return [NOREPEAT]

    def pre(self, cx, a, case):
        f = cx.fields(a.self)
        s = self.seq(a)
        d = dict(inv_map(f, "ind", X))
        d["labels-present"] = Implies(And(0 <= J, J < s.length), sel(f["indd"], seq_at(s.sid, J)))
        return d

    def modifies(self, a, case):
        return [(a.self, ["inner", "outer"])]

    def loop_facts(self, v):
        # + the instance at the current position of the (universally quantified) precondition `labels present`
        s = self.seq(v.old)
        p = v.cx.old_heap[v.self.oid]
        return super().loop_facts(v) + [Implies(And(0 <= v._it0, v._it0 < s.length), sel(p["indd"], seq_at(s.sid, v._it0)))]

    def effect(self, f, p, a, i, case):
        s = seen(self.seq(a).sid, X, i)
        c = sel(p["indc"], X)
        return {"effect-inner": sel(f["inner"], X) == If(s, c >= 2, sel(p["inner"], X)),
                "effect-outer": sel(f["outer"], X) == If(s, c == 1, sel(p["outer"], X)),
                "reset-labels-satisfy-I4": Implies(s, And(Not(And(sel(f["inner"], X), sel(f["outer"], X))),
                                                          Or(sel(f["inner"], X), sel(f["outer"], X)) == sel(f["indd"], X))),
                "frame-other-fields": frame(f, p, [k for k in MAPF if k not in ("inner", "outer")])}


BOUND = z3.Function("tid_bound", z3.ArraySort(INT, BOOL), INT)  # some strict upper bound of a finite set of ints


@register
class NextTid(Base):
    """_next_tid(): returns a tid that is not a key of tensor_map, >= the old counter; only the counter changes.
    Termination: tensor_map is finite, so its int keys have a strict upper bound B (ghost); B - counter decreases."""

    target = f"{TNC}._next_tid"
    floor = 6

    def inputs(self, cx, case):
        return {"self": new_tn(cx), "_cx": cx}

    def modifies(self, a, case):
        return [(a.self, ["_tid_counter"])]

    def fresh_result(self, cx, a, case):
        return cx.Int("next_tid")

    def ensures(self, a, r, cx, case):
        f, p = cx.fields(a.self), cx.pre(a.self)
        if not is_int(r):
            return {"returns-int": False}
        return {"fresh": Not(sel(p["tdom"], r)), "counter-is-result": f["_tid_counter"] == r,
                "monotone": r >= p["_tid_counter"],
                "first-free-from-counter": Implies(And(p["_tid_counter"] <= T, T < r), sel(p["tdom"], T)),
                "frame-other-fields": frame(f, p, [k for k in MAPF if k != "_tid_counter"])}

    def inv(self, v):
        cx = v.cx
        f, p = cx.fields(v.self), cx.old_heap[v.self.oid]
        c = f["_tid_counter"]
        return {"monotone": c >= p["_tid_counter"],
                "all-below-taken": Implies(And(p["_tid_counter"] <= T, T < c), sel(p["tdom"], T)),
                "frame-other-fields": frame(f, p, [k for k in MAPF if k != "_tid_counter"])}

    def loop_facts(self, v):
        f = v.cx.fields(v.self)
        c = f["_tid_counter"]
        # finiteness of tensor_map (trusted): every key is below the bound -- instance at the current counter
        return [Implies(sel(f["tdom"], c), c < BOUND(f["tdom"]))]

    @property
    def loops(self):
        return {0: Loop("while self._tid_counter in self.tensor_map", self.inv, facts=self.loop_facts,
                        decreases=lambda v: BOUND(v.cx.fields(v.self)["tdom"]) - v.cx.fields(v.self)["_tid_counter"])}


# ================================================================================================
# add_tensor / pop_tensor     (INV incl. I2/I3 at the arbitrary pair (X, T))
# ================================================================================================


def subset(a, b):
    return z3.IsSubset(a, b)


def inv_links(f, x, t):
    """(I2)/(I3) at key x and tid t, and the domain restriction (no tensor carries a label twice) at t"""
    st, si = sel(f["tagsof"], t), sel(f["indsof"], t)
    return {"INV-I3-tag-entry-within-tensor_map": subset(sel(f["tagm"], x), f["tdom"]),
            "INV-I2-ind-entry-within-tensor_map": subset(sel(f["indm"], x), f["tdom"]),
            "INV-I3-tag-linked-iff-carried": Implies(sel(f["tdom"], t), sel(f["tagm"], x, t) == seen(st, x, slen(st))),
            "INV-I2-ind-linked-iff-carried": Implies(sel(f["tdom"], t), sel(f["indm"], x, t) == seen(si, x, slen(si))),
            "DOM-no-label-twice-on-one-tensor": Implies(sel(f["tdom"], t), NoDup(si))}


def inv_all(f, x, t):
    d = dict(inv_map(f, "tag", x))
    d.update(inv_map(f, "ind", x))
    d.update(inv_io(f, x))
    d.update(inv_links(f, x, t))
    return d


def mk_tensor(cx, name="tensor"):
    st, si = z3.Int(f"s!{name}.tags"), z3.Int(f"s!{name}.inds")
    return TensorV(KSeq(st, slen(st)), KSeq(si, slen(si)), name)


@register
class AddTensor(Base):
    """add_tensor(tensor, tid, virtual): T' = T + {tid'}, tid' not in T (the requested tid when it is free, else a fresh
    one), the maps get exactly the tensor's tags / labels for tid', every other entry unchanged, INV preserved"""

    target = f"{TNC}.add_tensor"
    floor = 40

    def cases(self):
        return [NS(name=f"tid={t},virtual={v}", tk=t, virtual=v) for t in ("None", "int") for v in (True, False)]

    def inputs(self, cx, case):
        return {"self": new_tn(cx), "tensor": mk_tensor(cx), "tid": None if case.tk == "None" else cx.Int("tid"),
                "virtual": case.virtual, "_cx": cx}

    def pre(self, cx, a, case):
        f = cx.fields(a.self)
        d = inv_all(f, X, T)
        # instance of (I2) at the label in the arbitrary position J of the tensor's label tuple
        d["INV-I2-at-label-J"] = subset(sel(f["indm"], seq_at(a.tensor.inds.sid, J)), f["tdom"])
        d["DOM-tensor-has-no-repeated-label"] = NoDup(a.tensor.inds.sid)
        return d

    def facts(self, cx, a, case):
        f = cx.fields(a.self)
        return inv_facts(f, X) + [slen(a.tensor.tags.sid) >= 0, slen(a.tensor.inds.sid) >= 0]

    def ensures(self, a, r, cx, case):
        f, p = cx.fields(a.self), cx.pre(a.self)
        for c in inv_facts(f, X):
            cx.assume(c)
        t2 = cx.ghost.get("stored_tid")
        if t2 is None:
            return {"tensor-stored": False}
        ts, ls = a.tensor.tags, a.tensor.inds
        st, sl = seen(ts.sid, X, ts.length), seen(ls.sid, X, ls.length)
        d = {"returns-None": r is None,
             "new-tid-was-free": Not(sel(p["tdom"], t2)),
             "tensor_map-gains-exactly-tid": f["tdom"] == add1(p["tdom"], t2),
             "tag-entry": sel(f["tagm"], X) == If(st, add1(sel(p["tagm"], X), t2), sel(p["tagm"], X)),
             "tag-card": sel(f["tagc"], X) == sel(p["tagc"], X) + If(st, 1, 0),
             "ind-entry": sel(f["indm"], X) == If(sl, add1(sel(p["indm"], X), t2), sel(p["indm"], X)),
             "ind-card": sel(f["indc"], X) == sel(p["indc"], X) + If(sl, 1, 0),
             "ghost-sequences": And(f["tagsof"] == z3.Store(p["tagsof"], t2, ts.sid),
                                    f["indsof"] == z3.Store(p["indsof"], t2, ls.sid)),
             "counter-monotone": f["_tid_counter"] >= p["_tid_counter"]}
        if a.tid is not None:
            d["requested-tid-used-iff-free"] = If(sel(p["tdom"], a.tid), t2 != a.tid, t2 == a.tid)
            d["counter-untouched-when-tid-free"] = Implies(Not(sel(p["tdom"], a.tid)), f["_tid_counter"] == p["_tid_counter"])
        d.update(inv_all(f, X, T))
        return d


@register
class PopTensor(Base):
    """pop_tensor(tid) [int tid]: the inverse of add_tensor: T' = T - {tid}, tid leaves every entry, emptied entries
    disappear, labels re-classified, INV preserved; KeyError (nothing changed) iff tid is not in tensor_map"""

    target = f"{TNC}.pop_tensor"
    floor = 20

    def inputs(self, cx, case):
        return {"self": new_tn(cx), "tid_or_tags": cx.Int("tid"), "which": "all", "_cx": cx}

    def pre(self, cx, a, case):
        f = cx.fields(a.self)
        d = inv_all(f, X, T)
        for k, c in inv_links(f, X, a.tid_or_tags).items():
            d[k + "-at-tid"] = c
        return d

    def facts(self, cx, a, case):
        f = cx.fields(a.self)
        st, si = sel(f["tagsof"], a.tid_or_tags), sel(f["indsof"], a.tid_or_tags)
        return inv_facts(f, X) + [slen(st) >= 0, slen(si) >= 0]

    def ensures(self, a, r, cx, case):
        f, p = cx.fields(a.self), cx.pre(a.self)
        for c in inv_facts(f, X):
            cx.assume(c)
        tid = a.tid_or_tags
        if not isinstance(r, TensorV):
            return {"returns-tensor": False}
        d = {"returns-the-stored-tensor": And(r.tags.sid == sel(p["tagsof"], tid), r.inds.sid == sel(p["indsof"], tid)),
             "tid-was-present": sel(p["tdom"], tid),
             "tensor_map-loses-exactly-tid": f["tdom"] == del1(p["tdom"], tid),
             "tag-entry": sel(f["tagm"], X) == del1(sel(p["tagm"], X), tid),
             "tag-card": sel(f["tagc"], X) == sel(p["tagc"], X) - If(sel(p["tagm"], X, tid), 1, 0),
             "ind-entry": sel(f["indm"], X) == del1(sel(p["indm"], X), tid),
             "ind-card": sel(f["indc"], X) == sel(p["indc"], X) - If(sel(p["indm"], X, tid), 1, 0),
             "frame-counter-and-ghost-sequences": frame(f, p, ["_tid_counter", "tagsof", "indsof"])}
        d.update(inv_all(f, X, T))
        return d

    def ensures_raise(self, a, exc, cx, case):
        f, p = cx.fields(a.self), cx.pre(a.self)
        if exc != "KeyError":
            return {f"no-raise-{exc}": False}
        return {"KeyError-only-if-tid-absent": Not(sel(p["tdom"], a.tid_or_tags)), "nothing-changed": frame(f, p, MAPF)}


Base.methods = {"_link_tags": LinkTags.target, "_unlink_tags": UnlinkTags.target, "_link_inds": LinkInds.target,
                "_unlink_inds": UnlinkInds.target, "_next_tid": NextTid.target,
                "_reset_inner_outer": ResetInnerOuter.target}


# ================================================================================================
# quimb/utils.py::oset against set algebra (membership view)
# ================================================================================================


def U(*xs):
    r = xs[0]
    for x in xs[1:]:
        r = z3.SetUnion(r, x)
    return r


def Isect(*xs):
    r = xs[0]
    for x in xs[1:]:
        r = z3.SetIntersect(r, x)
    return r


class OsetOp(Base):
    """one oset method.  mode: 'new' (returns a new oset, receiver and arguments untouched), 'inplace' (modifies the
    receiver; returns None or, for the __iXX__ forms, the receiver), 'query' (returns a value, nothing modified)"""

    mode = "new"
    returns_self = False
    variants = ("1",)  # kinds of `others`: "0", "1", "2", "3", "alias" (the receiver itself), "iter", "oset+iter"
    floor = 2
    param = "others"  # name of the vararg (or of the single `other`)

    def cases(self):
        return [NS(name=f"others={v}", v=v) for v in self.variants]

    def mk_others(self, cx, case, me):
        v = case.v
        if v == "alias":
            return (me,)
        if v == "iter":
            n = cx.Int("n_it")
            cx.assume(n >= 0)
            return (KSeq(z3.Int("s!it"), n),)
        if v == "oset+iter":
            n = cx.Int("n_it")
            cx.assume(n >= 0)
            return (new_oset(cx, "o1"), KSeq(z3.Int("s!it"), n))
        return tuple(new_oset(cx, f"o{k + 1}") for k in range(int(v)))

    def inputs(self, cx, case):
        me = new_oset(cx, "self")
        oth = self.mk_others(cx, case, me)
        d = {"self": me, "_cx": cx}
        d[self.param] = oth if self.param == "others" else oth[0]
        return d

    def others(self, a):
        o = a[self.param]
        return tuple(o) if self.param == "others" else (o,)

    def case_of_call(self, cx, a):
        return NS(name="call", v="call")

    def spec(self, S, O, a):
        """expected content (of the result for 'new', of the receiver afterwards for 'inplace')"""
        raise NotImplementedError

    def ins(self, cx, a):
        return [o for o in (a.self,) + self.others(a) if is_oset(o)]

    def ensures(self, a, r, cx, case):
        S = okeys(cx, a.self, pre=True)
        O = [content(cx, o, pre=True) for o in self.others(a)]
        exp = self.spec(S, O, a)
        d = {}
        touched = set()
        if self.mode == "new":
            if not is_oset(r):
                return {"returns-oset": False}
            old_osets = {o.oid for o in self.ins(cx, a)}
            old_dicts = {cx.pre(o)["d"].oid for o in self.ins(cx, a)}
            d["result-is-a-new-object"] = r.oid not in old_osets and cx.fields(r)["d"] is not None and \
                cx.fields(r)["d"].oid not in old_dicts
            if d["result-is-a-new-object"]:
                d["content-at-arbitrary-element"] = sel(okeys(cx, r), E) == sel(exp, E)
                d["content"] = okeys(cx, r) == exp
        else:
            d["returns-receiver" if self.returns_self else "returns-None"] = (r == a.self) if self.returns_self else (r is None)
            d["content-at-arbitrary-element"] = sel(okeys(cx, a.self), E) == sel(exp, E)
            d["content"] = okeys(cx, a.self) == exp
            touched = {a.self.oid}
        # frame: every other input object keeps its dict object and that dict its keys
        fr = []
        for o in self.ins(cx, a):
            if o.oid in touched:
                continue
            same_dict = cx.fields(o)["d"] is not None and cx.fields(o)["d"].oid == cx.pre(o)["d"].oid
            fr.append(same_dict)
            if same_dict:
                fr.append(okeys(cx, o) == okeys(cx, o, pre=True))
        d["frame-receiver-and-arguments-untouched" if self.mode == "new" else "frame-arguments-untouched"] = And(*fr)
        if any(isinstance(o, KSeq) for o in self.others(a)):
            d.pop("content", None)  # iterables of symbolic length: stated at the arbitrary element only
        return d

    def apply(self, cx, a, node, case=None):
        """call-site use: the specification applied constructively (it is what `ensures` states and the body proves)"""
        a.__dict__["_cx"] = cx
        name = self.target.split("::")[-1]
        for lab, c in self.pre(cx, a, case).items():
            cx.oblige(f"call-pre@{node.lineno}:{name}:{lab}", "call-pre", c, node.lineno)
        saved = cx.pre_heap
        cx.pre_heap = cx.heap
        try:
            S = okeys(cx, a.self, pre=True)
            O = [content(cx, o, pre=True) for o in self.others(a)]
            exp = self.spec(S, O, a)
        finally:
            cx.pre_heap = saved
        if self.mode == "new":
            return new_oset(cx, keys=exp)
        cx.fields(cx.fields(a.self)["d"])["keys"] = exp
        return a.self if self.returns_self else None


def oset_op(name, mode, spec, variants=("1",), param="others", returns_self=False, floor=2, doc=""):
    cls = type("Oset_" + name, (OsetOp,), dict(target=f"{UT}::oset.{name}", mode=mode, variants=variants, param=param,
                                                returns_self=returns_self, floor=floor, __doc__=doc,
                                                spec=lambda self, S, O, a: spec(S, O, a)))
    register(cls)
    OSET_METHODS[name] = cls.target
    return cls


def _loop_update(self):
    """update(*others): loop 0 (`for o in others`, fixed arity) is unrolled; loop 1 (`for k in o`, an iterable of
    symbolic length) keeps: receiver content at E = content before the loop or E among the first i items"""
    def inv(v):
        cx = v.cx
        a = v.old
        me = a.self
        S0 = cx.old_heap[cx.old_heap[me.oid]["d"].oid]["keys"]
        base = S0
        for o in a.others:
            if o is v.o:
                break
            base = z3.SetUnion(base, cx.old_heap[cx.old_heap[o.oid]["d"].oid]["keys"])
        d = {"same-dict-object": cx.fields(me)["d"].oid == cx.old_heap[me.oid]["d"].oid,
             "content-at-arbitrary-element": sel(okeys(cx, me), E) == Or(sel(base, E), seen(v.o.sid, E, v._it1))}
        fr = [okeys(cx, o) == cx.old_heap[cx.old_heap[o.oid]["d"].oid]["keys"] for o in a.others if is_oset(o) and o != me]
        d["frame-arguments-untouched"] = And(*fr)
        return d

    def facts(v):
        return def_seen(v.o.sid, E, v._it1)
    return {1: Loop("for k in o", inv, facts=facts)}


Oset_add = oset_op("add", "inplace", lambda S, O, a: add1(S, a.k), variants=("0",), param="k")
Oset_discard = oset_op("discard", "inplace", lambda S, O, a: del1(S, a.k), variants=("0",), param="k")
Oset_clear = oset_op("clear", "inplace", lambda S, O, a: EMPTY, variants=("0",))
Oset_update = oset_op("update", "inplace", lambda S, O, a: U(S, *O), variants=("0", "1", "2", "alias", "iter", "oset+iter"))
Oset_update.loops = property(_loop_update)
Oset_union = oset_op("union", "new", lambda S, O, a: U(S, *O), variants=("0", "1", "2", "alias", "iter"))
Oset_intersection_update = oset_op("intersection_update", "inplace", lambda S, O, a: Isect(S, *O),
                                   variants=("1", "2", "3", "alias"))
Oset_intersection = oset_op("intersection", "new", lambda S, O, a: Isect(S, *O), variants=("0", "1", "2", "3", "alias"))
Oset_difference_update = oset_op("difference_update", "inplace", lambda S, O, a: z3.SetDifference(S, U(*O)),
                                 variants=("1", "2", "3", "alias"))
Oset_difference = oset_op("difference", "new", lambda S, O, a: z3.SetDifference(S, U(*O)), variants=("1", "2", "3", "alias"))
Oset_copy = oset_op("copy", "new", lambda S, O, a: S, variants=("0",))
Oset_or = oset_op("__or__", "new", lambda S, O, a: U(S, *O), variants=("1", "alias"), param="other")
Oset_ior = oset_op("__ior__", "inplace", lambda S, O, a: U(S, *O), variants=("1", "alias"), param="other", returns_self=True)
Oset_and = oset_op("__and__", "new", lambda S, O, a: Isect(S, *O), variants=("1", "alias"), param="other")
Oset_iand = oset_op("__iand__", "inplace", lambda S, O, a: Isect(S, *O), variants=("1", "alias"), param="other",
                    returns_self=True)
Oset_sub = oset_op("__sub__", "new", lambda S, O, a: z3.SetDifference(S, U(*O)), variants=("1", "alias"), param="other")
Oset_isub = oset_op("__isub__", "inplace", lambda S, O, a: z3.SetDifference(S, U(*O)), variants=("1", "alias"),
                    param="other", returns_self=True)


def _k_inputs(self, cx, case):
    return {"self": new_oset(cx, "self"), "k": cx.Int("k"), "_cx": cx}


def _no_others(self, a):
    return ()


for _c in (Oset_add, Oset_discard):
    _c.inputs = _k_inputs
    _c.others = _no_others
for _c in (Oset_copy, Oset_clear):
    _c.others = _no_others


@register
class OsetRemove(OsetOp):
    """remove(k): KeyError (nothing changed) iff k is absent, else k leaves the set"""

    target = f"{UT}::oset.remove"
    mode = "inplace"
    variants = ("0",)
    floor = 4
    inputs = _k_inputs
    others = _no_others

    def spec(self, S, O, a):
        return del1(S, a.k)

    def ensures(self, a, r, cx, case):
        d = super().ensures(a, r, cx, case)
        d["k-was-present"] = sel(okeys(cx, a.self, pre=True), a.k)
        return d

    def ensures_raise(self, a, exc, cx, case):
        if exc != "KeyError":
            return {f"no-raise-{exc}": False}
        return {"KeyError-only-if-absent": Not(sel(okeys(cx, a.self, pre=True), a.k)),
                "nothing-changed": And(cx.fields(a.self)["d"].oid == cx.pre(a.self)["d"].oid,
                                       okeys(cx, a.self) == okeys(cx, a.self, pre=True))}

    def apply(self, cx, a, node, case=None):
        if not cx.decide(sel(okeys(cx, a.self), a.k), node.lineno):
            raise PyRaise("KeyError", node.lineno)
        return super().apply(cx, a, node, case)


OSET_METHODS["remove"] = OsetRemove.target


class OsetQuery(OsetOp):
    mode = "query"

    def value(self, cx, a, S, O):
        raise NotImplementedError

    def ensures(self, a, r, cx, case):
        S = okeys(cx, a.self, pre=True)
        fr = [And(cx.fields(o)["d"].oid == cx.pre(o)["d"].oid, okeys(cx, o) == okeys(cx, o, pre=True))
              for o in self.ins(cx, a)]
        d = dict(self.value_ok(cx, a, r, S))
        d["frame-nothing-modified"] = And(*fr)
        return d

    def apply(self, cx, a, node, case=None):
        return self.value_of(cx, a, okeys(cx, a.self))


@register
class OsetEq(OsetQuery):
    """__eq__(other): True iff other is an oset with the same members (order is NOT compared: dict equality)"""

    target = f"{UT}::oset.__eq__"
    variants = ("1", "alias", "non-oset")
    param = "other"

    def mk_others(self, cx, case, me):
        if case.v == "non-oset":
            return (cx.Opaque("other"),)
        return super().mk_others(cx, case, me)

    def value_ok(self, cx, a, r, S):
        if is_oset(a.other):
            return {"equal-iff-same-members": Z(r) == (S == okeys(cx, a.other, pre=True))}
        return {"non-oset-is-unequal": r is False}

    def value_of(self, cx, a, S):
        return (S == okeys(cx, a.other)) if is_oset(a.other) else False


@register
class OsetLen(OsetQuery):
    """__len__(): the cardinality of the member set"""

    target = f"{UT}::oset.__len__"
    variants = ("0",)
    others = _no_others

    def value_ok(self, cx, a, r, S):
        return {"len-is-cardinality": Z(r) == card(S), "len>=0": Z(r) >= 0}

    def value_of(self, cx, a, S):
        cx.assume(card_axioms(S))
        return card(S)


@register
class OsetContains(OsetQuery):
    """__contains__(x): membership"""

    target = f"{UT}::oset.__contains__"
    variants = ("0",)
    floor = 2
    param = "x"

    def inputs(self, cx, case):
        return {"self": new_oset(cx, "self"), "x": cx.Int("x"), "_cx": cx}

    others = _no_others

    def value_ok(self, cx, a, r, S):
        return {"membership": Z(r) == sel(S, a.x)}

    def value_of(self, cx, a, S):
        return sel(S, a.x)


for _c in (OsetEq, OsetLen, OsetContains):
    OSET_METHODS[_c.target.split(".")[-1]] = _c.target


@register
class OsetFromDictPrivate(Base):
    """oset._from_dict(d): a new oset that WRAPS d (no copy)"""

    target = f"{UT}::oset._from_dict"
    floor = 2

    def inputs(self, cx, case):
        return {"cls": OSET_CLASS, "d": DH(new_dict(cx, cx.Array("D", INT, BOOL))), "_cx": cx}

    def ensures(self, a, r, cx, case):
        if not is_oset(r):
            return {"returns-oset": False}
        return {"wraps-the-given-dict": cx.fields(r)["d"] is not None and cx.fields(r)["d"].oid == a.d.ref.oid,
                "dict-untouched": cx.fields(a.d.ref)["keys"] == cx.pre(a.d.ref)["keys"]}

    def apply(self, cx, a, node, case=None):
        if not isinstance(a.d, DH):
            raise Unsupported("_from_dict of a non-dict")
        return cx.new_obj("oset", d=a.d.ref)


@register
class OsetFromDict(OsetFromDictPrivate):
    """oset.from_dict(d): a new oset over a COPY of d"""

    target = f"{UT}::oset.from_dict"

    def ensures(self, a, r, cx, case):
        if not is_oset(r):
            return {"returns-oset": False}
        nd = cx.fields(r)["d"]
        return {"own-dict": nd is not None and nd.oid != a.d.ref.oid,
                "same-members": nd is not None and cx.fields(nd)["keys"] == cx.pre(a.d.ref)["keys"],
                "dict-untouched": cx.fields(a.d.ref)["keys"] == cx.pre(a.d.ref)["keys"]}

    def apply(self, cx, a, node, case=None):
        if not isinstance(a.d, DH):
            raise Unsupported("from_dict of a non-dict")
        return cx.new_obj("oset", d=new_dict(cx, cx.fields(a.d.ref)["keys"]))


# ================================================================================================
# _modify_tensor_tags / _modify_tensor_inds : re-key exactly one tid
# ================================================================================================


class ModifyBase(Base):
    W = "tag"
    floor = 8

    def inputs(self, cx, case):
        return {"self": new_tn(cx), "old": new_oset(cx, "old"), "new": new_oset(cx, "new"), "tid": cx.Int("tid"), "_cx": cx}

    def link_key(self, cx, a):
        """the label in the arbitrary position J of the enumeration of new - old (where _link_inds' precondition
        `tid not yet linked` has to be shown)"""
        return seq_at(iter_of(z3.SetDifference(okeys(cx, a.new, pre=True), okeys(cx, a.old, pre=True))), J)

    def inst_keys(self, cx):
        return [X] if self.W == "tag" else [X, self.link_key(cx, NS(cx.old.__dict__))]

    def inv_at(self, f, k):
        d = dict(inv_map(f, self.W, k))
        if self.W == "ind":
            d.update(inv_io(f, k))
        return d

    def pre(self, cx, a, case):
        f = cx.fields(a.self)
        d = {}
        saved = cx.pre_heap
        cx.pre_heap = cx.heap
        try:
            keys = [X] if self.W == "tag" else [X, self.link_key(cx, a)]
            for ki, k in enumerate(keys):
                sfx = "" if ki == 0 else "-at-linked-label-J"
                for lab, c in self.inv_at(f, k).items():
                    d[lab + sfx] = c
                d["old-is-what-tid-is-linked-under" + sfx] = sel(f[self.W + "m"], k, a.tid) == sel(okeys(cx, a.old), k)
        finally:
            cx.pre_heap = saved
        return d

    def facts(self, cx, a, case):
        f = cx.fields(a.self)
        saved = cx.pre_heap
        cx.pre_heap = cx.heap
        try:
            keys = [X] if self.W == "tag" else [X, self.link_key(cx, a)]
        finally:
            cx.pre_heap = saved
        out = []
        for k in keys:
            out += inv_facts(f, k)
        return out

    def ensures(self, a, r, cx, case):
        f, p = cx.fields(a.self), cx.pre(a.self)
        for c in inv_facts(f, X):
            cx.assume(c)
        w = self.W
        O, N = sel(okeys(cx, a.old, pre=True), X), sel(okeys(cx, a.new, pre=True), X)
        pm = sel(p[w + "m"], X)
        d = {"returns-None": r is None,
             "entry-rekeyed-for-exactly-tid": sel(f[w + "m"], X) == If(N, add1(pm, a.tid), del1(pm, a.tid)),
             "card": sel(f[w + "c"], X) == sel(p[w + "c"], X) - If(And(O, Not(N)), 1, 0) + If(And(N, Not(O)), 1, 0),
             "frame-other-fields": frame(f, p, [k for k in MAPF if k not in (TAGF if w == "tag" else INDF)]),
             "old-and-new-untouched": And(*[And(cx.fields(o)["d"].oid == cx.pre(o)["d"].oid,
                                               okeys(cx, o) == okeys(cx, o, pre=True)) for o in (a.old, a.new)])}
        d.update(self.inv_at(f, X))
        return d


@register
class ModifyTensorTags(ModifyBase):
    """_modify_tensor_tags(old, new, tid): afterwards tid is linked under exactly the tags in `new`"""

    target = f"{TNC}._modify_tensor_tags"


@register
class ModifyTensorInds(ModifyBase):
    """_modify_tensor_inds(old, new, tid): the same for labels, with inner/outer re-classified (domain: no label twice)"""

    target = f"{TNC}._modify_tensor_inds"
    W = "ind"
    floor = 20


# ================================================================================================
# selection: _get_tids_from, and the two combiners oset_union / oset_intersection
# ================================================================================================

allin = z3.Function("allin", MAP, INT, INT, INT, BOOL)  # (map, seq id, tid, i): tid in the entries of the first i keys
anyin = z3.Function("anyin", MAP, INT, INT, INT, BOOL)  # (map, seq id, tid, i): tid in some entry of the first i keys
AllPresent = z3.Function("AllPresent", INT, SET, BOOL)  # (seq id, dom): every key of the sequence is in dom


class EntrySeq:
    """tuple(xmap[x] for x in xs): the entries of the keys of a sequence of symbolic length"""

    def __init__(self, h, s, m):
        self.h, self.s, self.m = h, s, m

    @property
    def truth(self):
        return self.s.length != 0


@register
class GetTidsFrom(Base):
    """_get_tids_from(xmap, xs, which): exactly the intersection ('all') / union ('any') of the entries of the keys xs,
    or its complement within tensor_map ('!all' / '!any'); no key -> empty selection (as coded, also for 'all');
    KeyError iff some key is absent or `which` is not one of the four.  With (I2)/(I3) this IS: selection returns
    exactly the tensors that carry all / any of the labels / tags."""

    target = f"{TNC}._get_tids_from"
    floor = 4

    def cases(self):
        return [NS(name=f"map={w},which={wh}", w=w, which=wh) for w in ("tag", "ind")
                for wh in ("all", "any", "!all", "!any", "bogus")]

    def inputs(self, cx, case):
        tn = new_tn(cx)
        return {"self": tn, "xmap": MapH(tn, case.w), "xs": new_oset(cx, "xs"), "which": case.which, "_cx": cx}

    def attr(self, cx, base, attr, node):
        if base is None and attr in ("oset_intersection", "oset_union"):
            return ("fn", attr)
        return super().attr(cx, base, attr, node)

    def call(self, cx, name, args, kwargs, node):
        if name == "__genexp__":
            n = args[0]
            g = n.generators[0]
            src = cx.ev(g.iter)
            if not (is_oset(src) and isinstance(n.elt, ast.Subscript) and isinstance(g.target, ast.Name) and not g.ifs
                    and isinstance(n.elt.slice, ast.Name) and n.elt.slice.id == g.target.id):
                raise Unsupported("generator that is not `map[x] for x in <oset>`")
            h = cx.ev(n.elt.value)
            if not (isinstance(h, MapH) and h.w in ("tag", "ind")):
                raise Unsupported("generator over a non-map")
            s = oset_iter(cx, src)
            f = cx.fields(h.ref)
            # map[x] raises KeyError at the first absent key
            if not cx.decide(AllPresent(s.sid, f[h.w + "d"]), node.lineno):
                raise PyRaise("KeyError", node.lineno)
            return EntrySeq(h, s, f[h.w + "m"])
        if name == "tuple" and args and isinstance(args[0], EntrySeq):
            return args[0]
        if name in ("combine", "oset_intersection", "oset_union") and args and isinstance(args[0], EntrySeq):
            fn = cx.env.get("combine") if name == "combine" else ("fn", name)
            if not (isinstance(fn, tuple) and fn[0] == "fn"):
                raise Unsupported("combine is not one of the two combiners")
            es = args[0]
            t = z3.Int("t!bound")
            if fn[1] == "oset_intersection":
                # LEAF (proved for 1, 2, 3 sets below; trusted for symbolic length): needs a non-empty sequence
                cx.oblige(f"call-pre@{node.lineno}:oset_intersection:non-empty", "call-pre", es.s.length >= 1, node.lineno)
                arr = z3.Lambda([t], allin(es.m, es.s.sid, t, es.s.length))
            else:
                arr = z3.Lambda([t], anyin(es.m, es.s.sid, t, es.s.length))
            return new_oset(cx, keys=arr)
        return super().call(cx, name, args, kwargs, node)

    def ensures(self, a, r, cx, case):
        f, p = cx.fields(a.self), cx.pre(a.self)
        if not is_oset(r):
            return {"returns-oset": False}
        S = okeys(cx, a.xs, pre=True)
        sid, n = iter_of(S), card(S)
        m = p[case.w + "m"]
        base = {"all": And(n > 0, allin(m, sid, T, n)), "any": And(n > 0, anyin(m, sid, T, n))}.get(case.which.lstrip("!"))
        if base is None:
            return {"invalid-which-raises": False}
        exp = And(sel(p["tdom"], T), Not(base)) if case.which.startswith("!") else base
        return {"selection-at-arbitrary-tid": sel(okeys(cx, r), T) == exp,
                "all-keys-were-present": AllPresent(sid, p[case.w + "d"]),
                "result-is-a-new-object": r.oid != a.xs.oid and cx.fields(r)["d"].oid != cx.pre(a.xs)["d"].oid,
                "frame-network-untouched": frame(f, p, MAPF),
                "frame-xs-untouched": And(cx.fields(a.xs)["d"].oid == cx.pre(a.xs)["d"].oid, okeys(cx, a.xs) == S)}

    def ensures_raise(self, a, exc, cx, case):
        f, p = cx.fields(a.self), cx.pre(a.self)
        if exc != "KeyError":
            return {f"no-raise-{exc}": False}
        S = okeys(cx, a.xs, pre=True)
        return {"KeyError-only-if-key-absent-or-invalid-which": Or(case.which == "bogus", Not(AllPresent(iter_of(S), p[case.w + "d"]))),
                "frame-network-untouched": frame(f, p, MAPF)}


class Combiner(Base):
    """oset_union(xs) / oset_intersection(xs) on a tuple of 0..3 osets (fixed arity: structure-bounded)"""

    floor = 2
    OP = staticmethod(U)

    def cases(self):
        return [NS(name=f"n={k}", n=k) for k in (0, 1, 2, 3)]

    def inputs(self, cx, case):
        return {"xs": tuple(new_oset(cx, f"x{k}") for k in range(case.n)), "_cx": cx}

    def call(self, cx, name, args, kwargs, node):
        if name == "concat" and isinstance(args[0], (tuple, list)) and all(is_oset(o) for o in args[0]):
            return ConcatV(args[0])  # LEAF toolz.concat: the items of all parts
        return super().call(cx, name, args, kwargs, node)

    def apply(self, cx, a, node, case=None):
        """call-site use: the specification applied constructively"""
        if not (isinstance(a.xs, (tuple, list)) and all(is_oset(o) for o in a.xs)):
            raise Unsupported("combiner on a sequence that is not a fixed tuple of osets")
        if not a.xs:
            if "ValueError" in self.raises:
                raise PyRaise("ValueError", node.lineno)
            return new_oset(cx, keys=EMPTY)
        return new_oset(cx, keys=self.OP(*[okeys(cx, o) for o in a.xs]))

    def ensures(self, a, r, cx, case):
        if not is_oset(r):
            return {"returns-oset": False}
        Os = [okeys(cx, o, pre=True) for o in a.xs]
        d = {"result-is-a-new-object": all(r.oid != o.oid and cx.fields(r)["d"].oid != cx.pre(o)["d"].oid for o in a.xs),
             "frame-arguments-untouched": And(*[And(cx.fields(o)["d"].oid == cx.pre(o)["d"].oid,
                                                    okeys(cx, o) == okeys(cx, o, pre=True)) for o in a.xs])}
        d["content"] = okeys(cx, r) == (self.OP(*Os) if Os else EMPTY)
        return d


@register
class OsetUnionFn(Combiner):
    target = f"{TC}::oset_union"


@register
class OsetIntersectionFn(Combiner):
    target = f"{TC}::oset_intersection"
    OP = staticmethod(Isect)
    raises = {"ValueError": lambda a: len(a.xs) == 0}


# ================================================================================================
# provider: exhaustive sanity check of the trusted fsets axiom instances and of the two iteration leaves
# ================================================================================================


def provider_fsets(tier):
    """fdx: (a) the ground axioms of `card` used above hold for true cardinality on every subset of a 3-element
    universe; (b) the leaves `iterating an oset / a dict yields exactly its members, each once` and
    `oset(it) holds exactly the items of it` hold for the REAL oset on every sequence over that universe of length <= 3"""
    import itertools
    import time

    from vf.framework import ObResult
    from quimb.utils import oset as real_oset

    out = []
    Uv = (0, 1, 2)
    t0 = time.time()
    bad = []
    for k in range(4):
        for S in itertools.combinations(Uv, k):
            S = frozenset(S)
            if not (len(S) >= 0 and ((len(S) == 0) == (S == frozenset()))):
                bad.append(("card>=0 / zero-iff-empty", sorted(S)))
            for t in Uv:
                if len(S | {t}) != len(S) + (0 if t in S else 1):
                    bad.append(("card-add", sorted(S), t))
                if len(S - {t}) != len(S) - (1 if t in S else 0):
                    bad.append(("card-discard", sorted(S), t))
    out.append(ObResult("contracts/c02_maps.py::fsets::card-axioms-on-3-element-universe", "fdx",
                        "discharged" if not bad else "failed", "exhaustive", time.time() - t0, function="fsets::card",
                        model=dict(counterexample=bad[:3]) if bad else None, engine="fdx"))
    t0 = time.time()
    bad = []
    for n in range(4):
        for seq in itertools.product(Uv, repeat=n):
            o = real_oset(seq)
            items = list(o)
            if set(items) != set(seq) or len(items) != len(set(items)) or len(o) != len(set(seq)) or \
                    any((x in o) != (x in seq) for x in Uv):
                bad.append(seq)
    out.append(ObResult("quimb/utils.py::oset::iteration-and-constructor-leaves", "fdx",
                        "discharged" if not bad else "failed", "exhaustive", time.time() - t0,
                        function="quimb/utils.py::oset.__iter__", model=dict(counterexample=bad[:3]) if bad else None,
                        engine="fdx"))
    return out
