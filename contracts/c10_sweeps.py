"""C10 / C09 / C12 -- sweep discipline: DMRG moving environments, sweep order and gauge, bond schedule (tn1d/dmrg.py);
bond-cap threading and promised canonical form of the 1D compression sweeps (tn1d/core.py); interleaved boundary
bookkeeping of the 2D boundary contraction (tn2d/core.py).

Tensor contractions are OPAQUE.  What is tracked:

* MovingEnvironment (open boundary): every stored environment ``envs[k]`` is abstracted to the tuple
  (flo, fhi, nl, lup, nr, rfr): the uncontracted site block [flo, fhi), the number nl of ``_LEFT`` tensors and the sites
  [0, lup) such a tensor stands for, the number nr of ``_RIGHT`` tensors and the sites [rfr, L) it stands for.  The
  operations ``|`` (add a site / an end piece), ``^ (end tag, site tag)`` (contract the end tensor with the adjacent
  free site) carry adjacency obligations; reading ``envs[k]`` carries the obligation that the key exists.
* DMRG: mpsghost of C08 (isL / isR per site of the ket ``_k``), ghost visit log (step number -> position), ghost
  ``capd`` (bond k was last written by a split that received the sweep's max_bond), iterators as heap objects with a
  ghost counter (item k of chain(bds, repeat(bds[-1]))).
* 1D compress: mpsghost + ghost ``capd`` (bond (k,k+1) <= the caller's max_bond).

Registration order: contracts.c09_labels is imported FIRST so that, for the two DMRG methods that carry a label-calculus
contract there (DMRG._update_local_state_1site / _2site), the short function suffixes used by selftest/mutants_labels.py
keep resolving to the label contracts; the mpsghost contracts of the same two functions are registered here under the
names DMRG1._update_local_state_1site / DMRG2._update_local_state_2site (the classes that inherit and run them).
"""

import ast

import z3

import contracts.c09_labels  # noqa: F401  (registration order, see above)
import contracts.c08_mps as c08
import contracts.c11_tebd as c11
from vf.pyvc import (And, Contract, I, If, Implies, Loop, Max, Min, NS, Not, Opaque, Or, PathEnd, PyRaise, R, Ref, StarArg,
                     Unsupported, Z, has_quantifier, is_int, is_z3, register, REGISTRY, assigned_names, load_function, num_cmp)

DM = "quimb/tensor/tn1d/dmrg.py"
T1 = "quimb/tensor/tn1d/core.py"
T2 = "quimb/tensor/tn2d/core.py"
ME = f"{DM}::MovingEnvironment"
K = c08.K
sel = c08.sel
forall_sites = c08.forall_sites
Seq = c11.Seq
IntS, BoolS = z3.IntSort(), z3.BoolSort()


# ======================================================================================================
# MovingEnvironment (open boundary)
# ======================================================================================================

ENV_COMPONENTS = ("flo", "fhi", "nl", "lup", "nr", "rfr")


class Env:
    """abstract environment network: free sites [flo, fhi), nl _LEFT tensors standing for sites [0, lup), nr _RIGHT
    tensors standing for sites [rfr, L)"""

    def __init__(self, flo, fhi, nl, lup, nr, rfr):
        self.flo, self.fhi, self.nl, self.lup, self.nr, self.rfr = flo, fhi, nl, lup, nr, rfr

    def with_(self, **kw):
        d = {c: getattr(self, c) for c in ENV_COMPONENTS}
        d.update(kw)
        return Env(**d)


def env_complete(e, pos, bsz):
    """the environment of position pos: exactly the sites < pos on the left, >= pos+bsz on the right"""
    return And(e.flo == pos, e.fhi == pos + bsz, e.nl == 1, e.lup == pos, e.nr == 1, e.rfr == pos + bsz)


class SiteTag:
    def __init__(self, i):
        self.i = i


class SitePiece:
    """tnc.select(i): the tensors of site i"""

    def __init__(self, i):
        self.i = i


class EndPiece:
    """a single _LEFT tensor standing for sites [0, cover) / a single _RIGHT tensor standing for sites [cover, L)"""

    def __init__(self, side, cover):
        self.side, self.cover = side, cover


class EndTensor:
    """Tensor(tags='_LEFT' | '_RIGHT'): the scalar dummy end piece"""

    def __init__(self, tag):
        self.tag = tag


class TNV:
    """the (virtual copy of the) overlap network: all sites + nL dummy _LEFT + nR dummy _RIGHT tensors"""

    def __init__(self, nL=0, nR=0):
        self.nL, self.nR = nL, nR


class Selection:
    """env.select([end tag, site tag], which='any')"""

    def __init__(self, env, side, site):
        self.env, self.side, self.site = env, side, site


class RangeV:
    def __init__(self, start, stop):
        self.start, self.stop = start, stop


class EnvsHandle:
    def __init__(self, me):
        self.me = me


class EnvMapInit:
    """{key: env}: the value of the dict display that initialises ``self.envs``"""

    def __init__(self, key, env):
        self.key, self.env = key, env


class BoundMethod:
    def __init__(self, recv, name):
        self.recv, self.name = recv, name


ALL = "<builtin all>"


def new_me(cx, stage, begin=None, L=None, bsz=None, name="me"):
    """a MovingEnvironment heap object.  stage 'raw': nothing set (entry of __init__); 'pre-seg': the attributes __init__
    sets before init_segment; 'ready': after init_segment (class invariant assumed by the caller)"""
    fields = {}
    if stage != "raw":
        L = L if L is not None else cx.Int("L")
        bsz = bsz if bsz is not None else cx.Int("bsz")
        fields.update(L=L, bsz=bsz, cyclic=False, segmented=False, begin=begin, tn=TNV(), segment_callbacks=None,
                      _site_tag_id=cx.Opaque("site_tag_id"))
    if stage == "ready":
        fields.update(tnc=TNV(1, 1), pos=cx.Int(f"pos_{name}"), segment=RangeV(0, L - bsz + 1))
    ref = cx.new_obj("ME", **fields)
    fresh_env_arrays(cx, ref, name)
    return ref


def fresh_env_arrays(cx, ref, name="me"):
    f = cx.fields(ref)
    f["e_has"] = cx.Array(f"e_has_{name}", IntS, BoolS)
    for c in ENV_COMPONENTS:
        f["e_" + c] = cx.Array(f"e_{c}_{name}", IntS, IntS)


def env_at(f, k):
    return Env(*[sel(f["e_" + c], k) for c in ENV_COMPONENTS])


def me_inv(f, begin, pos=None):
    """class invariant of an open-boundary MovingEnvironment begun at ``begin`` (dict label -> formula)"""
    L, bsz = f["L"], f["bsz"]
    pos = f["pos"] if pos is None else pos
    last = L - bsz
    inr = And(0 <= K, K <= last)
    e = env_at(f, K)
    seg = f.get("segment")
    d = {"segment-is-[0,L-bsz]": And(seg.start == 0, seg.stop == last + 1) if isinstance(seg, RangeV) else False,
         "0<=pos<=L-bsz": And(0 <= pos, pos <= last),
         "envs-exist-exactly-on-[0,L-bsz]": forall_sites(sel(f["e_has"], K) == inr),
         "free-block-of-envs[k]-is-[k,k+bsz)": forall_sites(Implies(inr, And(e.flo == K, e.fhi == K + bsz)))}
    if begin == "left":
        d["right-environments-prepared: envs[k] has one _RIGHT for sites >= k+bsz"] = \
            forall_sites(Implies(inr, And(e.nr == 1, e.rfr == K + bsz)))
        d["left-environments-up-to-pos: one _LEFT for sites < k (k <= pos), none beyond"] = \
            forall_sites(Implies(inr, If(K <= pos, And(e.nl == 1, e.lup == K), e.nl == 0)))
    else:
        d["left-environments-prepared: envs[k] has one _LEFT for sites < k"] = \
            forall_sites(Implies(inr, And(e.nl == 1, e.lup == K)))
        d["right-environments-from-pos: one _RIGHT for sites >= k+bsz (k >= pos), none before"] = \
            forall_sites(Implies(inr, If(K >= pos, And(e.nr == 1, e.rfr == K + bsz), e.nr == 0)))
    return d


def envs_unchanged_except(f, p, k0):
    return forall_sites(Implies(K != k0, And(sel(f["e_has"], K) == sel(p["e_has"], K),
                                             *[sel(f["e_" + c], K) == sel(p["e_" + c], K) for c in ENV_COMPONENTS])))


def oblige_structural(cx, label, kind, ok, line):
    """a python-level (structural) condition.  When it is violated the obligation is emitted WITHOUT the quantified part of
    the path condition (fewer assumptions: sound), so that it is decided `failed` with a model instead of `unknown`"""
    if ok:
        cx.oblige(label, kind, True, line)
        return
    saved = cx.pc
    cx.pc = [a for a in saved if not has_quantifier(Z(a))]
    try:
        cx.oblige(label, kind, False, line)
    finally:
        cx.pc = saved


class MEContract(c11.SeqMixin, Contract):
    """shared modelling of MovingEnvironment objects"""

    property_ids = ("C10",)
    nonlinear_hooks = True
    drops = "decorators, docstrings, ascii-art comments"
    me_methods = {}

    # ---- heap havoc at loop heads: every environment array (and the position) of every ME object
    def havoc_heap(self, cx):
        for oid, f in cx.heap.items():
            if "e_has" in f:
                fresh_env_arrays(cx, Ref(oid, "ME"), "hv")
                if "pos" in f:
                    f["pos"] = cx.Int("pos_hv")
        self.havoc_more(cx)

    def havoc_more(self, cx):
        pass

    def locals_of(self, cx):
        if "_assigned" not in cx.ghost:
            cx.ghost["_assigned"] = assigned_names(cx.fn_node.body)
        return cx.ghost["_assigned"]

    def attr(self, cx, base, attr, node):
        if base is None:
            if attr == "all":
                return ALL
            if attr in self.locals_of(cx):
                # a local variable that is read before any assignment on this path
                raise PyRaise("UnboundLocalError", getattr(node, "lineno", 0))
            return NotImplemented
        if isinstance(base, Ref) and base.kind == "ME":
            f = cx.fields(base)
            if attr == "envs":
                if not f.get("envs_set"):
                    raise PyRaise("AttributeError", getattr(node, "lineno", 0))
                return EnvsHandle(base)
            if attr in self.me_methods or attr == "site_tag":
                return BoundMethod(base, attr)
            if attr in ("_ssz", "eps", "method", "max_bond", "norm", "bond_sizes") or attr not in f:
                raise PyRaise("AttributeError", getattr(node, "lineno", 0))  # only set on periodic systems
        if isinstance(base, RangeV) and attr in ("start", "stop"):
            return getattr(base, attr)
        if isinstance(base, TNV) and attr == "dtype":
            return cx.Opaque("dtype")
        if isinstance(base, Ref) and base.kind == "TN":
            f = cx.fields(base)
            if attr in f:
                return f[attr]
        return NotImplemented

    def site_index(self, cx, me, i, node, what):
        """obligation: a site index handed to the network lies on the chain"""
        L = cx.fields(me)["L"]
        cx.oblige(f"site-index@{node.lineno}:{what}: 0 <= site < L", "index", And(0 <= i, i < L), node.lineno)

    def call(self, cx, name, args, kwargs, node):
        line = getattr(node, "lineno", 0)
        if name == "__nldivmod__":
            a, b = args
            q, r = cx.Int("q"), cx.Int("r")
            # definitional facts of python floor division for a positive divisor (exact where they apply)
            cx.assume(Implies(b > 0, And(0 <= r, r < b)))
            cx.assume(Implies(And(b > 0, 0 <= a, a < b), And(q == 0, r == a)))
            cx.assume(Implies(And(b > 0, b <= a, a < 2 * b), And(q == 1, r == a - b)))
            cx.assume(Implies(And(b > 0, -b <= a, a < 0), And(q == -1, r == a + b)))
            return q, r
        if name == "__binop__":
            r = self.env_binop(cx, args[0], args[1], args[2], node)
            if r is not NotImplemented:
                return r
        r = self.seq_hooks(cx, name, args, kwargs, node)
        if r is not NotImplemented:
            return r
        if name == "__contains__" and isinstance(args[0], RangeV):
            rg, x = args
            return And(rg.start <= x, x < rg.stop)
        if name == "__setattr__" and isinstance(args[0], Ref) and args[0].kind == "ME":
            ref, attr, val = args
            f = cx.fields(ref)
            if attr == "envs":
                if not isinstance(val, EnvMapInit):
                    raise Unsupported("envs assigned something that is not a one-entry dict display")
                f["e_has"] = z3.Store(z3.K(IntS, z3.BoolVal(False)), val.key, True)
                for c in ENV_COMPONENTS:
                    f["e_" + c] = z3.Store(f["e_" + c], val.key, getattr(val.env, c))
                f["envs_set"] = True
                return None
            if attr == "segment":
                if not (isinstance(val, tuple) and val and val[0] == "range" and len(val) == 3):
                    if isinstance(val, range):
                        val = ("range", val.start, val.stop)
                    else:
                        raise Unsupported("segment is not a range(start, stop)")
                f["segment"] = RangeV(val[1], val[2])
                return None
            f[attr] = val
            return None
        if name == "__getitem__" and isinstance(args[0], EnvsHandle):
            f = cx.fields(args[0].me)
            k = args[1]
            cx.oblige(f"envs-key-exists@{line}: envs[k] is read only where it was stored", "index", sel(f["e_has"], k), line)
            return env_at(f, k)
        if name == "__setitem__" and isinstance(args[0], EnvsHandle):
            f = cx.fields(args[0].me)
            k, val = args[1], args[2]
            if not isinstance(val, Env):
                raise Unsupported("non-environment stored in envs")
            f["e_has"] = z3.Store(f["e_has"], k, True)
            for c in ENV_COMPONENTS:
                f["e_" + c] = z3.Store(f["e_" + c], k, getattr(val, c))
            return None
        if name == "__getitem__" and isinstance(args[0], TNV) and args[1] in ("_LEFT", "_RIGHT"):
            tnc, tag = args
            n = tnc.nL if tag == "_LEFT" else tnc.nR
            cx.oblige(f"end-piece@{line}: the network holds exactly one {tag} tensor", "call-pre", n == 1, line)
            me = cx.ghost["self"]
            return EndPiece("L" if tag == "_LEFT" else "R", 0 if tag == "_LEFT" else cx.fields(me)["L"])
        if name == ".select" and isinstance(args[0], TNV):
            i = args[1]
            if not is_int(i):
                raise Unsupported("tnc.select of a non-site")
            self.site_index(cx, cx.ghost["self"], i, node, "tnc.select(site)")
            return SitePiece(i)
        if name == ".select_any" and isinstance(args[0], TNV):
            return self.select_any(cx, args[0], args[1], node)
        if name == ".select" and isinstance(args[0], Env):
            tags = args[1]
            ok = isinstance(tags, (list, tuple)) and len(tags) == 2 and tags[0] in ("_LEFT", "_RIGHT") and \
                isinstance(tags[1], SiteTag) and kwargs.get("which") == "any"
            cx.oblige(f"select@{line}: [end tag, site tag] with which='any'", "call-arg", ok, line)
            if not ok:
                raise Unsupported("env.select call shape")
            return Selection(args[0], "L" if tags[0] == "_LEFT" else "R", tags[1].i)
        if name == ".copy" and isinstance(args[0], (Env, TNV)):
            return args[0]  # (virtual) copy: the same abstract content
        if name == "Tensor" and kwargs.get("tags") in ("_LEFT", "_RIGHT") and not args:
            return EndTensor(kwargs["tags"])
        if name == ".astype" and isinstance(args[0], EndTensor):
            return args[0]
        if name == ".format" and isinstance(args[0], Opaque) and len(args) == 2 and is_int(args[1]):
            return SiteTag(args[1])  # [leaf] site_tag_id.format(j): the tag of site j
        if name == "callable":
            return args[0] is not None
        # bound methods of the environment object: self.m(...), and {"left": self.move_left, ...}[d]()
        fv = None
        if isinstance(node, ast.Call) and isinstance(node.func, ast.Subscript):
            fv = cx.ev(node.func)
        elif name.startswith(".") and isinstance(args[0], Ref) and args[0].kind == "ME" and isinstance(node, ast.Call):
            fv, args = BoundMethod(args[0], name[1:]), args[1:]
        if isinstance(fv, BoundMethod):
            return self.call_bound(cx, fv, args, kwargs, node)
        return NotImplemented

    def call_bound(self, cx, bm, args, kwargs, node):
        if isinstance(bm.recv, Ref) and bm.recv.kind == "ME":
            tgt = f"{ME}.{bm.name}"
            if tgt in REGISTRY:
                return cx.call_contract(REGISTRY[tgt], list(args), kwargs, node, recv=bm.recv)
        raise Unsupported(f"call of bound method {bm.name}")

    def on_dict(self, cx, n):
        if len(n.keys) == 1 and n.keys[0] is not None:
            k = cx.ev(n.keys[0])
            v = cx.ev(n.values[0])
            if isinstance(v, Env) and is_int(k):
                return EnvMapInit(k, v)
            if is_z3(k):
                raise Unsupported("symbolic dict key")
            return {k: v}
        return NotImplemented

    # ---- environment algebra -----------------------------------------------------------------------
    def select_any(self, cx, tnc, tags, node):
        """tnc.select_any([end tag] + [site_tag(s0 + b) for b in range(bsz)]): the initial environment: the dummy end
        piece and the contiguous block of bsz free sites"""
        line = node.lineno
        me = cx.ghost["self"]
        L = cx.fields(me)["L"]
        parts = Seq.of(tags).parts
        ok = len(parts) == 2 and parts[0][0] == "lit" and len(parts[0][1]) == 1 and parts[0][1][0] in ("_LEFT", "_RIGHT")
        cx.oblige(f"select_any@{line}: one end tag followed by the site tags of the block", "call-arg", ok, line)
        if not ok:
            raise Unsupported("select_any call shape")
        end = parts[0][1][0]
        if parts[1][0] == "lit":
            sites = [t.i for t in parts[1][1]]
            n, s0 = len(sites), sites[0]
            contiguous = And(*[s == s0 + j for j, s in enumerate(sites)])
        else:
            n, getter = parts[1][1], parts[1][2]
            b = cx.Int("b!tag")  # skolem position in the block
            cx.assume(And(0 <= b, b < n))
            tb = getter(b)
            if not isinstance(tb, SiteTag):
                raise Unsupported("select_any: non-site tag in the block")
            s0 = z3.simplify(z3.substitute(Z(tb.i), (b, z3.IntVal(0))))
            contiguous = Z(tb.i) == s0 + b
        cx.oblige(f"select_any@{line}: the tagged sites form the contiguous block [s0, s0+n)", "call-arg", contiguous, line)
        cx.oblige(f"select_any@{line}: the network holds exactly one {end} tensor", "call-pre",
                  (tnc.nL if end == "_LEFT" else tnc.nR) == 1, line)
        if end == "_RIGHT":
            return Env(s0, s0 + n, 0, 0, 1, L)  # dummy _RIGHT: stands for no site (sites >= L)
        return Env(s0, s0 + n, 1, 0, 0, L)  # dummy _LEFT: stands for no site (sites < 0)

    def env_binop(self, cx, op, a, b, node):
        line = getattr(node, "lineno", 0)
        if op == "Add" and isinstance(a, (list, tuple)) and isinstance(b, Seq):
            return Seq([("lit", list(a))] + b.parts)
        if op == "BitOr" and isinstance(a, TNV) and isinstance(b, EndTensor):
            return TNV(a.nL + (b.tag == "_LEFT"), a.nR + (b.tag == "_RIGHT"))
        if op == "BitOr" and isinstance(a, Env) and isinstance(b, SitePiece):
            cx.oblige(f"env-add@{line}: the added site is adjacent to the free block", "adjacent",
                      Or(b.i == a.flo - 1, b.i == a.fhi), line)
            return a.with_(flo=If(b.i == a.flo - 1, a.flo - 1, a.flo), fhi=If(b.i == a.fhi, a.fhi + 1, a.fhi))
        if op == "BitOr" and isinstance(a, Env) and isinstance(b, EndPiece):
            if b.side == "L":
                cx.oblige(f"env-add@{line}: no second _LEFT environment, and it stands for exactly the sites left of the block",
                          "adjacent", And(a.nl == 0, b.cover == a.flo), line)
                return a.with_(nl=a.nl + 1, lup=b.cover)
            cx.oblige(f"env-add@{line}: no second _RIGHT environment, and it stands for exactly the sites right of the block",
                      "adjacent", And(a.nr == 0, b.cover == a.fhi), line)
            return a.with_(nr=a.nr + 1, rfr=b.cover)
        if op == "BitXor" and isinstance(a, Env) and isinstance(b, tuple) and len(b) == 2 and b[0] in ("_LEFT", "_RIGHT") \
                and isinstance(b[1], SiteTag):
            j = b[1].i
            if b[0] == "_RIGHT":
                cx.oblige(f"env-contract@{line}: _RIGHT is contracted with the adjacent (last free) site", "adjacent",
                          And(a.nr == 1, a.rfr == a.fhi, j == a.fhi - 1, a.fhi - a.flo >= 2), line)
                return a.with_(fhi=a.fhi - 1, rfr=a.fhi - 1)
            cx.oblige(f"env-contract@{line}: _LEFT is contracted with the adjacent (first free) site", "adjacent",
                      And(a.nl == 1, a.lup == a.flo, j == a.flo, a.fhi - a.flo >= 2), line)
            return a.with_(flo=a.flo + 1, lup=a.flo + 1)
        if op == "BitXor" and isinstance(a, Selection) and b is ALL:
            e = a.env
            if a.side == "L":
                cx.oblige(f"env-contract@{line}: the selected _LEFT and site are adjacent: new left environment of sites <= site",
                          "adjacent", And(e.nl == 1, e.lup == a.site, e.flo == a.site), line)
                return EndPiece("L", a.site + 1)
            cx.oblige(f"env-contract@{line}: the selected _RIGHT and site are adjacent: new right environment of sites >= site",
                      "adjacent", And(e.nr == 1, e.rfr == a.site + 1, e.fhi == a.site + 1), line)
            return EndPiece("R", a.site)
        return NotImplemented


def me_case_inputs(cx, begin, stage="ready"):
    ref = new_me(cx, stage, begin=begin)
    cx.ghost["self"] = ref
    f = cx.fields(ref)
    cx.assume(And(f["bsz"] >= 1, f["L"] >= f["bsz"]))
    if stage == "ready":
        f["envs_set"] = True
        for c in me_inv(f, begin).values():
            cx.assume(c)
    return ref


@register
class SiteTagC(MEContract):
    """site_tag(i) = site_tag_id.format(i mod L): for a site on the chain the tag of that site"""

    target = f"{ME}.site_tag"
    floor = 1

    def inputs(self, cx, case):
        ref = me_case_inputs(cx, "left", "pre-seg")
        i = cx.Int("i")
        cx.assume(And(0 <= i, i < cx.fields(ref)["L"]))
        return dict(self=ref, i=i)

    def ensures(self, a, r, cx, case):
        return {"tag-of-site-i": And(isinstance(r, SiteTag), r.i == a.i) if isinstance(r, SiteTag) else False}

    def apply(self, cx, a, node, case=None):
        self.site_index(cx, a.self, a.i, node, "site_tag(site)")
        return SiteTag(a.i)


@register
class InitNonSegment(MEContract):
    """open boundary: the working copy gets exactly one dummy _LEFT and one dummy _RIGHT tensor"""

    target = f"{ME}.init_non_segment"
    floor = 2

    def inputs(self, cx, case):
        ref = me_case_inputs(cx, "left", "pre-seg")
        return dict(self=ref, start=cx.Int("start"), stop=cx.Int("stop"))

    def ensures(self, a, r, cx, case):
        f = cx.fields(a.self)
        t = f.get("tnc")
        return {"returns-None": r is None,
                "working-copy-has-one-_LEFT-and-one-_RIGHT-dummy": isinstance(t, TNV) and t.nL == 1 and t.nR == 1}

    def apply(self, cx, a, node, case=None):
        f = cx.fields(a.self)
        cx.oblige(f"call-pre@{node.lineno}:init_non_segment:open-boundary", "call-pre",
                  f["cyclic"] is False and f["segmented"] is False, node.lineno)
        f["tnc"] = TNV(1, 1)
        return None


@register
class InitSegment(MEContract):
    """init_segment(begin, 0, L-bsz+1) on an open chain establishes the class invariant: envs[k] exists exactly for
    0 <= k <= L-bsz with free block [k, k+bsz); begin='left': every envs[k] carries the right environment of the sites
    >= k+bsz, envs[0] the (empty) left environment, pos = 0; begin='right': mirror image, pos = L-bsz.
    KNOWN DEFECT (kept failing): begin='right' with L == bsz reads the loop variable after an empty loop."""

    target = f"{ME}.init_segment"
    floor = 20

    def cases(self):
        return [NS(name=f"begin={b}", begin=b) for b in ("left", "right", "other")]

    def inputs(self, cx, case):
        ref = me_case_inputs(cx, case.begin, "pre-seg")
        f = cx.fields(ref)
        start, stop = cx.Int("start"), cx.Int("stop")
        cx.assume(And(start == 0, stop == f["L"] - f["bsz"] + 1))
        return dict(self=ref, begin=case.begin, start=start, stop=stop)

    raises = {"ValueError": lambda a: a.begin not in ("left", "right")}

    def ensures(self, a, r, cx, case):
        f = cx.fields(a.self)
        if a.begin not in ("left", "right"):
            return {"must-raise-for-an-unknown-begin": False}
        d = {"returns-None": r is None, "envs-and-pos-set": bool(f.get("envs_set")) and "pos" in f}
        if not d["envs-and-pos-set"]:
            return d
        d.update(me_inv(f, a.begin))
        d["pos-at-the-begin-side"] = f["pos"] == (0 if a.begin == "left" else f["L"] - f["bsz"])
        d["current-environment-complete"] = env_complete(env_at(f, f["pos"]), f["pos"], f["bsz"])
        return d

    def inv_left(self, v):
        cx = v.cx
        f = cx.fields(v.self)
        bsz = f["bsz"]
        nxt = v.stop - 2 - v._it0  # the position the next iteration fills
        done = And(nxt < K, K <= v.stop - 1)
        e = env_at(f, K)
        return {"envs-exist-exactly-on-(next, stop-1]": forall_sites(sel(f["e_has"], K) == done),
                "filled-environments: block [k,k+bsz), one _RIGHT for sites >= k+bsz, no _LEFT":
                    forall_sites(Implies(done, And(e.flo == K, e.fhi == K + bsz, e.nl == 0, e.nr == 1, e.rfr == K + bsz))),
                "envs-attribute-set": bool(f.get("envs_set"))}

    def inv_right(self, v):
        cx = v.cx
        f = cx.fields(v.self)
        bsz = f["bsz"]
        done = And(v.start <= K, K < v.i)
        e = env_at(f, K)
        return {"i-range": And(v.start + 1 <= v.i, v.i <= Max(v.stop, v.start + 1)),
                "envs-exist-exactly-on-[start, i)": forall_sites(sel(f["e_has"], K) == done),
                "filled-environments: block [k,k+bsz), one _LEFT for sites < k, no _RIGHT":
                    forall_sites(Implies(done, And(e.flo == K, e.fhi == K + bsz, e.nl == 1, e.lup == K, e.nr == 0))),
                "envs-attribute-set": bool(f.get("envs_set"))}

    @property
    def loops(self):
        right = Loop("for i in range(start + 1, stop)", self.inv_right)
        right.exact_last = True  # python semantics of the loop variable after the loop (read at `self.envs[i] |= ...`)
        return {0: Loop("for i in reversed(range(start, stop - 1))", self.inv_left), 1: right}

    def apply(self, cx, a, node, case=None):
        f = cx.fields(a.self)
        L, bsz = f["L"], f["bsz"]
        if a.begin not in ("left", "right"):
            raise PyRaise("ValueError", node.lineno)
        cx.oblige(f"call-pre@{node.lineno}:init_segment:whole-open-chain-segment (start == 0, stop == L-bsz+1, L >= bsz >= 1)",
                  "call-pre", And(a.start == 0, a.stop == L - bsz + 1, bsz >= 1, L >= bsz,
                                  f["cyclic"] is False and f["segmented"] is False), node.lineno)
        fresh_env_arrays(cx, a.self, "seg")
        f.update(tnc=TNV(1, 1), segment=RangeV(a.start, a.stop), envs_set=True, begin=f.get("begin", a.begin),
                 pos=cx.Int("pos_seg"))
        for c in me_inv(f, a.begin).values():
            cx.assume(c)
        cx.assume(f["pos"] == (0 if a.begin == "left" else L - bsz))
        return None

    def replay(self, model):
        return _replay_init_segment(model)


def _replay_init_segment(model):
    """native replay of the UnboundLocalError: open chain with L == bsz, begin='right'"""
    import warnings

    import quimb.tensor as qtn

    warnings.simplefilter("ignore")
    out = {}
    for L, cls in ((2, qtn.DMRG2), (1, qtn.DMRG1)):
        try:
            H = qtn.MPO_ham_heis(2) if L == 2 else None
            if H is None:
                continue
            d = cls(H, bond_dims=4)
            d.sweep_left()
            out[f"L={L}"] = "no exception"
        except Exception as e:  # noqa
            out[f"L={L}"] = f"{type(e).__name__}: {e}"
    rep = any(v.startswith("UnboundLocalError") for v in out.values())
    return dict(call="DMRG2(MPO_ham_heis(2), bond_dims=4).sweep_left()  ->  MovingEnvironment(tn, 'right', 2).init_segment('right', 0, 1)",
                observed=out, reproduced=rep)


@register
class MEInit(MEContract):
    """MovingEnvironment(tn, begin, bsz) on an open chain: the whole chain is one segment range(0, L-bsz+1) and
    init_segment is called with it; the object satisfies the class invariant afterwards"""

    target = f"{ME}.__init__"
    floor = 8

    def cases(self):
        return [NS(name=f"begin={b}", begin=b) for b in ("left", "right")]

    def inputs(self, cx, case):
        L, bsz = cx.Int("L"), cx.Int("bsz")
        tn = cx.new_obj("TN", L=L, site_tag_id=cx.Opaque("site_tag_id"))
        ref = cx.new_obj("ME")
        fresh_env_arrays(cx, ref)
        cx.ghost["self"] = ref
        cx.assume(And(bsz >= 1, L >= bsz))
        return dict(self=ref, tn=tn, begin=case.begin, bsz=bsz, cyclic=False, segment_callbacks=None,
                    ssz=cx.Real("ssz"), eps=cx.Real("eps"), method="isvd", max_bond=-1, norm=False)

    def call(self, cx, name, args, kwargs, node):
        if name == ".copy" and isinstance(args[0], Ref) and args[0].kind == "TN":
            return TNV()
        return super().call(cx, name, args, kwargs, node)

    def ensures(self, a, r, cx, case):
        f = cx.fields(a.self)
        t = cx.fields(a.tn)
        d = {"returns-None": r is None,
             "attributes-set": all(k in f for k in ("L", "bsz", "begin", "cyclic", "segmented", "pos", "segment")) and
             bool(f.get("envs_set"))}
        if not d["attributes-set"]:
            return d
        d["L-bsz-begin-taken-from-the-arguments"] = And(f["L"] == t["L"], f["bsz"] == a.bsz, f["begin"] == a.begin,
                                                        f["cyclic"] is False, f["segmented"] is False)
        d.update(me_inv(f, a.begin))
        d["pos-at-the-begin-side"] = f["pos"] == (0 if a.begin == "left" else t["L"] - a.bsz)
        return d

    def apply(self, cx, a, node, case=None):
        """constructor use: MovingEnvironment(tn, begin=..., bsz=..., cyclic=False, ...) -> new ME object"""
        t = cx.fields(a.tn)
        L, bsz = t["L"], a.bsz
        ok = a.begin in ("left", "right") and a.cyclic is False
        cx.oblige(f"call-pre@{node.lineno}:MovingEnvironment:open-boundary, begin in (left, right)", "call-pre", ok, node.lineno)
        if not ok:
            raise Unsupported("MovingEnvironment on a periodic system")
        cx.oblige(f"call-pre@{node.lineno}:MovingEnvironment:L >= bsz >= 1", "call-pre", And(bsz >= 1, L >= bsz), node.lineno)
        ref = new_me(cx, "ready", begin=a.begin, L=L, bsz=bsz, name="new")
        f = cx.fields(ref)
        f["envs_set"] = True
        for c in me_inv(f, a.begin).values():
            cx.assume(c)
        cx.assume(f["pos"] == (0 if a.begin == "left" else L - bsz))
        return ref


class Move(MEContract):
    floor = 10
    begin = None  # the begin side this move is compatible with (moving AWAY from it)
    step = 0

    def inputs(self, cx, case):
        return dict(self=me_case_inputs(cx, self.begin))

    def can_move(self, f, pos=None):
        pos = f["pos"] if pos is None else pos
        return And(0 <= pos + self.step, pos + self.step <= f["L"] - f["bsz"])

    @property
    def raises(self):
        return {"ValueError": lambda a: True}

    def ensures_raise(self, a, exc, cx, case):
        p = cx.pre(a.self)
        if exc == "ValueError":
            return {"raises-ValueError-only-when-the-move-leaves-[0,L-bsz]": Not(self.can_move(p))}
        return {f"no-raise-{exc}": False}

    def ensures(self, a, r, cx, case):
        f, p = cx.fields(a.self), cx.pre(a.self)
        d = {"returns-None": r is None, "the-move-stays-inside-[0,L-bsz]": self.can_move(p),
             "pos-moved-by-one": f["pos"] == p["pos"] + self.step}
        d.update(me_inv(f, self.begin))
        d["current-environment-complete: sites < pos on the left, >= pos+bsz on the right"] = \
            env_complete(env_at(f, f["pos"]), f["pos"], f["bsz"])
        d["frame: only envs[pos'] is written"] = envs_unchanged_except(f, p, p["pos"] + self.step)
        return d

    def modifies(self, a, case):
        return [(a.self, ["pos", "e_has"] + ["e_" + c for c in ENV_COMPONENTS])]

    def fresh_result(self, cx, a, case):
        return None

    def apply(self, cx, a, node, case=None):
        f = cx.fields(a.self)
        nm = self.target.split(".")[-1]
        oblige_structural(cx, f"call-pre@{node.lineno}:{nm}:environment was begun at the {self.begin} (moves away from the "
                          "begin side)", "call-pre", f.get("begin") == self.begin, node.lineno)
        cx.oblige(f"call-pre@{node.lineno}:{nm}:the move stays inside [0, L-bsz]", "call-pre", self.can_move(f), node.lineno)
        for lab, c in me_inv(f, self.begin).items():
            cx.oblige(f"call-pre@{node.lineno}:{nm}:class-invariant:{lab}", "call-pre", c, node.lineno)
        return super().apply(cx, a, node, case)


@register
class MoveRight(Move):
    """move_right on an environment begun at the left: pos' = pos+1 <= L-bsz, envs[pos'] receives the left environment of
    the sites < pos' (contracted from envs[pos].{_LEFT, site pos}) and is then complete"""

    target = f"{ME}.move_right"
    begin, step = "left", 1


@register
class MoveLeft(Move):
    target = f"{ME}.move_left"
    begin, step = "right", -1


@register
class MoveTo(MEContract):
    """move_to(i), 0 <= i <= L-bsz, away from the begin side: terminates with pos == i and a complete environment"""

    target = f"{ME}.move_to"
    floor = 12

    def cases(self):
        return [NS(name=f"begin={b}", begin=b) for b in ("left", "right")]

    def case_of_call(self, cx, a):
        return NS(name="call", begin=cx.fields(a.self)["begin"])

    def inputs(self, cx, case):
        ref = me_case_inputs(cx, case.begin)
        f = cx.fields(ref)
        i = cx.Int("i")
        cx.assume(self.pre(f, i, case.begin))
        return dict(self=ref, i=i)

    @staticmethod
    def pre(f, i, begin):
        return And(0 <= i, i <= f["L"] - f["bsz"], (i >= f["pos"]) if begin == "left" else (i <= f["pos"]))

    def inv(self, v):
        cx = v.cx
        f = cx.fields(v.self)
        p = cx.old_heap[v.self.oid]
        begin = v.case.begin
        d = dict(me_inv(f, begin))
        d["pos-between-start-and-target"] = And(p["pos"] <= f["pos"], f["pos"] <= v.i) if begin == "left" else \
            And(v.i <= f["pos"], f["pos"] <= p["pos"])
        # (when i == pos on entry the ternary picks "right" and the loop does not run)
        d["direction-away-from-begin"] = Or(v.direction == ("right" if begin == "left" else "left"), p["pos"] == v.i)
        return d

    @property
    def loops(self):
        return {0: Loop("while self.pos != i % self.L", self.inv,
                        decreases=lambda v: If(v.i >= v.cx.fields(v.self)["pos"], v.i - v.cx.fields(v.self)["pos"],
                                               v.cx.fields(v.self)["pos"] - v.i))}

    def ensures(self, a, r, cx, case):
        f = cx.fields(a.self)
        d = {"returns-None": r is None, "pos==i": f["pos"] == a.i}
        d.update(me_inv(f, case.begin))
        d["current-environment-complete: sites < i on the left, >= i+bsz on the right"] = \
            env_complete(env_at(f, f["pos"]), a.i, f["bsz"])
        return d

    def modifies(self, a, case):
        return [(a.self, ["pos", "e_has"] + ["e_" + c for c in ENV_COMPONENTS])]

    def fresh_result(self, cx, a, case):
        return None

    def apply(self, cx, a, node, case=None):
        f = cx.fields(a.self)
        begin = f["begin"]
        cx.oblige(f"call-pre@{node.lineno}:move_to:0 <= i <= L-bsz and i is not on the begin side of pos", "call-pre",
                  self.pre(f, a.i, begin), node.lineno)
        for lab, c in me_inv(f, begin).items():
            cx.oblige(f"call-pre@{node.lineno}:move_to:class-invariant:{lab}", "call-pre", c, node.lineno)
        return super().apply(cx, a, node, case)


@register
class MECall(MEContract):
    """ME(): the stored environment of the current position, built from exactly the sites < pos (left) and >= pos+bsz"""

    target = f"{ME}.__call__"
    floor = 3

    def cases(self):
        return [NS(name=f"begin={b}", begin=b) for b in ("left", "right")]

    def inputs(self, cx, case):
        ref = me_case_inputs(cx, case.begin)
        f = cx.fields(ref)
        # the environment of the current position has been completed (post-condition of init_segment / move_*)
        cx.assume(env_complete(env_at(f, f["pos"]), f["pos"], f["bsz"]))
        return dict(self=ref)

    def ensures(self, a, r, cx, case):
        f = cx.fields(a.self)
        if not isinstance(r, Env):
            return {"returns-an-environment": False}
        return {"environment-of-pos: free block [pos,pos+bsz), left = sites < pos, right = sites >= pos+bsz":
                env_complete(r, f["pos"], f["bsz"])}


MEContract.me_methods = {m: f"{ME}.{m}" for m in ("init_segment", "init_non_segment", "move_right", "move_left", "move_to")}
