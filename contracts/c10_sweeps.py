"""C10 / C09 / C12 -- sweep discipline: DMRG moving environments, sweep order and gauge, bond schedule (tn1d/dmrg.py);
bond-cap threading and promised canonical form of the 1D compression sweeps (tn1d/core.py); interleaved boundary
bookkeeping of the 2D boundary contraction (tn2d/core.py).

Tensor contractions are OPAQUE.  What is tracked:

* MovingEnvironment (open boundary): every stored environment ``envs[k]`` is abstracted to the tuple
  (flo, fhi, nl, lup, nr, rfr): the uncontracted site block [flo, fhi), the number nl of ``_LEFT`` tensors and the sites
  [0, lup) such a tensor stands for, the number nr of ``_RIGHT`` tensors and the sites [rfr, L) it stands for.  The
  operations ``|`` (add a site / an end piece), ``^ (end tag, site tag)`` (contract the end tensor with the adjacent
  free site) carry adjacency obligations; reading ``envs[k]`` carries the obligation that the key exists.
* DMRG: mpsghost of C08 (isL / isR per site of the ket ``_k``), ghost visit log (step number -> position), ghost
  ``capd`` (bond k was last written by a split that received the sweep's max_bond), iterators as heap objects with a
  ghost counter (item k of chain(bds, repeat(bds[-1]))).
* 1D compress: mpsghost + ghost ``capd`` (bond (k,k+1) <= the caller's max_bond).

Registration order: contracts.c09_labels is imported FIRST so that, for the two DMRG methods that carry a label-calculus
contract there (DMRG._update_local_state_1site / _2site), the short function suffixes used by selftest/mutants_labels.py
keep resolving to the label contracts; the mpsghost contracts of the same two functions are registered here under the
names DMRG1._update_local_state_1site / DMRG2._update_local_state_2site (the classes that inherit and run them).
"""

import ast

import z3

import contracts.c09_labels  # noqa: F401  (registration order, see above)
import contracts.c08_mps as c08
import contracts.c11_tebd as c11
from vf.pyvc import (And, Contract, I, If, Implies, Loop, Max, Min, NS, Not, Opaque, Or, PathEnd, PyRaise, R, Ref, StarArg,
                     Unsupported, Z, has_quantifier, is_int, is_z3, register, REGISTRY, assigned_names, load_function, num_cmp)

DM = "quimb/tensor/tn1d/dmrg.py"
T1 = "quimb/tensor/tn1d/core.py"
T2 = "quimb/tensor/tn2d/core.py"
ME = f"{DM}::MovingEnvironment"
K = c08.K
sel = c08.sel
forall_sites = c08.forall_sites
Seq = c11.Seq
IntS, BoolS = z3.IntSort(), z3.BoolSort()


# ======================================================================================================
# MovingEnvironment (open boundary)
# ======================================================================================================

ENV_COMPONENTS = ("flo", "fhi", "nl", "lup", "nr", "rfr")


class Env:
    """abstract environment network: free sites [flo, fhi), nl _LEFT tensors standing for sites [0, lup), nr _RIGHT
    tensors standing for sites [rfr, L)"""

    def __init__(self, flo, fhi, nl, lup, nr, rfr):
        self.flo, self.fhi, self.nl, self.lup, self.nr, self.rfr = flo, fhi, nl, lup, nr, rfr

    def with_(self, **kw):
        d = {c: getattr(self, c) for c in ENV_COMPONENTS}
        d.update(kw)
        return Env(**d)


def env_complete(e, pos, bsz):
    """the environment of position pos: exactly the sites < pos on the left, >= pos+bsz on the right"""
    return And(e.flo == pos, e.fhi == pos + bsz, e.nl == 1, e.lup == pos, e.nr == 1, e.rfr == pos + bsz)


class SiteTag:
    def __init__(self, i):
        self.i = i


class SitePiece:
    """tnc.select(i): the tensors of site i"""

    def __init__(self, i):
        self.i = i


class EndPiece:
    """a single _LEFT tensor standing for sites [0, cover) / a single _RIGHT tensor standing for sites [cover, L)"""

    def __init__(self, side, cover):
        self.side, self.cover = side, cover


class EndTensor:
    """Tensor(tags='_LEFT' | '_RIGHT'): the scalar dummy end piece"""

    def __init__(self, tag):
        self.tag = tag


class TNV:
    """the (virtual copy of the) overlap network: all sites + nL dummy _LEFT + nR dummy _RIGHT tensors"""

    def __init__(self, nL=0, nR=0):
        self.nL, self.nR = nL, nR


class Selection:
    """env.select([end tag, site tag], which='any')"""

    def __init__(self, env, side, site):
        self.env, self.side, self.site = env, side, site


class RangeV:
    def __init__(self, start, stop):
        self.start, self.stop = start, stop


class EnvsHandle:
    def __init__(self, me):
        self.me = me


class EnvMapInit:
    """{key: env}: the value of the dict display that initialises ``self.envs``"""

    def __init__(self, key, env):
        self.key, self.env = key, env


class BoundMethod:
    def __init__(self, recv, name):
        self.recv, self.name = recv, name


ALL = "<builtin all>"


def new_me(cx, stage, begin=None, L=None, bsz=None, name="me"):
    """a MovingEnvironment heap object.  stage 'raw': nothing set (entry of __init__); 'pre-seg': the attributes __init__
    sets before init_segment; 'ready': after init_segment (class invariant assumed by the caller)"""
    fields = {}
    if stage != "raw":
        L = L if L is not None else cx.Int("L")
        bsz = bsz if bsz is not None else cx.Int("bsz")
        fields.update(L=L, bsz=bsz, cyclic=False, segmented=False, begin=begin, tn=TNV(), segment_callbacks=None,
                      _site_tag_id=cx.Opaque("site_tag_id"))
    if stage == "ready":
        fields.update(tnc=TNV(1, 1), pos=cx.Int(f"pos_{name}"), segment=RangeV(0, L - bsz + 1))
    ref = cx.new_obj("ME", **fields)
    fresh_env_arrays(cx, ref, name)
    return ref


def fresh_env_arrays(cx, ref, name="me"):
    f = cx.fields(ref)
    f["e_has"] = cx.Array(f"e_has_{name}", IntS, BoolS)
    for c in ENV_COMPONENTS:
        f["e_" + c] = cx.Array(f"e_{c}_{name}", IntS, IntS)


def env_at(f, k):
    return Env(*[sel(f["e_" + c], k) for c in ENV_COMPONENTS])


def me_inv(f, begin, pos=None):
    """class invariant of an open-boundary MovingEnvironment begun at ``begin`` (dict label -> formula)"""
    L, bsz = f["L"], f["bsz"]
    pos = f["pos"] if pos is None else pos
    last = L - bsz
    inr = And(0 <= K, K <= last)
    e = env_at(f, K)
    seg = f.get("segment")
    d = {"segment-is-[0,L-bsz]": And(seg.start == 0, seg.stop == last + 1) if isinstance(seg, RangeV) else False,
         "0<=pos<=L-bsz": And(0 <= pos, pos <= last),
         "envs-exist-exactly-on-[0,L-bsz]": forall_sites(sel(f["e_has"], K) == inr),
         "free-block-of-envs[k]-is-[k,k+bsz)": forall_sites(Implies(inr, And(e.flo == K, e.fhi == K + bsz)))}
    if begin == "left":
        d["right-environments-prepared: envs[k] has one _RIGHT for sites >= k+bsz"] = \
            forall_sites(Implies(inr, And(e.nr == 1, e.rfr == K + bsz)))
        d["left-environments-up-to-pos: one _LEFT for sites < k (k <= pos), none beyond"] = \
            forall_sites(Implies(inr, If(K <= pos, And(e.nl == 1, e.lup == K), e.nl == 0)))
    else:
        d["left-environments-prepared: envs[k] has one _LEFT for sites < k"] = \
            forall_sites(Implies(inr, And(e.nl == 1, e.lup == K)))
        d["right-environments-from-pos: one _RIGHT for sites >= k+bsz (k >= pos), none before"] = \
            forall_sites(Implies(inr, If(K >= pos, And(e.nr == 1, e.rfr == K + bsz), e.nr == 0)))
    return d


def envs_unchanged_except(f, p, k0):
    return forall_sites(Implies(K != k0, And(sel(f["e_has"], K) == sel(p["e_has"], K),
                                             *[sel(f["e_" + c], K) == sel(p["e_" + c], K) for c in ENV_COMPONENTS])))


def oblige_structural(cx, label, kind, ok, line):
    """a python-level (structural) condition.  When it is violated the obligation is emitted WITHOUT the quantified part of
    the path condition (fewer assumptions: sound), so that it is decided `failed` with a model instead of `unknown`"""
    if ok:
        cx.oblige(label, kind, True, line)
        return
    saved = cx.pc
    cx.pc = [a for a in saved if not has_quantifier(Z(a))]
    try:
        cx.oblige(label, kind, False, line)
    finally:
        cx.pc = saved


class MEContract(c11.SeqMixin, Contract):
    """shared modelling of MovingEnvironment objects"""

    property_ids = ("C10",)
    nonlinear_hooks = True
    drops = "decorators, docstrings, ascii-art comments"
    me_methods = {}

    # ---- heap havoc at loop heads: every environment array (and the position) of every ME object
    def havoc_heap(self, cx):
        for oid, f in cx.heap.items():
            if "e_has" in f:
                fresh_env_arrays(cx, Ref(oid, "ME"), "hv")
                if "pos" in f:
                    f["pos"] = cx.Int("pos_hv")
        self.havoc_more(cx)

    def havoc_more(self, cx):
        pass

    def locals_of(self, cx):
        if "_assigned" not in cx.ghost:
            cx.ghost["_assigned"] = assigned_names(cx.fn_node.body)
        return cx.ghost["_assigned"]

    def attr(self, cx, base, attr, node):
        if base is None:
            if attr == "all":
                return ALL
            if attr in self.locals_of(cx):
                # a local variable that is read before any assignment on this path
                raise PyRaise("UnboundLocalError", getattr(node, "lineno", 0))
            return NotImplemented
        if isinstance(base, Ref) and base.kind == "ME":
            f = cx.fields(base)
            if attr == "envs":
                if not f.get("envs_set"):
                    raise PyRaise("AttributeError", getattr(node, "lineno", 0))
                return EnvsHandle(base)
            if attr in self.me_methods or attr == "site_tag":
                return BoundMethod(base, attr)
            if attr in ("_ssz", "eps", "method", "max_bond", "norm", "bond_sizes") or attr not in f:
                raise PyRaise("AttributeError", getattr(node, "lineno", 0))  # only set on periodic systems
        if isinstance(base, RangeV) and attr in ("start", "stop"):
            return getattr(base, attr)
        if isinstance(base, TNV) and attr == "dtype":
            return cx.Opaque("dtype")
        if isinstance(base, Ref) and base.kind == "TN":
            f = cx.fields(base)
            if attr in f:
                return f[attr]
        return NotImplemented

    def site_index(self, cx, me, i, node, what):
        """obligation: a site index handed to the network lies on the chain"""
        L = cx.fields(me)["L"]
        cx.oblige(f"site-index@{node.lineno}:{what}: 0 <= site < L", "index", And(0 <= i, i < L), node.lineno)

    def call(self, cx, name, args, kwargs, node):
        line = getattr(node, "lineno", 0)
        if name == "__nldivmod__":
            a, b = args
            q, r = cx.Int("q"), cx.Int("r")
            # definitional facts of python floor division for a positive divisor (exact where they apply)
            cx.assume(Implies(b > 0, And(0 <= r, r < b)))
            cx.assume(Implies(And(b > 0, 0 <= a, a < b), And(q == 0, r == a)))
            cx.assume(Implies(And(b > 0, b <= a, a < 2 * b), And(q == 1, r == a - b)))
            cx.assume(Implies(And(b > 0, -b <= a, a < 0), And(q == -1, r == a + b)))
            return q, r
        if name == "__binop__":
            r = self.env_binop(cx, args[0], args[1], args[2], node)
            if r is not NotImplemented:
                return r
        r = self.seq_hooks(cx, name, args, kwargs, node)
        if r is not NotImplemented:
            return r
        if name == "__contains__" and isinstance(args[0], RangeV):
            rg, x = args
            return And(rg.start <= x, x < rg.stop)
        if name == "__setattr__" and isinstance(args[0], Ref) and args[0].kind == "ME":
            ref, attr, val = args
            f = cx.fields(ref)
            if attr == "envs":
                if not isinstance(val, EnvMapInit):
                    raise Unsupported("envs assigned something that is not a one-entry dict display")
                f["e_has"] = z3.Store(z3.K(IntS, z3.BoolVal(False)), val.key, True)
                for c in ENV_COMPONENTS:
                    f["e_" + c] = z3.Store(f["e_" + c], val.key, getattr(val.env, c))
                f["envs_set"] = True
                return None
            if attr == "segment":
                if not (isinstance(val, tuple) and val and val[0] == "range" and len(val) == 3):
                    if isinstance(val, range):
                        val = ("range", val.start, val.stop)
                    else:
                        raise Unsupported("segment is not a range(start, stop)")
                f["segment"] = RangeV(val[1], val[2])
                return None
            f[attr] = val
            return None
        if name == "__getitem__" and isinstance(args[0], EnvsHandle):
            f = cx.fields(args[0].me)
            k = args[1]
            cx.oblige(f"envs-key-exists@{line}: envs[k] is read only where it was stored", "index", sel(f["e_has"], k), line)
            return env_at(f, k)
        if name == "__setitem__" and isinstance(args[0], EnvsHandle):
            f = cx.fields(args[0].me)
            k, val = args[1], args[2]
            if not isinstance(val, Env):
                raise Unsupported("non-environment stored in envs")
            f["e_has"] = z3.Store(f["e_has"], k, True)
            for c in ENV_COMPONENTS:
                f["e_" + c] = z3.Store(f["e_" + c], k, getattr(val, c))
            return None
        if name == "__getitem__" and isinstance(args[0], TNV) and args[1] in ("_LEFT", "_RIGHT"):
            tnc, tag = args
            n = tnc.nL if tag == "_LEFT" else tnc.nR
            cx.oblige(f"end-piece@{line}: the network holds exactly one {tag} tensor", "call-pre", n == 1, line)
            me = cx.ghost["self"]
            return EndPiece("L" if tag == "_LEFT" else "R", 0 if tag == "_LEFT" else cx.fields(me)["L"])
        if name == ".select" and isinstance(args[0], TNV):
            i = args[1]
            if not is_int(i):
                raise Unsupported("tnc.select of a non-site")
            self.site_index(cx, cx.ghost["self"], i, node, "tnc.select(site)")
            return SitePiece(i)
        if name == ".select_any" and isinstance(args[0], TNV):
            return self.select_any(cx, args[0], args[1], node)
        if name == ".select" and isinstance(args[0], Env):
            tags = args[1]
            ok = isinstance(tags, (list, tuple)) and len(tags) == 2 and tags[0] in ("_LEFT", "_RIGHT") and \
                isinstance(tags[1], SiteTag) and kwargs.get("which") == "any"
            cx.oblige(f"select@{line}: [end tag, site tag] with which='any'", "call-arg", ok, line)
            if not ok:
                raise Unsupported("env.select call shape")
            return Selection(args[0], "L" if tags[0] == "_LEFT" else "R", tags[1].i)
        if name == ".copy" and isinstance(args[0], (Env, TNV)):
            return args[0]  # (virtual) copy: the same abstract content
        if name == "Tensor" and kwargs.get("tags") in ("_LEFT", "_RIGHT") and not args:
            return EndTensor(kwargs["tags"])
        if name == ".astype" and isinstance(args[0], EndTensor):
            return args[0]
        if name == ".format" and isinstance(args[0], Opaque) and len(args) == 2 and is_int(args[1]):
            return SiteTag(args[1])  # [leaf] site_tag_id.format(j): the tag of site j
        if name == "callable":
            return args[0] is not None
        # bound methods of the environment object: self.m(...), and {"left": self.move_left, ...}[d]()
        fv = None
        if isinstance(node, ast.Call) and isinstance(node.func, ast.Subscript):
            fv = cx.ev(node.func)
        elif name.startswith(".") and isinstance(args[0], Ref) and args[0].kind == "ME" and isinstance(node, ast.Call):
            fv, args = BoundMethod(args[0], name[1:]), args[1:]
        if isinstance(fv, BoundMethod):
            return self.call_bound(cx, fv, args, kwargs, node)
        return NotImplemented

    def call_bound(self, cx, bm, args, kwargs, node):
        if isinstance(bm.recv, Ref) and bm.recv.kind == "ME":
            tgt = f"{ME}.{bm.name}"
            if tgt in REGISTRY:
                return cx.call_contract(REGISTRY[tgt], list(args), kwargs, node, recv=bm.recv)
        raise Unsupported(f"call of bound method {bm.name}")

    def on_dict(self, cx, n):
        if len(n.keys) == 1 and n.keys[0] is not None:
            k = cx.ev(n.keys[0])
            v = cx.ev(n.values[0])
            if isinstance(v, Env) and is_int(k):
                return EnvMapInit(k, v)
            if is_z3(k):
                raise Unsupported("symbolic dict key")
            return {k: v}
        return NotImplemented

    # ---- environment algebra -----------------------------------------------------------------------
    def select_any(self, cx, tnc, tags, node):
        """tnc.select_any([end tag] + [site_tag(s0 + b) for b in range(bsz)]): the initial environment: the dummy end
        piece and the contiguous block of bsz free sites"""
        line = node.lineno
        me = cx.ghost["self"]
        L = cx.fields(me)["L"]
        parts = Seq.of(tags).parts
        ok = len(parts) == 2 and parts[0][0] == "lit" and len(parts[0][1]) == 1 and parts[0][1][0] in ("_LEFT", "_RIGHT")
        cx.oblige(f"select_any@{line}: one end tag followed by the site tags of the block", "call-arg", ok, line)
        if not ok:
            raise Unsupported("select_any call shape")
        end = parts[0][1][0]
        if parts[1][0] == "lit":
            sites = [t.i for t in parts[1][1]]
            n, s0 = len(sites), sites[0]
            contiguous = And(*[s == s0 + j for j, s in enumerate(sites)])
        else:
            n, getter = parts[1][1], parts[1][2]
            b = cx.Int("b!tag")  # skolem position in the block
            cx.assume(And(0 <= b, b < n))
            tb = getter(b)
            if not isinstance(tb, SiteTag):
                raise Unsupported("select_any: non-site tag in the block")
            s0 = z3.simplify(z3.substitute(Z(tb.i), (b, z3.IntVal(0))))
            contiguous = Z(tb.i) == s0 + b
        cx.oblige(f"select_any@{line}: the tagged sites form the contiguous block [s0, s0+n)", "call-arg", contiguous, line)
        cx.oblige(f"select_any@{line}: the network holds exactly one {end} tensor", "call-pre",
                  (tnc.nL if end == "_LEFT" else tnc.nR) == 1, line)
        if end == "_RIGHT":
            return Env(s0, s0 + n, 0, 0, 1, L)  # dummy _RIGHT: stands for no site (sites >= L)
        return Env(s0, s0 + n, 1, 0, 0, L)  # dummy _LEFT: stands for no site (sites < 0)

    def env_binop(self, cx, op, a, b, node):
        line = getattr(node, "lineno", 0)
        if op == "Add" and isinstance(a, (list, tuple)) and isinstance(b, Seq):
            return Seq([("lit", list(a))] + b.parts)
        if op == "BitOr" and isinstance(a, TNV) and isinstance(b, EndTensor):
            return TNV(a.nL + (b.tag == "_LEFT"), a.nR + (b.tag == "_RIGHT"))
        if op == "BitOr" and isinstance(a, Env) and isinstance(b, SitePiece):
            cx.oblige(f"env-add@{line}: the added site is adjacent to the free block", "adjacent",
                      Or(b.i == a.flo - 1, b.i == a.fhi), line)
            return a.with_(flo=If(b.i == a.flo - 1, a.flo - 1, a.flo), fhi=If(b.i == a.fhi, a.fhi + 1, a.fhi))
        if op == "BitOr" and isinstance(a, Env) and isinstance(b, EndPiece):
            if b.side == "L":
                cx.oblige(f"env-add@{line}: no second _LEFT environment, and it stands for exactly the sites left of the block",
                          "adjacent", And(a.nl == 0, b.cover == a.flo), line)
                return a.with_(nl=a.nl + 1, lup=b.cover)
            cx.oblige(f"env-add@{line}: no second _RIGHT environment, and it stands for exactly the sites right of the block",
                      "adjacent", And(a.nr == 0, b.cover == a.fhi), line)
            return a.with_(nr=a.nr + 1, rfr=b.cover)
        if op == "BitXor" and isinstance(a, Env) and isinstance(b, tuple) and len(b) == 2 and b[0] in ("_LEFT", "_RIGHT") \
                and isinstance(b[1], SiteTag):
            j = b[1].i
            if b[0] == "_RIGHT":
                cx.oblige(f"env-contract@{line}: _RIGHT is contracted with the adjacent (last free) site", "adjacent",
                          And(a.nr == 1, a.rfr == a.fhi, j == a.fhi - 1, a.fhi - a.flo >= 2), line)
                return a.with_(fhi=a.fhi - 1, rfr=a.fhi - 1)
            cx.oblige(f"env-contract@{line}: _LEFT is contracted with the adjacent (first free) site", "adjacent",
                      And(a.nl == 1, a.lup == a.flo, j == a.flo, a.fhi - a.flo >= 2), line)
            return a.with_(flo=a.flo + 1, lup=a.flo + 1)
        if op == "BitXor" and isinstance(a, Selection) and b is ALL:
            e = a.env
            if a.side == "L":
                cx.oblige(f"env-contract@{line}: the selected _LEFT and site are adjacent: new left environment of sites <= site",
                          "adjacent", And(e.nl == 1, e.lup == a.site, e.flo == a.site), line)
                return EndPiece("L", a.site + 1)
            cx.oblige(f"env-contract@{line}: the selected _RIGHT and site are adjacent: new right environment of sites >= site",
                      "adjacent", And(e.nr == 1, e.rfr == a.site + 1, e.fhi == a.site + 1), line)
            return EndPiece("R", a.site)
        return NotImplemented


def me_case_inputs(cx, begin, stage="ready"):
    ref = new_me(cx, stage, begin=begin)
    cx.ghost["self"] = ref
    f = cx.fields(ref)
    cx.assume(And(f["bsz"] >= 1, f["L"] >= f["bsz"]))
    if stage == "ready":
        f["envs_set"] = True
        for c in me_inv(f, begin).values():
            cx.assume(c)
    return ref


@register
class SiteTagC(MEContract):
    """site_tag(i) = site_tag_id.format(i mod L): for a site on the chain the tag of that site"""

    target = f"{ME}.site_tag"
    floor = 1

    def inputs(self, cx, case):
        ref = me_case_inputs(cx, "left", "pre-seg")
        i = cx.Int("i")
        cx.assume(And(0 <= i, i < cx.fields(ref)["L"]))
        return dict(self=ref, i=i)

    def ensures(self, a, r, cx, case):
        return {"tag-of-site-i": And(isinstance(r, SiteTag), r.i == a.i) if isinstance(r, SiteTag) else False}

    def apply(self, cx, a, node, case=None):
        self.site_index(cx, a.self, a.i, node, "site_tag(site)")
        return SiteTag(a.i)


@register
class InitNonSegment(MEContract):
    """open boundary: the working copy gets exactly one dummy _LEFT and one dummy _RIGHT tensor"""

    target = f"{ME}.init_non_segment"
    floor = 2

    def inputs(self, cx, case):
        ref = me_case_inputs(cx, "left", "pre-seg")
        return dict(self=ref, start=cx.Int("start"), stop=cx.Int("stop"))

    def ensures(self, a, r, cx, case):
        f = cx.fields(a.self)
        t = f.get("tnc")
        return {"returns-None": r is None,
                "working-copy-has-one-_LEFT-and-one-_RIGHT-dummy": isinstance(t, TNV) and t.nL == 1 and t.nR == 1}

    def apply(self, cx, a, node, case=None):
        f = cx.fields(a.self)
        cx.oblige(f"call-pre@{node.lineno}:init_non_segment:open-boundary", "call-pre",
                  f["cyclic"] is False and f["segmented"] is False, node.lineno)
        f["tnc"] = TNV(1, 1)
        return None


@register
class InitSegment(MEContract):
    """init_segment(begin, 0, L-bsz+1) on an open chain establishes the class invariant: envs[k] exists exactly for
    0 <= k <= L-bsz with free block [k, k+bsz); begin='left': every envs[k] carries the right environment of the sites
    >= k+bsz, envs[0] the (empty) left environment, pos = 0; begin='right': mirror image, pos = L-bsz.
    Regression guard for finding C10-d (fixed in /repo): begin='right' with L == bsz used to read the loop variable after an
    empty loop (`self.envs[i] |= ...`): with Loop.exact_last the read of an unbound local is the failed obligation
    raise@L:no-raise-UnboundLocalError (natively replayed by `replay`)."""

    target = f"{ME}.init_segment"
    floor = 20

    def cases(self):
        return [NS(name=f"begin={b}", begin=b) for b in ("left", "right", "other")]

    def inputs(self, cx, case):
        ref = me_case_inputs(cx, case.begin, "pre-seg")
        f = cx.fields(ref)
        start, stop = cx.Int("start"), cx.Int("stop")
        cx.assume(And(start == 0, stop == f["L"] - f["bsz"] + 1))
        return dict(self=ref, begin=case.begin, start=start, stop=stop)

    raises = {"ValueError": lambda a: a.begin not in ("left", "right")}

    def ensures(self, a, r, cx, case):
        f = cx.fields(a.self)
        if a.begin not in ("left", "right"):
            return {"must-raise-for-an-unknown-begin": False}
        d = {"returns-None": r is None, "envs-and-pos-set": bool(f.get("envs_set")) and "pos" in f}
        if not d["envs-and-pos-set"]:
            return d
        d.update(me_inv(f, a.begin))
        d["pos-at-the-begin-side"] = f["pos"] == (0 if a.begin == "left" else f["L"] - f["bsz"])
        d["current-environment-complete"] = env_complete(env_at(f, f["pos"]), f["pos"], f["bsz"])
        return d

    def inv_left(self, v):
        cx = v.cx
        f = cx.fields(v.self)
        bsz = f["bsz"]
        nxt = v.stop - 2 - v._it0  # the position the next iteration fills
        done = And(nxt < K, K <= v.stop - 1)
        e = env_at(f, K)
        return {"envs-exist-exactly-on-(next, stop-1]": forall_sites(sel(f["e_has"], K) == done),
                "filled-environments: block [k,k+bsz), one _RIGHT for sites >= k+bsz, no _LEFT":
                    forall_sites(Implies(done, And(e.flo == K, e.fhi == K + bsz, e.nl == 0, e.nr == 1, e.rfr == K + bsz))),
                "envs-attribute-set": bool(f.get("envs_set"))}

    def inv_right(self, v):
        cx = v.cx
        f = cx.fields(v.self)
        bsz = f["bsz"]
        done = And(v.start <= K, K < v.i)
        e = env_at(f, K)
        return {"i-range": And(v.start + 1 <= v.i, v.i <= Max(v.stop, v.start + 1)),
                "envs-exist-exactly-on-[start, i)": forall_sites(sel(f["e_has"], K) == done),
                "filled-environments: block [k,k+bsz), one _LEFT for sites < k, no _RIGHT":
                    forall_sites(Implies(done, And(e.flo == K, e.fhi == K + bsz, e.nl == 1, e.lup == K, e.nr == 0))),
                "envs-attribute-set": bool(f.get("envs_set"))}

    @property
    def loops(self):
        right = Loop("for i in range(start + 1, stop)", self.inv_right)
        right.exact_last = True  # python semantics of the loop variable after the loop (a read of `i` there is exact)
        return {0: Loop("for i in reversed(range(start, stop - 1))", self.inv_left), 1: right}

    def apply(self, cx, a, node, case=None):
        f = cx.fields(a.self)
        L, bsz = f["L"], f["bsz"]
        if a.begin not in ("left", "right"):
            raise PyRaise("ValueError", node.lineno)
        cx.oblige(f"call-pre@{node.lineno}:init_segment:whole-open-chain-segment (start == 0, stop == L-bsz+1, L >= bsz >= 1)",
                  "call-pre", And(a.start == 0, a.stop == L - bsz + 1, bsz >= 1, L >= bsz,
                                  f["cyclic"] is False and f["segmented"] is False), node.lineno)
        fresh_env_arrays(cx, a.self, "seg")
        f.update(tnc=TNV(1, 1), segment=RangeV(a.start, a.stop), envs_set=True, begin=f.get("begin", a.begin),
                 pos=cx.Int("pos_seg"))
        for c in me_inv(f, a.begin).values():
            cx.assume(c)
        cx.assume(f["pos"] == (0 if a.begin == "left" else L - bsz))
        return None

    def replay(self, model):
        return _replay_init_segment(model)


def _replay_init_segment(model):
    """native replay of the UnboundLocalError: open chain with L == bsz, begin='right'"""
    import warnings

    import quimb.tensor as qtn

    warnings.simplefilter("ignore")
    out = {}
    for L, cls in ((2, qtn.DMRG2), (1, qtn.DMRG1)):
        try:
            H = qtn.MPO_ham_heis(2) if L == 2 else None
            if H is None:
                continue
            d = cls(H, bond_dims=4)
            d.sweep_left()
            out[f"L={L}"] = "no exception"
        except Exception as e:  # noqa
            out[f"L={L}"] = f"{type(e).__name__}: {e}"
    rep = any(v.startswith("UnboundLocalError") for v in out.values())
    return dict(call="DMRG2(MPO_ham_heis(2), bond_dims=4).sweep_left()  ->  MovingEnvironment(tn, 'right', 2).init_segment('right', 0, 1)",
                observed=out, reproduced=rep)


@register
class MEInit(MEContract):
    """MovingEnvironment(tn, begin, bsz) on an open chain: the whole chain is one segment range(0, L-bsz+1) and
    init_segment is called with it; the object satisfies the class invariant afterwards"""

    target = f"{ME}.__init__"
    floor = 8

    def cases(self):
        return [NS(name=f"begin={b}", begin=b) for b in ("left", "right")]

    def inputs(self, cx, case):
        L, bsz = cx.Int("L"), cx.Int("bsz")
        tn = cx.new_obj("TN", L=L, site_tag_id=cx.Opaque("site_tag_id"))
        ref = cx.new_obj("ME")
        fresh_env_arrays(cx, ref)
        cx.ghost["self"] = ref
        cx.assume(And(bsz >= 1, L >= bsz))
        return dict(self=ref, tn=tn, begin=case.begin, bsz=bsz, cyclic=False, segment_callbacks=None,
                    ssz=cx.Real("ssz"), eps=cx.Real("eps"), method="isvd", max_bond=-1, norm=False)

    def call(self, cx, name, args, kwargs, node):
        if name == ".copy" and isinstance(args[0], Ref) and args[0].kind == "TN":
            return TNV()
        return super().call(cx, name, args, kwargs, node)

    def ensures(self, a, r, cx, case):
        f = cx.fields(a.self)
        t = cx.fields(a.tn)
        d = {"returns-None": r is None,
             "attributes-set": all(k in f for k in ("L", "bsz", "begin", "cyclic", "segmented", "pos", "segment")) and
             bool(f.get("envs_set"))}
        if not d["attributes-set"]:
            return d
        d["L-bsz-begin-taken-from-the-arguments"] = And(f["L"] == t["L"], f["bsz"] == a.bsz, f["begin"] == a.begin,
                                                        f["cyclic"] is False, f["segmented"] is False)
        d.update(me_inv(f, a.begin))
        d["pos-at-the-begin-side"] = f["pos"] == (0 if a.begin == "left" else t["L"] - a.bsz)
        return d

    def apply(self, cx, a, node, case=None):
        """constructor use: MovingEnvironment(tn, begin=..., bsz=..., cyclic=False, ...) -> new ME object"""
        t = cx.fields(a.tn)
        L, bsz = t["L"], a.bsz
        ok = a.begin in ("left", "right") and a.cyclic is False
        cx.oblige(f"call-pre@{node.lineno}:MovingEnvironment:open-boundary, begin in (left, right)", "call-pre", ok, node.lineno)
        if not ok:
            raise Unsupported("MovingEnvironment on a periodic system")
        cx.oblige(f"call-pre@{node.lineno}:MovingEnvironment:L >= bsz >= 1", "call-pre", And(bsz >= 1, L >= bsz), node.lineno)
        ref = new_me(cx, "ready", begin=a.begin, L=L, bsz=bsz, name="new")
        f = cx.fields(ref)
        f["envs_set"] = True
        for c in me_inv(f, a.begin).values():
            cx.assume(c)
        cx.assume(f["pos"] == (0 if a.begin == "left" else L - bsz))
        return ref


class Move(MEContract):
    floor = 10
    begin = None  # the begin side this move is compatible with (moving AWAY from it)
    step = 0

    def inputs(self, cx, case):
        return dict(self=me_case_inputs(cx, self.begin))

    def can_move(self, f, pos=None):
        pos = f["pos"] if pos is None else pos
        return And(0 <= pos + self.step, pos + self.step <= f["L"] - f["bsz"])

    @property
    def raises(self):
        return {"ValueError": lambda a: True}

    def ensures_raise(self, a, exc, cx, case):
        p = cx.pre(a.self)
        if exc == "ValueError":
            return {"raises-ValueError-only-when-the-move-leaves-[0,L-bsz]": Not(self.can_move(p))}
        return {f"no-raise-{exc}": False}

    def ensures(self, a, r, cx, case):
        f, p = cx.fields(a.self), cx.pre(a.self)
        d = {"returns-None": r is None, "the-move-stays-inside-[0,L-bsz]": self.can_move(p),
             "pos-moved-by-one": f["pos"] == p["pos"] + self.step}
        d.update(me_inv(f, self.begin))
        d["current-environment-complete: sites < pos on the left, >= pos+bsz on the right"] = \
            env_complete(env_at(f, f["pos"]), f["pos"], f["bsz"])
        d["frame: only envs[pos'] is written"] = envs_unchanged_except(f, p, p["pos"] + self.step)
        return d

    def modifies(self, a, case):
        return [(a.self, ["pos", "e_has"] + ["e_" + c for c in ENV_COMPONENTS])]

    def fresh_result(self, cx, a, case):
        return None

    def apply(self, cx, a, node, case=None):
        f = cx.fields(a.self)
        nm = self.target.split(".")[-1]
        oblige_structural(cx, f"call-pre@{node.lineno}:{nm}:environment was begun at the {self.begin} (moves away from the "
                          "begin side)", "call-pre", f.get("begin") == self.begin, node.lineno)
        cx.oblige(f"call-pre@{node.lineno}:{nm}:the move stays inside [0, L-bsz]", "call-pre", self.can_move(f), node.lineno)
        for lab, c in me_inv(f, self.begin).items():
            cx.oblige(f"call-pre@{node.lineno}:{nm}:class-invariant:{lab}", "call-pre", c, node.lineno)
        return super().apply(cx, a, node, case)


@register
class MoveRight(Move):
    """move_right on an environment begun at the left: pos' = pos+1 <= L-bsz, envs[pos'] receives the left environment of
    the sites < pos' (contracted from envs[pos].{_LEFT, site pos}) and is then complete"""

    target = f"{ME}.move_right"
    begin, step = "left", 1


@register
class MoveLeft(Move):
    target = f"{ME}.move_left"
    begin, step = "right", -1


@register
class MoveTo(MEContract):
    """move_to(i), 0 <= i <= L-bsz, away from the begin side: terminates with pos == i and a complete environment"""

    target = f"{ME}.move_to"
    floor = 12

    def cases(self):
        return [NS(name=f"begin={b}", begin=b) for b in ("left", "right")]

    def case_of_call(self, cx, a):
        return NS(name="call", begin=cx.fields(a.self)["begin"])

    def inputs(self, cx, case):
        ref = me_case_inputs(cx, case.begin)
        f = cx.fields(ref)
        i = cx.Int("i")
        cx.assume(self.pre(f, i, case.begin))
        return dict(self=ref, i=i)

    @staticmethod
    def pre(f, i, begin):
        return And(0 <= i, i <= f["L"] - f["bsz"], (i >= f["pos"]) if begin == "left" else (i <= f["pos"]))

    def inv(self, v):
        cx = v.cx
        f = cx.fields(v.self)
        p = cx.old_heap[v.self.oid]
        begin = v.case.begin
        d = dict(me_inv(f, begin))
        d["pos-between-start-and-target"] = And(p["pos"] <= f["pos"], f["pos"] <= v.i) if begin == "left" else \
            And(v.i <= f["pos"], f["pos"] <= p["pos"])
        # (when i == pos on entry the ternary picks "right" and the loop does not run)
        d["direction-away-from-begin"] = Or(v.direction == ("right" if begin == "left" else "left"), p["pos"] == v.i)
        return d

    @property
    def loops(self):
        return {0: Loop("while self.pos != i % self.L", self.inv,
                        decreases=lambda v: If(v.i >= v.cx.fields(v.self)["pos"], v.i - v.cx.fields(v.self)["pos"],
                                               v.cx.fields(v.self)["pos"] - v.i))}

    def ensures(self, a, r, cx, case):
        f = cx.fields(a.self)
        d = {"returns-None": r is None, "pos==i": f["pos"] == a.i}
        d.update(me_inv(f, case.begin))
        d["current-environment-complete: sites < i on the left, >= i+bsz on the right"] = \
            env_complete(env_at(f, f["pos"]), a.i, f["bsz"])
        return d

    def modifies(self, a, case):
        return [(a.self, ["pos", "e_has"] + ["e_" + c for c in ENV_COMPONENTS])]

    def fresh_result(self, cx, a, case):
        return None

    def apply(self, cx, a, node, case=None):
        f = cx.fields(a.self)
        begin = f["begin"]
        cx.oblige(f"call-pre@{node.lineno}:move_to:0 <= i <= L-bsz and i is not on the begin side of pos", "call-pre",
                  self.pre(f, a.i, begin), node.lineno)
        for lab, c in me_inv(f, begin).items():
            cx.oblige(f"call-pre@{node.lineno}:move_to:class-invariant:{lab}", "call-pre", c, node.lineno)
        return super().apply(cx, a, node, case)


@register
class MECall(MEContract):
    """ME(): the stored environment of the current position, built from exactly the sites < pos (left) and >= pos+bsz"""

    target = f"{ME}.__call__"
    floor = 3

    def cases(self):
        return [NS(name=f"begin={b}", begin=b) for b in ("left", "right")]

    def inputs(self, cx, case):
        return dict(self=me_case_inputs(cx, case.begin))  # (class invariant only: completeness at pos follows from it)

    def ensures(self, a, r, cx, case):
        f = cx.fields(a.self)
        if not isinstance(r, Env):
            return {"returns-an-environment": False}
        return {"environment-of-pos: free block [pos,pos+bsz), left = sites < pos, right = sites >= pos+bsz":
                env_complete(r, f["pos"], f["bsz"])}


MEContract.me_methods = {m: f"{ME}.{m}" for m in ("init_segment", "init_non_segment", "move_right", "move_left", "move_to")}


# ======================================================================================================
# DMRG: bond schedule, sweep order, gauge discipline (open boundary)
# ======================================================================================================

DMRGC = f"{DM}::DMRG"
KS = z3.Int("k!sweepno")  # skolem sweep number (schedule position)
SV = z3.Int("s!step")  # bound variable: step number of the visit log


def forall_steps(body):
    return z3.ForAll([SV], body)


class SeqV:
    """a python sequence of symbolic length n >= 0 with items arr[0..n)"""

    def __init__(self, n, arr):
        self.n, self.arr = n, arr

    def at(self, k):
        return z3.Select(self.arr, k)


class RepeatV:
    def __init__(self, x):
        self.x = x


class ListV:
    """a python list whose content is not interpreted (energies, ...)"""


class SweepSeqV:
    """a non-empty string over {'L', 'R'} (sweep_sequence)"""


class DirIter:
    """itertools.cycle(sweep_sequence): every item is 'L' or 'R'"""


class MaybeUnbound:
    """a local variable that is bound only if the loop body ran at least once"""

    def __init__(self, value, nbound):
        self.value, self.nbound = value, nbound  # nbound: name of the ghost iteration counter that must be >= 1


class CompResult:
    """the list built by a comprehension that was cut by an invariant: its length, and the last element"""

    def __init__(self, n, last):
        self.n, self.last = n, last


class ProjV:
    """zip(*comprehension)[j]"""

    def __init__(self, comp, j):
        self.comp, self.j = comp, j


class SplitFactor:
    """one factor of T_AB.split(left_inds, right_inds, absorb, max_bond=..., cutoff=...)"""

    def __init__(self, side, absorb, mb, conj=False):
        self.side, self.absorb, self.mb, self.conj = side, absorb, mb, conj


class TAB:
    pass


class BraSite:
    def __init__(self, bra, i):
        self.bra, self.i = bra, i


OPT_KEYS = ("default_sweep_sequence", "bond_compress_method", "bond_compress_cutoff_mode", "bond_expand_rand_strength",
            "local_eig_tol", "local_eig_ncv", "local_eig_backend", "local_eig_maxiter", "local_eig_EPSType",
            "local_eig_ham_dense", "local_eig_norm_dense", "periodic_segment_size", "periodic_compress_method",
            "periodic_compress_norm_eps", "periodic_compress_ham_eps", "periodic_compress_max_bond",
            "periodic_nullspace_fudge_factor", "periodic_canonize_inv_tol", "periodic_orthog_tol")


def new_iter(cx, item, k=0, name="it"):
    """an iterator heap object: ``item`` maps the (0-based) number of the next() call to the value it returns"""
    return cx.new_obj("Iter", item=item, k=k, name=name)


def new_dmrg(cx, bsz, with_me=None, L=None):
    """a DMRG solver object on an open chain; with_me: None | 'left' | 'right' (a ready MovingEnvironment begun there)"""
    L = L if L is not None else cx.Int("L")
    mps = cx.new_obj("MPS", L=L, cyclic=False, isL=cx.Array("isL", IntS, BoolS), isR=cx.Array("isR", IntS, BoolS),
                     capd=cx.Array("capd", IntS, BoolS))
    bra = cx.new_obj("BRA", of=mps)
    tn = cx.new_obj("TN", L=L, site_tag_id=cx.Opaque("site_tag_id"))
    opts = {k: cx.Opaque(k) for k in OPT_KEYS}
    opts["default_sweep_sequence"] = SweepSeqV()
    bd_arr, co_arr = cx.Array("sched_bd", IntS, IntS), cx.Array("sched_co", IntS, z3.RealSort())
    fields = dict(L=L, bsz=bsz, cyclic=False, which=cx.Opaque("which"), _k=mps, _b=bra, TN_energy=tn, opts=opts,
                  energies=ListV(), local_energies=ListV(), total_energies=ListV(), phys_dim=cx.Opaque("phys_dim"),
                  _bond_dims=new_iter(cx, lambda k, a=bd_arr: z3.Select(a, k), cx.Int("bd_k"), "bond_dims"),
                  _cutoffs=new_iter(cx, lambda k, a=co_arr: z3.Select(a, k), cx.Int("co_k"), "cutoffs"),
                  _bond_dim0=cx.Int("bond_dim0"), g_vis=cx.Array("g_vis", IntS, IntS), g_nvis=0, g_M=cx.Int("g_M"), g_nsweeps=0,
                  g_last=(cx.Opaque("loc_en"), cx.Opaque("tot_en")))
    ref = cx.new_obj("DMRG", **fields)
    cx.ghost["self"] = ref
    cx.assume(And(L >= bsz, fields["_bond_dims"] is not None))
    for it in ("_bond_dims", "_cutoffs"):
        cx.assume(cx.fields(fields[it])["k"] >= 0)
    if with_me:
        me = new_me(cx, "ready", begin=with_me, L=L, bsz=bsz, name="ham")
        cx.fields(me)["envs_set"] = True
        cx.fields(ref)["ME_eff_ham"] = me
    return ref


def gauge_at(m, i, bsz):
    """the gauge precondition of a local update at position i: sites < i left-, sites >= i+bsz right-isometric"""
    return And(forall_sites(Implies(And(0 <= K, K < i), sel(m["isL"], K))),
               forall_sites(Implies(And(i + bsz <= K, K < m["L"]), sel(m["isR"], K))))


def gauge_unchanged_where(m, p, cond):
    return forall_sites(Implies(cond(K), And(sel(m["isL"], K) == sel(p["isL"], K), sel(m["isR"], K) == sel(p["isR"], K))))


def capd_unchanged_except(m, p, k0=None):
    if k0 is None:
        return forall_sites(sel(m["capd"], K) == sel(p["capd"], K))
    return forall_sites(Implies(K != k0, sel(m["capd"], K) == sel(p["capd"], K)))


MPS_METHODS = ("left_canonize_site", "right_canonize_site", "left_canonize", "right_canonize", "left_canonicalize",
               "right_canonicalize", "expand_bond_dimension")
DMRG_METHODS = {
    "_update_local_state_1site": f"{DM}::DMRG1._update_local_state_1site",
    "_update_local_state_2site": f"{DM}::DMRG2._update_local_state_2site",
    "_update_local_state": f"{DMRGC}._update_local_state",
    "_canonize_after_1site_update": f"{DMRGC}._canonize_after_1site_update",
    "_set_bond_dim_seq": f"{DMRGC}._set_bond_dim_seq",
    "_set_cutoff_seq": f"{DMRGC}._set_cutoff_seq",
    "sweep": f"{DMRGC}.sweep", "sweep_right": f"{DMRGC}.sweep_right", "sweep_left": f"{DMRGC}.sweep_left",
}
DMRG_LEAVES = ("form_local_ops", "_eigs", "post_check", "_print_pre_sweep", "_compute_post_sweep", "_check_convergence",
               "_print_post_sweep", "print_energy_info", "print_norm_info")


class DContract(MEContract, c08.MPSContract):
    """shared modelling of the DMRG solver object"""

    property_ids = ("C10",)
    ghost_fields = ()

    def havoc_heap(self, cx):
        MEContract.havoc_heap(self, cx)
        for oid, f in cx.heap.items():
            if "isL" in f:
                f["isL"], f["isR"] = cx.Array("isL_hv", IntS, BoolS), cx.Array("isR_hv", IntS, BoolS)
                if "capd" in f:
                    f["capd"] = cx.Array("capd_hv", IntS, BoolS)
            if "g_vis" in f:
                f["g_vis"], f["g_nvis"] = cx.Array("g_vis_hv", IntS, IntS), cx.Int("g_nvis_hv")
                f["g_last"] = (cx.Opaque("loc_en_hv"), cx.Opaque("tot_en_hv"))
                if getattr(self, "havoc_sweep_ghosts", False):  # (only the loop of solve changes them)
                    f["g_nsweeps"], f["g_M"] = cx.Int("g_nsweeps_hv"), cx.Int("g_M_hv")
            if "item" in f and "k" in f:
                f["k"] = cx.Int("it_k_hv")

    def attr(self, cx, base, attr, node):
        if isinstance(base, Ref) and base.kind == "DMRG":
            if attr in DMRG_METHODS or attr in DMRG_LEAVES:
                return BoundMethod(base, attr)
            if attr == "_eff_ham":
                return cx.Opaque("eff_ham")  # [leaf] set by form_local_ops: the effective energy network of the position
            if attr == "ME_eff_ham":
                raise PyRaise("AttributeError", getattr(node, "lineno", 0))
        if isinstance(base, Ref) and base.kind == "MPS" and attr in MPS_METHODS:
            return BoundMethod(base, attr)
        if isinstance(base, (c08.Site, BraSite)) and attr in ("inds", "shape", "data"):
            return cx.Opaque(attr)
        r = MEContract.attr(self, cx, base, attr, node)
        if r is not NotImplemented:
            return r
        return c08.MPSContract.attr(self, cx, base, attr, node)

    def dmrg(self, cx):
        return cx.ghost["self"]

    def call(self, cx, name, args, kwargs, node):
        line = getattr(node, "lineno", 0)
        if name == "__tuple__":
            if any(isinstance(v, Opaque) for _, v in args[0]):
                return cx.Opaque("inds")
        if name == "__isinstance__":
            v, cname = args
            if cname == "int":
                return is_int(v)
            if cname == "float":
                return (is_z3(v) and z3.is_real(v)) or isinstance(v, float)
            if cname in ("Integral", "numbers.Integral"):
                return is_int(v)
            if cname in ("Real", "numbers.Real"):
                return is_int(v) or (is_z3(v) and z3.is_real(v)) or isinstance(v, float)
            raise Unsupported(f"isinstance(..., {cname})")
        if name == "__getitem__" and isinstance(args[0], Ref) and args[0].kind == "BRA":
            bra, i = args
            L = cx.fields(cx.fields(bra)["of"])["L"]
            cx.oblige(f"site-exists@{line}", "safety", And(0 <= i, i < L), line)
            return BraSite(bra, i)
        if name == "__getitem__" and isinstance(args[0], SeqV):
            s, idx = args
            if isinstance(idx, int) and idx < 0:
                idx = s.n + idx
            cx.oblige(f"index@{line}: item of the schedule sequence exists (IndexError on an empty sequence)", "index",
                      And(0 <= idx, idx < s.n), line)
            return s.at(idx)
        if name == "__getitem__" and isinstance(args[0], ProjV):
            pv, idx = args
            cx.oblige(f"index@{line}: at least one local update was performed", "index", pv.comp.n >= 1, line)
            if idx == -1:
                return pv.comp.last[pv.j]
            return cx.Opaque("some_energy")
        if name == "__len__" and isinstance(args[0], ListV):
            n = cx.Int("len")
            cx.assume(n >= 0)
            return n
        if name == ".append" and isinstance(args[0], ListV):
            return None
        if name == "tuple" and len(args) == 1:
            if isinstance(args[0], SeqV):
                return args[0]
            if is_z3(args[0]):
                raise PyRaise("TypeError", line)  # tuple(number): 'int' / 'float' object is not iterable
        if name in ("max", "min") and len(args) == 1 and isinstance(args[0], SeqV):
            # [leaf] max / min of a non-empty sequence: one of its items, bounding all of them
            sq = args[0]
            cx.oblige(f"index@{line}: {name}() of a non-empty sequence", "index", sq.n >= 1, line)
            m, w, j = cx.Int(f"{name}_of_seq"), cx.Int(f"arg{name}"), z3.Int("j_seq")
            cx.assume(And(0 <= w, w < sq.n, m == sq.at(w)))
            bound = (m >= sq.at(j)) if name == "max" else (m <= sq.at(j))
            cx.assume(z3.ForAll([j], Implies(And(0 <= j, j < sq.n), bound)))
            return m
        if name == "itertools.repeat" and len(args) == 1:
            return RepeatV(args[0])
        if name == "itertools.chain" and len(args) == 2 and isinstance(args[1], RepeatV):
            first, rep = args
            # [leaf] itertools.chain(seq, itertools.repeat(x)): item k is seq[k] for k < len(seq), x afterwards
            if isinstance(first, tuple):
                item = lambda k, t=first, x=rep.x: self.tuple_item(t, k, x)  # noqa: E731
            elif isinstance(first, SeqV):
                item = lambda k, s=first, x=rep.x: If(k < s.n, s.at(k), x)  # noqa: E731
            else:
                raise Unsupported("chain of a non-sequence")
            return new_iter(cx, item, 0, "chain")
        if name == "itertools.cycle" and len(args) == 1:
            oblige_structural(cx, f"cycle@{line}: the sweep sequence is a string over L / R", "call-arg",
                              isinstance(args[0], SweepSeqV), line)
            return DirIter()
        if name == "next" and len(args) == 1:
            it = args[0]
            if isinstance(it, DirIter):
                d = cx.Int("dir")
                cx.assume(Or(d == 0, d == 1))
                return "R" if cx.decide(d == 0, line) else "L"
            if isinstance(it, Ref) and it.kind == "Iter":
                f = cx.fields(it)
                v = f["item"](Z(f["k"]))
                f["k"] = f["k"] + 1
                return v
            raise Unsupported("next() of an unknown iterator")
        if name in ("warnings.catch_warnings", "warnings.simplefilter"):
            return None
        if name == "zip" and len(args) == 1 and isinstance(args[0], StarArg) and isinstance(args[0].value, CompResult):
            comp = args[0].value
            cx.oblige(f"zip@{line}: the sweep performed at least one local update (else nothing to unpack)", "index",
                      comp.n >= 1, line)
            return (ProjV(comp, 0), ProjV(comp, 1))
        if name == "MovingEnvironment":
            return cx.call_contract(REGISTRY[MEInit.target], list(args), kwargs, node, recv=cx.new_obj("ME-raw"))
        if name == "parse_2site_inds_dims":
            # [leaf here; label contract in contracts/c09_labels.py] nine label / shape values of sites i, i+1
            k, b, i = args
            d = self.dmrg(cx)
            f = cx.fields(d)
            oblige_structural(cx, f"call-arg@{line}:parse_2site_inds_dims: (ket, bra, i) of the solver", "call-arg",
                              k == f["_k"] and b == f["_b"], line)
            cx.ghost["two_site_i"] = i
            return tuple(cx.Opaque(n) for n in ("dims", "lix_L", "lix_R", "lix", "uix_L", "uix_R", "uix", "l_bond", "u_bond"))
        if name == "Tensor" and len(args) == 2:
            return TAB()
        if name in (".toarray", ".reshape", ".item", ".ravel", ".conj") and isinstance(args[0], Opaque):
            return cx.Opaque(name[1:])
        if name == ".conj" and isinstance(args[0], SplitFactor):
            s = args[0]
            return SplitFactor(s.side, s.absorb, s.mb, conj=not s.conj)
        if name == ".contract" and isinstance(args[0], c08.Site):
            return cx.Opaque("two_site")
        if name == ".to_dense" and isinstance(args[0], Opaque):
            return cx.Opaque("dense")
        if name == "__binop__" and args[0] == "BitXor" and isinstance(args[1], Opaque) and args[2] is ALL:
            return cx.Opaque("tot_en")
        if name == ".split" and isinstance(args[0], TAB):
            return self.leaf_split(cx, kwargs, node)
        if name == ".modify" and isinstance(args[0], (c08.Site, BraSite)):
            return self.leaf_modify(cx, args[0], kwargs, node)
        fv = None
        if isinstance(node, ast.Call) and isinstance(node.func, ast.Subscript):
            fv = cx.ev(node.func)
        elif name.startswith(".") and isinstance(args[0], Ref) and args[0].kind in ("DMRG", "MPS") and isinstance(node, ast.Call):
            m = name[1:]
            if (args[0].kind == "DMRG" and (m in DMRG_METHODS or m in DMRG_LEAVES)) or \
                    (args[0].kind == "MPS" and m in MPS_METHODS):
                fv, args = BoundMethod(args[0], m), args[1:]
        if isinstance(fv, BoundMethod) and isinstance(fv.recv, Ref) and fv.recv.kind == "DMRG":
            return self.call_dmrg(cx, fv, list(args), kwargs, node)
        if isinstance(fv, BoundMethod) and isinstance(fv.recv, Ref) and fv.recv.kind == "MPS":
            return self.call_mps(cx, fv, list(args), kwargs, node)
        if isinstance(fv, BoundMethod):
            return self.call_bound(cx, fv, args, kwargs, node)
        r = MEContract.call(self, cx, name, args, kwargs, node)
        if r is not NotImplemented:
            return r
        return c08.MPSContract.call(self, cx, name, args, kwargs, node)

    @staticmethod
    def tuple_item(t, k, x):
        r = x
        for j in range(len(t) - 1, -1, -1):
            r = If(k == j, t[j], r)
        return r

    # ---- method calls on the ket: the proved C08 contracts, with ``bra=self._b`` kept in step [trusted]
    def call_mps(self, cx, bm, args, kwargs, node):
        line = node.lineno
        mps, m = bm.recv, bm.name
        d = self.dmrg(cx)
        f = cx.fields(d)
        kwargs = dict(kwargs)
        oblige_structural(cx, f"call-arg@{line}:{m}: acts on the solver's ket with bra=self._b (the bra stays the conjugate "
                          "of the ket)", "call-arg", mps == f["_k"] and kwargs.get("bra") == f["_b"], line)
        kwargs.pop("bra", None)
        if m == "expand_bond_dimension":
            # [leaf] pads the bonds up to the requested size with noise of relative size rand_strength: isometries are
            # preserved (exactly when no bond grows or rand_strength = 0; up to rand_strength otherwise) -- ASSUMPTION
            cx.events.append(("expand", args[0] if args else kwargs.get("new_bond_dim")))
            return None
        return c08.MPSContract.call(self, cx, "." + m, [mps] + args, kwargs, node)

    def call_dmrg(self, cx, bm, args, kwargs, node):
        line = node.lineno
        d, m = bm.recv, bm.name
        src = cx.old.get("update_opts") if cx.old is not None else None
        if m.startswith("_update_local_state") and isinstance(src, dict):
            oblige_structural(cx, f"call-arg@{line}:{m}: every update option (max_bond, cutoff, ...) handed on unchanged", "call-arg",
                              all(k in kwargs and kwargs[k] is v for k, v in src.items()), line)
        if m in DMRG_METHODS and DMRG_METHODS[m] in REGISTRY:
            return cx.call_contract(REGISTRY[DMRG_METHODS[m]], args, kwargs, node, recv=d)
        f = cx.fields(d)
        if m == "form_local_ops":
            # [leaf; label contract in contracts/c09_labels.py] builds Heff / Neff from ME_eff_ham() at its current position
            me = f.get("ME_eff_ham")
            ok = isinstance(me, Ref)
            oblige_structural(cx, f"call-pre@{line}:form_local_ops: the moving environment exists", "call-pre", ok, line)
            if ok:
                mf = cx.fields(me)
                cx.oblige(f"call-pre@{line}:form_local_ops: the moving environment stands at the position of the update", "call-pre",
                          mf["pos"] == args[0], line)
            cx.ghost["formed_at"] = args[0]
            return (cx.Opaque("Heff"), cx.Opaque("Neff"))
        if m == "_eigs":
            # [leaf] one local eigenproblem.  Standard (Neff = identity) iff the gauge precondition holds; the unit-norm
            # eigenvector then gives a normalised state
            i = cx.ghost.get("formed_at")
            oblige_structural(cx, f"call-pre@{line}:_eigs: local operators were formed first", "call-pre", i is not None, line)
            if i is None:
                raise Unsupported("_eigs before form_local_ops")
            mk = cx.fields(f["_k"])
            cx.oblige(f"gauge@{line}:_eigs: sites < i left-isometric and sites >= i+bsz right-isometric (standard eigenproblem, "
                      "normalised state)", "call-pre", gauge_at(mk, i, f["bsz"]), line)
            f["g_vis"] = z3.Store(f["g_vis"], f["g_nvis"], i)
            f["g_nvis"] = f["g_nvis"] + 1
            cx.events.append(("eigs", i))
            return (cx.Opaque("loc_en"), cx.Opaque("loc_gs"))
        if m == "post_check":
            return (cx.Opaque("loc_en"), cx.Opaque("loc_gs"))
        if m == "_check_convergence":
            return cx.Bool("converged")
        if m in DMRG_LEAVES:
            return None
        raise Unsupported(f"DMRG method {m}")

    def leaf_split(self, cx, kwargs, node):
        """[leaf, C05] T_AB.split(left_inds, right_inds, get='arrays', absorb, **opts) -> (L, R): absorb='right' leaves L a
        left isometry, absorb='left' leaves R a right isometry; the new bond is <= max_bond"""
        line = node.lineno
        absorb = kwargs.get("absorb")
        oblige_structural(cx, f"split@{line}: get='arrays' and absorb is a direction", "call-arg",
                          kwargs.get("get") == "arrays" and absorb in ("left", "right"), line)
        cx.events.append(("split", dict(kwargs)))
        mb = kwargs.get("max_bond", None)
        return (SplitFactor("L", absorb, mb), SplitFactor("R", absorb, mb))

    def leaf_modify(self, cx, site, kwargs, node):
        line = node.lineno
        data = kwargs.get("data")
        if isinstance(site, BraSite):
            cx.events.append(("modify-bra", site.i, data))
            return None
        m = cx.fields(site.mps)
        i = site.i
        cx.events.append(("modify-ket", i, data))
        if isinstance(data, SplitFactor) and not data.conj:
            isl = True if (data.side == "L" and data.absorb == "right") else cx.Bool("hv")
            isr = True if (data.side == "R" and data.absorb == "left") else cx.Bool("hv")
            m["isL"], m["isR"] = z3.Store(m["isL"], i, isl), z3.Store(m["isR"], i, isr)
            w = cx.ghost.setdefault("fac_written", {})
            w[data.side] = i
            if "L" in w and "R" in w and "capd" in m:
                # both factors of one split are in place: bond (s, s+1) is the new bond, of size <= max_bond
                g_M = cx.fields(self.dmrg(cx))["g_M"]
                capped = And(w["R"] == w["L"] + 1, data.mb == g_M) if is_int(data.mb) else cx.Bool("hv")
                m["capd"] = z3.Store(m["capd"], w["L"], capped)
        else:
            # an arbitrary new tensor (the local eigenvector): no isometry claim
            m["isL"], m["isR"] = z3.Store(m["isL"], i, cx.Bool("hv")), z3.Store(m["isR"], i, cx.Bool("hv"))
        return None


# ---- bond / cutoff schedule ------------------------------------------------------------------------------


class SetSeq(DContract):
    """_set_bond_dim_seq / _set_cutoff_seq: the schedule iterator returns, at its k-th next() (k = 0, 1, ...), the item
    bds[min(k, len(bds)-1)] (a scalar is the one-element schedule)"""

    floor = 3
    field = None  # heap field holding the iterator
    param = None
    scalar = None  # "int" | "float": the scalar kind the code tests for
    first_field = None

    def cases(self):
        # "other-number": a python int where the code tests isinstance(..., float) (cutoffs=0); for bond_dims the documented
        # domain is int | sequence of ints (a float bond dimension is not an input of the property)
        kinds = ("scalar", "sequence", "other-number") if self.scalar == "float" else ("scalar", "sequence")
        return [NS(name=f"{self.param}={k}", kind=k) for k in kinds]

    def mk_value(self, cx, case):
        real = self.scalar == "float"
        if case.kind == "scalar":
            return cx.Real("x") if real else cx.Int("x")
        if case.kind == "other-number":
            return cx.Int("x") if real else cx.Real("x")  # a python number of the other kind (cutoffs=0, bond_dims=8.0)
        n = cx.Int("n")
        cx.assume(n >= 1)
        return SeqV(n, cx.Array("seq", IntS, z3.RealSort() if real else IntS))

    def inputs(self, cx, case):
        ref = new_dmrg(cx, 2)
        return {"self": ref, self.param: self.mk_value(cx, case)}

    @staticmethod
    def spec_item(v, k):
        """item k of the schedule built from v"""
        if isinstance(v, SeqV):
            return v.at(If(k < v.n - 1, k, v.n - 1))
        return v

    def ensures(self, a, r, cx, case):
        f = cx.fields(a.self)
        v = a[self.param]
        it = f.get(self.field)
        d = {"returns-None": r is None, "iterator-installed": isinstance(it, Ref) and it.kind == "Iter"}
        if not d["iterator-installed"]:
            return d
        fi = cx.fields(it)
        d["iterator-fresh (next call is number 0)"] = Z(fi["k"]) == 0
        d["k-th sweep receives bds[min(k, len-1)]"] = Implies(KS >= 0, fi["item"](KS) == self.spec_item(v, KS))
        if self.first_field:
            d["first-item-recorded"] = f.get(self.first_field) is not None and \
                Z(f[self.first_field]) == Z(self.spec_item(v, z3.IntVal(0)))
        return d

    def apply(self, cx, a, node, case=None):
        v = a[self.param]
        line = node.lineno
        real = self.scalar == "float"
        ok = isinstance(v, SeqV) or (is_z3(v) and (z3.is_real(v) if real else z3.is_int(v))) or \
            (isinstance(v, float) if real else (isinstance(v, int) and not isinstance(v, bool)))
        oblige_structural(cx, f"call-pre@{line}:{self.target.split('.')[-1]}: a {self.scalar} or a non-empty sequence", "call-pre",
                          ok, line)
        if isinstance(v, SeqV):
            cx.oblige(f"call-pre@{line}:{self.target.split('.')[-1]}: non-empty schedule", "call-pre", v.n >= 1, line)
        f = cx.fields(a.self)
        f[self.field] = new_iter(cx, lambda k, v=v: self.spec_item(v, k), 0, self.field)
        if self.first_field:
            f[self.first_field] = self.spec_item(v, z3.IntVal(0))
        return None

    def replay(self, model):
        return _replay_schedule_kind(self.param)


def _replay_schedule_kind(param):
    import warnings

    import quimb.tensor as qtn

    warnings.simplefilter("ignore")
    H = qtn.MPO_ham_heis(4)
    out = {}
    for label, kw in (("cutoffs=0", dict(bond_dims=8, cutoffs=0)), ("cutoffs=0.0", dict(bond_dims=8, cutoffs=0.0)),
                      ("bond_dims=8.0", dict(bond_dims=8.0)), ("bond_dims=8", dict(bond_dims=8))):
        if not label.startswith(param):
            continue
        try:
            qtn.DMRG2(H, **kw)
            out[label] = "constructed"
        except Exception as e:  # noqa
            out[label] = f"{type(e).__name__}: {e}"
    return dict(call=f"DMRG2(MPO_ham_heis(4), ...) with a python number of the other kind for {param}", observed=out,
                reproduced=any(v.startswith("TypeError") for v in out.values()))


@register
class SetBondDimSeq(SetSeq):
    target = f"{DMRGC}._set_bond_dim_seq"
    field, param, scalar, first_field = "_bond_dims", "bond_dims", "int", "_bond_dim0"


@register
class SetCutoffSeq(SetSeq):
    target = f"{DMRGC}._set_cutoff_seq"
    field, param, scalar, first_field = "_cutoffs", "cutoffs", "float", None


# ---- local updates: gauge effect, visit log, cap threading ----------------------------------------------


def update_reqs(cx, a, bsz, need_me=True):
    """heap preconditions of a local update at position i (assumed for the bodies, asserted at call sites)"""
    f = cx.fields(a.self)
    m = cx.fields(f["_k"])
    d = {"0 <= i <= L-bsz": And(0 <= a.i, a.i <= f["L"] - bsz),
         "gauge: sites < i left-isometric, sites >= i+bsz right-isometric": gauge_at(m, a.i, bsz)}
    if need_me:
        me = f.get("ME_eff_ham")
        d["moving environment stands at i"] = cx.fields(me)["pos"] == a.i if isinstance(me, Ref) else False
    return d


def visited(f, p, i):
    return And(f["g_nvis"] == p["g_nvis"] + 1, f["g_vis"] == z3.Store(p["g_vis"], p["g_nvis"], i))


@register
class CanonizeAfter1Site(DContract):
    """_canonize_after_1site_update(direction, i): moves the centre one site in the sweep direction, except at the end"""

    target = f"{DMRGC}._canonize_after_1site_update"
    floor = 6

    def cases(self):
        return [NS(name=f"direction={d}", direction=d) for d in ("right", "left", "other")]

    def inputs(self, cx, case):
        ref = new_dmrg(cx, 1)
        i = cx.Int("i")
        cx.assume(And(0 <= i, i < cx.fields(ref)["L"]))
        return dict(self=ref, direction=case.direction, i=i)

    def ensures(self, a, r, cx, case):
        f = cx.fields(a.self)
        m, p = cx.fields(f["_k"]), cx.pre(f["_k"])
        L, i = f["L"], a.i
        d = {"returns-None": r is None, "bond-caps-untouched": capd_unchanged_except(m, p)}
        if a.direction == "right":
            d["site-i-left-isometric-unless-last"] = Implies(i < L - 1, sel(m["isL"], i))
            d["frame"] = gauge_unchanged_where(m, p, lambda k: Or(i >= L - 1, And(k != i, k != i + 1)))
        elif a.direction == "left":
            d["site-i-right-isometric-unless-first"] = Implies(i > 0, sel(m["isR"], i))
            d["frame"] = gauge_unchanged_where(m, p, lambda k: Or(i <= 0, And(k != i, k != i - 1)))
        else:
            d["frame"] = gauge_unchanged_where(m, p, lambda k: True)
        return d

    def modifies(self, a, case):
        return [(a.self_k, ["isL", "isR"])]

    def fresh_result(self, cx, a, case):
        return None

    def case_of_call(self, cx, a):
        return NS(name="call", direction=a.direction)

    def apply(self, cx, a, node, case=None):
        f = cx.fields(a.self)
        a.__dict__["self_k"] = f["_k"]
        cx.oblige(f"call-pre@{node.lineno}:_canonize_after_1site_update: 0 <= i < L", "call-pre", And(0 <= a.i, a.i < f["L"]),
                  node.lineno)
        return super().apply(cx, a, node, case)


class UpdateLocal(DContract):
    bsz = None

    def cases(self):
        return [NS(name=f"direction={d},opts={o}", direction=d, opts=o) for d in ("right", "left") for o in ("given", "none")]

    def mk_opts(self, cx, case):
        if case.opts == "none":
            return {}
        return {"max_bond": cx.Int("max_bond"), "cutoff": cx.Real("cutoff"), "cutoff_mode": cx.Opaque("cutoff_mode"),
                "method": cx.Opaque("method")}

    def inputs(self, cx, case):
        ref = new_dmrg(cx, self.bsz, with_me="left" if case.direction == "right" else "right")
        a = NS(dict(self=ref, i=cx.Int("i"), direction=case.direction, compress_opts=self.mk_opts(cx, case)))
        for c in update_reqs(cx, a, self.bsz).values():
            cx.assume(c)
        return a

    def case_of_call(self, cx, a):
        return NS(name="call", direction=a.direction, opts="given" if a.compress_opts else "none")

    def modifies(self, a, case):
        return [(a.self_k, ["isL", "isR", "capd"]), (a.self, ["g_vis", "g_nvis", "g_last"])]

    def fresh_result(self, cx, a, case):
        r = (cx.Opaque("loc_en"), cx.Opaque("tot_en"))
        cx.fields(a.self)["g_last"] = r
        return r

    def apply(self, cx, a, node, case=None):
        f = cx.fields(a.self)
        a.__dict__["self_k"] = f["_k"]
        nm = self.target.split(".")[-1]
        oblige_structural(cx, f"call-pre@{node.lineno}:{nm}: direction is 'right' or 'left'", "call-pre",
                          a.direction in ("right", "left"), node.lineno)
        for lab, c in update_reqs(cx, a, self.bsz).items():
            cx.oblige(f"call-pre@{node.lineno}:{nm}:{lab}", "call-pre", c, node.lineno)
        return super().apply(cx, a, node, case)

    def common_post(self, a, r, cx):
        f, p = cx.fields(a.self), cx.pre(a.self)
        eigs = [e for e in cx.events if e[0] == "eigs"]
        d = {"returns-(local energy, total energy)": isinstance(r, tuple) and len(r) == 2,
             "one-local-update-logged-at-position-i": visited(f, p, a.i)}
        if cx.contract is self:
            d["exactly-one-local-eigenproblem"] = len(eigs) == 1
        return d


@register
class Update1Site(UpdateLocal):
    """(mpsghost) one-site update at i: the gauge precondition holds where the eigenproblem is solved; afterwards the centre
    has moved one site in the sweep direction (site i is left- / right-isometric) unless i is the last site of the sweep"""

    target = f"{DM}::DMRG1._update_local_state_1site"
    bsz = 1
    floor = 12

    def ensures(self, a, r, cx, case):
        f = cx.fields(a.self)
        m, p = cx.fields(f["_k"]), cx.pre(f["_k"])
        L, i = f["L"], a.i
        d = self.common_post(a, r, cx)
        d["bond-caps-untouched"] = capd_unchanged_except(m, p)
        if a.direction == "right":
            d["site-i-left-isometric-unless-last"] = Implies(i < L - 1, sel(m["isL"], i))
            d["frame"] = gauge_unchanged_where(m, p, lambda k: And(k != i, Or(i >= L - 1, k != i + 1)))
        else:
            d["site-i-right-isometric-unless-first"] = Implies(i > 0, sel(m["isR"], i))
            d["frame"] = gauge_unchanged_where(m, p, lambda k: And(k != i, Or(i <= 0, k != i - 1)))
        return d


@register
class Update2Site(UpdateLocal):
    """(mpsghost) two-site update at (i, i+1): gauge precondition at the eigenproblem; the split absorbs in the sweep
    direction and receives the caller's max_bond / cutoff options unchanged; afterwards site i is left-isometric (right
    sweep) / site i+1 right-isometric (left sweep), bond (i, i+1) <= max_bond, nothing else touched"""

    target = f"{DM}::DMRG2._update_local_state_2site"
    bsz = 2
    floor = 14

    def ensures(self, a, r, cx, case):
        f = cx.fields(a.self)
        m, p = cx.fields(f["_k"]), cx.pre(f["_k"])
        i = a.i
        d = self.common_post(a, r, cx)
        if a.direction == "right":
            d["site-i-left-isometric (split absorbs right)"] = sel(m["isL"], i)
        else:
            d["site-i+1-right-isometric (split absorbs left)"] = sel(m["isR"], i + 1)
        d["frame: only sites i, i+1 touched"] = gauge_unchanged_where(m, p, lambda k: And(k != i, k != i + 1))
        d["frame: only bond (i,i+1) resized"] = capd_unchanged_except(m, p, i)
        mb = a.compress_opts.get("max_bond")
        if is_int(mb):
            d["bond-(i,i+1)-capped-by-the-caller's-max_bond"] = sel(m["capd"], i) == (mb == f["g_M"])
        if cx.contract is self:
            splits = [e for e in cx.events if e[0] == "split"]
            d["exactly-one-split"] = len(splits) == 1
            if len(splits) == 1:
                kw = splits[0][1]
                d["split-absorbs-in-the-sweep-direction"] = kw.get("absorb") == a.direction
                for key in ("max_bond", "cutoff", "cutoff_mode", "method"):
                    want = a.compress_opts.get(key, "<absent>")
                    got = kw.get(key, "<absent>")
                    d[f"split-receives-the-caller's-{key}-unchanged"] = (got is want) if not (is_z3(got) and is_z3(want)) \
                        else got == want
            mods = [e for e in cx.events if e[0] == "modify-ket"]
            d["ket-sites-i-and-i+1-each-written-once"] = len(mods) == 2
        return d


@register
class UpdateLocalState(DContract):
    """_update_local_state(i, **opts): moves the environment to i (forward in the sweep direction), dispatches on bsz and
    hands every option on unchanged"""

    target = f"{DMRGC}._update_local_state"
    floor = 20

    def cases(self):
        return [NS(name=f"bsz={b},direction={d},opts={o}", bsz=b, direction=d, opts=o)
                for b in (1, 2) for d in ("right", "left") for o in ("given", "none")]

    def inputs(self, cx, case):
        begin = "left" if case.direction == "right" else "right"
        ref = new_dmrg(cx, case.bsz, with_me=begin)
        opts = {"direction": case.direction}
        opts.update(UpdateLocal.mk_opts(self, cx, case))
        a = NS(dict(self=ref, i=cx.Int("i"), update_opts=opts))
        for c in self.reqs(cx, a).values():
            cx.assume(c)
        return a

    def reqs(self, cx, a):
        f = cx.fields(a.self)
        me = f.get("ME_eff_ham")
        if not isinstance(me, Ref):
            return {"moving environment exists": False}
        mf = cx.fields(me)
        bsz = f["bsz"]
        begin = mf["begin"]
        d = dict(update_reqs(cx, a, bsz, need_me=False))
        d["environment begun on the side the sweep starts from"] = \
            begin == {"right": "left", "left": "right"}.get(a.update_opts.get("direction"))
        d["environment matches the solver (L, bsz)"] = And(mf["L"] == f["L"], mf["bsz"] == bsz)
        d["target position not behind the environment"] = MoveTo.pre(mf, a.i, begin)
        for lab, c in me_inv(mf, begin).items():
            d["environment class-invariant:" + lab] = c
        return d

    def case_of_call(self, cx, a):
        return NS(name="call", bsz=cx.fields(a.self)["bsz"], direction=a.update_opts.get("direction"),
                  opts="given" if len(a.update_opts) > 1 else "none")

    def modifies(self, a, case):
        me = a.self_me
        return [(a.self_k, ["isL", "isR", "capd"]), (a.self, ["g_vis", "g_nvis", "g_last"]),
                (me, ["pos", "e_has"] + ["e_" + c for c in ENV_COMPONENTS])]

    def fresh_result(self, cx, a, case):
        r = (cx.Opaque("loc_en"), cx.Opaque("tot_en"))
        cx.fields(a.self)["g_last"] = r
        return r

    def apply(self, cx, a, node, case=None):
        f = cx.fields(a.self)
        a.__dict__["self_k"] = f["_k"]
        a.__dict__["self_me"] = f.get("ME_eff_ham")
        oblige_structural(cx, f"call-pre@{node.lineno}:_update_local_state: direction='right'|'left' is passed", "call-pre",
                          a.update_opts.get("direction") in ("right", "left"), node.lineno)
        for lab, c in self.reqs(cx, a).items():
            if isinstance(c, bool):
                oblige_structural(cx, f"call-pre@{node.lineno}:_update_local_state:{lab}", "call-pre", c, node.lineno)
            else:
                cx.oblige(f"call-pre@{node.lineno}:_update_local_state:{lab}", "call-pre", c, node.lineno)
        return super().apply(cx, a, node, case)

    def ensures(self, a, r, cx, case):
        f, p = cx.fields(a.self), cx.pre(a.self)
        m, pm = cx.fields(f["_k"]), cx.pre(f["_k"])
        me = f["ME_eff_ham"]
        mf = cx.fields(me)
        L, i, bsz = f["L"], a.i, case.bsz
        direction = a.update_opts.get("direction")
        d = {"returns-(local energy, total energy)": isinstance(r, tuple) and len(r) == 2,
             "one-local-update-logged-at-position-i": visited(f, p, i),
             "environment-moved-to-i": mf["pos"] == i}
        d.update({"environment class-invariant:" + lab: c for lab, c in me_inv(mf, mf["begin"]).items()})
        if bsz == 2:
            if direction == "right":
                d["site-i-left-isometric"] = sel(m["isL"], i)
            else:
                d["site-i+1-right-isometric"] = sel(m["isR"], i + 1)
            d["frame: only sites i, i+1 touched"] = gauge_unchanged_where(m, pm, lambda k: And(k != i, k != i + 1))
            d["frame: only bond (i,i+1) resized"] = capd_unchanged_except(m, pm, i)
            mb = a.update_opts.get("max_bond")
            if is_int(mb):
                d["bond-(i,i+1)-capped-by-the-caller's-max_bond"] = sel(m["capd"], i) == (mb == f["g_M"])
        else:
            d["bond-caps-untouched"] = capd_unchanged_except(m, pm)
            if direction == "right":
                d["site-i-left-isometric-unless-last"] = Implies(i < L - 1, sel(m["isL"], i))
                d["frame"] = gauge_unchanged_where(m, pm, lambda k: And(k != i, Or(i >= L - 1, k != i + 1)))
            else:
                d["site-i-right-isometric-unless-first"] = Implies(i > 0, sel(m["isR"], i))
                d["frame"] = gauge_unchanged_where(m, pm, lambda k: And(k != i, Or(i <= 0, k != i - 1)))
        return d


# ---- the sweep ---------------------------------------------------------------------------------------------


def sweep_pre_gauge(m, direction, bsz):
    """what a sweep that does not canonize first relies on: R: sites >= bsz right-isometric; L: sites < L-bsz left-"""
    if direction == "R":
        return forall_sites(Implies(And(bsz <= K, K < m["L"]), sel(m["isR"], K)))
    return forall_sites(Implies(And(0 <= K, K < m["L"] - bsz), sel(m["isL"], K)))


def sweep_post_gauge(m, direction):
    """'after the sweep the state is left or right canonized respectively'"""
    if direction == "R":
        return forall_sites(Implies(And(0 <= K, K < m["L"] - 1), sel(m["isL"], K)))
    return forall_sites(Implies(And(0 < K, K < m["L"]), sel(m["isR"], K)))


def visit_pos(direction, L, bsz, s):
    """position of the s-th local update of a sweep"""
    return s if direction == "R" else L - bsz - s


@register
class Sweep(DContract):
    """DMRG.sweep(direction, canonize, **update_opts) on an open chain:
    * the local updates visit exactly the positions 0, 1, ..., L-bsz in this order (direction 'R') / L-bsz, ..., 0 ('L');
    * at every update at position i the sites < i are left- and the sites >= i+bsz right-isometric (call-pre of
      _update_local_state, from the invariant of the comprehension) -- needs canonize=True or the stated entry gauge;
    * the moving environment is begun on the side the sweep starts from and only ever moved forward;
    * every update receives the caller's options unchanged; for bsz = 2 every bond ends up <= max_bond;
    * afterwards the state is left- ('R') / right- ('L') canonical; the returned value is the total energy computed at the
      last position."""

    target = f"{DMRGC}.sweep"
    floor = 60

    def cases(self):
        return [NS(name=f"bsz={b},direction={d},canonize={c},opts={o}", bsz=b, direction=d, canonize=c, opts=o)
                for b in (1, 2) for d in ("R", "L") for c in (True, False) for o in ("given", "none")]

    def inputs(self, cx, case):
        ref = new_dmrg(cx, case.bsz)
        f = cx.fields(ref)
        opts = UpdateLocal.mk_opts(self, cx, case)
        if "max_bond" in opts:
            f["g_M"] = opts["max_bond"]  # ghost: the cap requested for this sweep
        a = NS(dict(self=ref, direction=case.direction, canonize=case.canonize, verbosity=0, update_opts=opts))
        for c in self.reqs(cx, a).values():
            cx.assume(c)
        return a

    def reqs(self, cx, a):
        f = cx.fields(a.self)
        m = cx.fields(f["_k"])
        d = {"L >= bsz": f["L"] >= f["bsz"]}
        if not a.canonize:
            d["gauge on entry (canonize=False): state canonical towards the side the sweep starts from"] = \
                sweep_pre_gauge(m, a.direction, f["bsz"])
        return d

    # ---- the comprehension [self._update_local_state(i, ...) for i in sweep], cut by an invariant
    def comp_inv(self, cx, a, i, t):
        f = cx.fields(a.self)
        m = cx.fields(f["_k"])
        L, bsz = f["L"], f["bsz"]
        direction = a.direction
        me = f.get("ME_eff_ham")
        d = {"environment-created": isinstance(me, Ref)}
        if not d["environment-created"]:
            return d
        mf = cx.fields(me)
        begin = "left" if direction == "R" else "right"
        d["t-range"] = And(0 <= t, t <= L - bsz + 1)
        d["next-position"] = i == visit_pos(direction, L, bsz, t)
        # (the last site of the sweep is never canonized: K < L-1 / K > 0; both are implied for a position i <= L-bsz)
        d["gauge: sites < i left-isometric, sites >= i+bsz right-isometric"] = And(
            forall_sites(Implies(And(0 <= K, K < i, K < L - 1), sel(m["isL"], K))),
            forall_sites(Implies(And(i + bsz <= K, K < L, K > 0), sel(m["isR"], K))))
        d["visit-log: t updates so far, the s-th at the s-th position of the sweep order"] = And(
            f["g_nvis"] == t, forall_steps(Implies(And(0 <= SV, SV < t), sel(f["g_vis"], SV) == visit_pos(direction, L, bsz, SV))))
        d["environment: begun at the start side, matches the solver"] = And(mf["begin"] == begin, mf["L"] == L, mf["bsz"] == bsz)
        d["environment: stands at the last updated position"] = mf["pos"] == If(t == 0, visit_pos(direction, L, bsz, 0),
                                                                                 visit_pos(direction, L, bsz, t - 1))
        d.update({"environment class-invariant:" + lab: c for lab, c in me_inv(mf, begin).items()})
        if bsz == 2 and "max_bond" in a.update_opts:
            done = And(0 <= K, K < i) if direction == "R" else And(i < K, K <= L - 2)
            d["bonds-swept-so-far <= max_bond"] = forall_sites(Implies(done, sel(m["capd"], K)))
        return d

    def comp_loop(self, cx, n):
        a = cx.old
        g = n.generators[0]
        line = n.lineno
        it = cx.ev(g.iter)
        if len(n.generators) != 1 or g.ifs or not (isinstance(it, tuple) and it and it[0] == "range") or \
                not isinstance(g.target, ast.Name):
            raise Unsupported("comprehension shape")
        ra = it[1:]
        start, stop, step = (0, ra[0], 1) if len(ra) == 1 else ((ra[0], ra[1], 1) if len(ra) == 2 else ra)
        if not isinstance(step, int) or step == 0:
            raise Unsupported("comprehension over a range with a symbolic step")
        saved_env = dict(cx.env)
        var = g.target.id

        def check(stage, i, t):
            cx.inv_mode = "check"
            for lab, c in self.comp_inv(cx, a, i, t).items():
                if isinstance(c, bool):
                    oblige_structural(cx, f"inv-{stage}@comp:{lab}", "inv-" + stage, c, line)
                else:
                    cx.oblige(f"inv-{stage}@comp:{lab}", "inv-" + stage, c, line)

        check("init", I(start), 0)
        # arbitrary iteration: the comprehension assigns no local but its own variable; the heap is havoc'd
        cx.havoc_heap()
        t = cx.Int("_itc")
        cx.assume(t >= 0)
        i = z3.simplify(I(start) + t * step)
        cx.inv_mode = "assume"
        for c in self.comp_inv(cx, a, i, t).values():
            cx.assume(c)
        enter = num_cmp("<", i, stop) if step > 0 else num_cmp(">", i, stop)
        if cx.decide(enter, line):
            cx.env[var] = i
            val = cx.ev(n.elt)
            cx.fields(a.self)["g_last"] = val if isinstance(val, tuple) and len(val) == 2 else (cx.Opaque("x"), cx.Opaque("y"))
            check("step", z3.simplify(I(start) + (t + 1) * step), t + 1)
            raise PathEnd("comprehension body end")
        cx.env = saved_env
        return CompResult(t, cx.fields(a.self)["g_last"])

    def call(self, cx, name, args, kwargs, node):
        if name == "__genexp__" and isinstance(args[0], ast.ListComp):
            return self.comp_loop(cx, args[0])
        return super().call(cx, name, args, kwargs, node)

    def ensures(self, a, r, cx, case):
        f, p = cx.fields(a.self), cx.pre(a.self)
        m = cx.fields(f["_k"])
        L, bsz = f["L"], f["bsz"]
        me = f.get("ME_eff_ham")
        d = {"moving-environment-stored": isinstance(me, Ref)}
        if not d["moving-environment-stored"]:
            return d
        n = L - bsz + 1
        d["visits: exactly L-bsz+1 local updates"] = f["g_nvis"] == p["g_nvis"] + n
        d["visits: positions 0..L-bsz in order (reversed for 'L')"] = forall_steps(Implies(
            And(0 <= SV, SV < n), sel(f["g_vis"], p["g_nvis"] + SV) == visit_pos(a.direction, L, bsz, SV)))
        d["gauge after the sweep: left-canonical ('R') / right-canonical ('L')"] = sweep_post_gauge(m, a.direction)
        d["returns the total energy computed at the last position"] = \
            isinstance(r, Opaque) and isinstance(f["g_last"], tuple) and r is f["g_last"][1]
        if bsz == 2 and "max_bond" in a.update_opts:
            d["every bond <= max_bond after the sweep (bsz = 2)"] = Implies(
                a.update_opts["max_bond"] == f["g_M"], forall_sites(Implies(And(0 <= K, K < L - 1), sel(m["capd"], K))))
        d["environment-left-at-the-last-position"] = cx.fields(me)["pos"] == visit_pos(a.direction, L, bsz, n - 1)
        return d

    def case_of_call(self, cx, a):
        return NS(name="call", bsz=cx.fields(a.self)["bsz"], direction=a.direction, canonize=a.canonize,
                  opts="given" if a.update_opts else "none")

    def apply(self, cx, a, node, case=None):
        line = node.lineno
        f = cx.fields(a.self)
        if is_z3(a.canonize):  # a constant formula (value of a python-level comparison): back to a python bool
            c = z3.simplify(a.canonize)
            if z3.is_true(c) or z3.is_false(c):
                a.__dict__["canonize"] = z3.is_true(c)
        ok = a.direction in ("R", "L") and isinstance(a.canonize, bool) and a.verbosity == 0
        oblige_structural(cx, f"call-pre@{line}:sweep: direction 'R'|'L', boolean canonize, verbosity 0", "call-pre", ok, line)
        if not ok:
            raise Unsupported("sweep call shape")
        for lab, c in self.reqs(cx, a).items():
            cx.oblige(f"call-pre@{line}:sweep:{lab}", "call-pre", c, line)
        L, bsz = f["L"], f["bsz"]
        m = cx.fields(f["_k"])
        nv0 = f["g_nvis"]
        # ---- abstract effect (what `ensures` states, proved for the body)
        m["isL"], m["isR"] = cx.Array("isL_sw", IntS, BoolS), cx.Array("isR_sw", IntS, BoolS)
        cx.assume(sweep_post_gauge(m, a.direction))
        m["capd"] = cx.Array("capd_sw", IntS, BoolS)
        if "max_bond" in a.update_opts:
            f["g_M"] = a.update_opts["max_bond"]
            if bsz == 2:
                cx.assume(forall_sites(Implies(And(0 <= K, K < L - 1), sel(m["capd"], K))))
        vis = cx.Array("g_vis_sw", IntS, IntS)
        n = L - bsz + 1
        cx.assume(forall_steps(Implies(And(0 <= SV, SV < n), sel(vis, nv0 + SV) == visit_pos(a.direction, L, bsz, SV))))
        f["g_vis"], f["g_nvis"] = vis, nv0 + n
        f["g_last"] = (cx.Opaque("loc_en_sw"), cx.Opaque("tot_en_sw"))
        f["g_nsweeps"] = f["g_nsweeps"] + 1
        me = new_me(cx, "ready", begin="left" if a.direction == "R" else "right", L=L, bsz=bsz, name="sw")
        cx.fields(me)["envs_set"] = True
        f["ME_eff_ham"] = me
        cx.events.append(("sweep", a.direction, a.canonize, dict(a.update_opts)))
        return f["g_last"][1]


class SweepDir(DContract):
    direction = None
    floor = 4

    def cases(self):
        return [NS(name=f"bsz={b},canonize={c},opts={o}", bsz=b, canonize=c, opts=o)
                for b in (1, 2) for c in (True, False) for o in ("given", "none")]

    def inputs(self, cx, case):
        ref = new_dmrg(cx, case.bsz)
        opts = UpdateLocal.mk_opts(self, cx, case)
        a = NS(dict(self=ref, canonize=case.canonize, verbosity=0, update_opts=opts))
        sw = REGISTRY[Sweep.target]
        for c in sw.reqs(cx, NS(dict(self=ref, direction=self.direction, canonize=case.canonize))).values():
            cx.assume(c)
        return a

    def ensures(self, a, r, cx, case):
        f = cx.fields(a.self)
        m = cx.fields(f["_k"])
        sweeps = [e for e in cx.events if e[0] == "sweep"]
        d = {"exactly-one-sweep": len(sweeps) == 1}
        if len(sweeps) != 1:
            return d
        _, direction, canonize, opts = sweeps[0]
        d["sweeps-in-the-named-direction"] = direction == self.direction
        d["canonize-flag-handed-on"] = canonize is a.canonize
        d["update-options-handed-on-unchanged"] = set(opts) == set(a.update_opts) and all(opts[k] is a.update_opts[k] for k in opts)
        d["returns-the-sweep's-energy"] = r is f["g_last"][1]
        d["gauge after the sweep"] = sweep_post_gauge(m, self.direction)
        return d


@register
class SweepRight(SweepDir):
    target = f"{DMRGC}.sweep_right"
    direction = "R"


@register
class SweepLeft(SweepDir):
    target = f"{DMRGC}.sweep_left"
    direction = "L"


# ---- solve -------------------------------------------------------------------------------------------------


@register
class Solve(DContract):
    """DMRG.solve on an open chain:
    * sweep number t (t = 0, 1, ...) of this call receives max_bond = item k0+t of the bond schedule and cutoff = item c0+t
      of the cutoff schedule (k0, c0: items consumed before the loop; 0 when the schedule is passed to solve), and DMRG1's
      expand_bond_dimension receives the same max_bond (call-argument obligations);
    * canonize = not (direction + previous in {'LR', 'RL'}): a sweep that does not canonize first always follows a sweep in
      the opposite direction, whose post-condition is the gauge it relies on (call-pre of sweep, from the loop invariant);
    * with bsz = 2 every bond is <= the last scheduled max_bond afterwards.
    KNOWN DEFECT (kept failing): max_sweeps = 0 returns a variable that was never bound."""

    target = f"{DMRGC}.solve"
    floor = 40
    havoc_sweep_ghosts = True

    def cases(self):
        out = []
        for b in (1, 2):
            for bd in ("None", "int", "sequence"):
                for sw in ("None", "given"):
                    for supp in (True, False):
                        if (bd != "None" or sw != "None") and not supp:
                            continue
                        out.append(NS(name=f"bsz={b},bond_dims={bd},sweep_sequence={sw},suppress_warnings={supp}", bsz=b, bd=bd,
                                      sw=sw, supp=supp))
        return out

    def inputs(self, cx, case):
        ref = new_dmrg(cx, case.bsz)
        bond_dims = cutoffs = None
        if case.bd == "int":
            bond_dims, cutoffs = cx.Int("bond_dims"), cx.Real("cutoffs")
        elif case.bd == "sequence":
            n, nc = cx.Int("n_bd"), cx.Int("n_co")
            cx.assume(And(n >= 1, nc >= 1))
            bond_dims, cutoffs = SeqV(n, cx.Array("bds", IntS, IntS)), SeqV(nc, cx.Array("cos", IntS, z3.RealSort()))
        max_sweeps = cx.Int("max_sweeps")
        cx.assume(max_sweeps >= 0)
        return dict(self=ref, tol=cx.Real("tol"), bond_dims=bond_dims, cutoffs=cutoffs,
                    sweep_sequence=None if case.sw == "None" else SweepSeqV(), max_sweeps=max_sweeps, verbosity=0,
                    suppress_warnings=case.supp)

    # ---- loop
    def snap(self, cx):
        if "loop_entry" not in cx.ghost:
            f = cx.fields(cx.ghost["self"])
            bd, co = f["_bond_dims"], f["_cutoffs"]
            cx.ghost["loop_entry"] = dict(bd=bd, co=co, bd_k=cx.fields(bd)["k"], co_k=cx.fields(co)["k"], nsw=f["g_nsweeps"])
        return cx.ghost["loop_entry"]

    def inv(self, v):
        cx = v.cx
        g = self.snap(cx)
        f = cx.fields(v.self)
        m = cx.fields(f["_k"])
        t = v._it0
        prev = v.previous_direction
        d = {"schedule-iterators-kept": f["_bond_dims"] == g["bd"] and f["_cutoffs"] == g["co"],
             "bond-schedule-position == k0 + t": Z(cx.fields(g["bd"])["k"]) == Z(g["bd_k"]) + t,
             "cutoff-schedule-position == c0 + t": Z(cx.fields(g["co"])["k"]) == Z(g["co_k"]) + t,
             "sweeps-run == t <= max_sweeps": And(f["g_nsweeps"] == g["nsw"] + t, t <= v.max_sweeps),
             "previous-direction-is-a-marker": prev in ("0", "L", "R"),
             "no-sweep-yet <=> previous == '0'": (t == 0) if prev == "0" else (t >= 1)}
        if prev in ("L", "R"):
            d["gauge: canonical as the previous sweep left it"] = sweep_post_gauge(m, prev)
            if f["bsz"] == 2:
                d["every bond <= the max_bond of the previous sweep"] = \
                    forall_sites(Implies(And(0 <= K, K < f["L"] - 1), sel(m["capd"], K)))
        return d

    @staticmethod
    def retype_prev(cx):
        p = cx.Int("prev")
        cx.assume(And(0 <= p, p <= 2))
        if cx.decide(p == 0):
            return "0"
        return "R" if cx.decide(p == 1) else "L"

    @property
    def loops(self):
        return {0: Loop("for _ in range(max_sweeps)", self.inv,
                        retype={"previous_direction": self.retype_prev,
                                # bound only after a first sweep -- unless the code binds it before the loop
                                "converged": lambda cx: cx.Bool("converged_hv")
                                if ("converged" in cx.env and not isinstance(cx.env["converged"], MaybeUnbound))
                                else MaybeUnbound(cx.Bool("converged_hv"), "_it0")})}

    def truth_of(self, v):
        return v

    def call(self, cx, name, args, kwargs, node):
        line = getattr(node, "lineno", 0)
        if name in (".sweep", ".expand_bond_dimension") and "loop_entry" in cx.ghost:
            g = cx.ghost["loop_entry"]
            t = cx.env.get("_it0")
            want_mb = cx.fields(g["bd"])["item"](Z(g["bd_k"]) + t)
            want_co = cx.fields(g["co"])["item"](Z(g["co_k"]) + t)
            if name == ".sweep":
                mb, co = kwargs.get("max_bond"), kwargs.get("cutoff")
                cx.oblige(f"call-arg@{line}:sweep: sweep number t receives max_bond = item k0+t of the bond schedule", "call-arg",
                          (mb == want_mb) if is_z3(mb) or is_int(mb) else False, line)
                cx.oblige(f"call-arg@{line}:sweep: sweep number t receives cutoff = item c0+t of the cutoff schedule", "call-arg",
                          (R(co) == R(want_co)) if is_z3(co) or isinstance(co, (int, float)) else False, line)
            else:
                nb = args[1] if len(args) > 1 else kwargs.get("new_bond_dim")
                cx.oblige(f"call-arg@{line}:expand_bond_dimension: receives the scheduled max_bond of this sweep", "call-arg",
                          (nb == want_mb) if is_z3(nb) or is_int(nb) else False, line)
        return super().call(cx, name, args, kwargs, node)

    def ensures(self, a, r, cx, case):
        f, p = cx.fields(a.self), cx.pre(a.self)
        m = cx.fields(f["_k"])
        t = cx.env.get("_it0")
        d = {}
        if isinstance(r, MaybeUnbound):
            d["returned-variable-is-bound (at least one sweep ran)"] = cx.env[r.nbound] >= 1
            r = r.value
        d["returns-the-convergence-flag"] = is_z3(r) and z3.is_bool(r)
        g = cx.ghost.get("loop_entry")
        d["loop-reached"] = g is not None
        if g is None:
            return d
        if a.bond_dims is not None:
            d["schedule passed to solve starts at its first item"] = And(Z(g["bd_k"]) == 0, Z(g["co_k"]) == 0)
            k = KS
            d["schedule passed to solve: item k is bond_dims[min(k, len-1)]"] = Implies(
                k >= 0, cx.fields(g["bd"])["item"](k) == SetSeq.spec_item(a.bond_dims, k))
        else:
            d["schedule-not-reset"] = g["bd"] == p["_bond_dims"] and g["co"] == p["_cutoffs"]
        sweeps = f["g_nsweeps"] - g["nsw"]
        d["schedules advance by the number of sweeps run"] = And(
            Z(cx.fields(g["bd"])["k"]) == Z(g["bd_k"]) + sweeps, Z(cx.fields(g["co"])["k"]) == Z(g["co_k"]) + sweeps,
            sweeps <= a.max_sweeps)
        if case.bsz == 2:
            d["every bond <= the last scheduled max_bond (bsz = 2)"] = Implies(
                sweeps >= 1, forall_sites(Implies(And(0 <= K, K < f["L"] - 1), sel(m["capd"], K))))
        return d

    def replay(self, model):
        import warnings

        import quimb.tensor as qtn

        warnings.simplefilter("ignore")
        try:
            r = qtn.DMRG2(qtn.MPO_ham_heis(4), bond_dims=8).solve(max_sweeps=0)
            obs = f"returned {r!r}"
        except Exception as e:  # noqa
            obs = f"{type(e).__name__}: {e}"
        return dict(call="DMRG2(MPO_ham_heis(4), bond_dims=8).solve(max_sweeps=0)", observed=obs,
                    reproduced=obs.startswith("UnboundLocalError"))


# ======================================================================================================
# C09: 1D compression sweeps (tn1d/core.py): bond-cap threading + promised canonical form
# ======================================================================================================

FLAT = f"{T1}::TensorNetwork1DFlat"
ABSENT = "<absent>"
OPT_TRACKED = ("max_bond", "cutoff")


def opts_match(kwargs, want):
    """the options a compress call received are exactly the requested ones (an absent option must be absent)"""
    out = []
    for key in OPT_TRACKED:
        a, b = kwargs.get(key, ABSENT), want.get(key, ABSENT)
        if a is ABSENT or b is ABSENT:
            out.append(a is ABSENT and b is ABSENT)
        elif a is None or b is None:
            out.append(a is None and b is None)
        elif is_z3(a) or is_z3(b):
            x, y = Z(a), Z(b)
            out.append(R(x) == R(y) if x.sort() != y.sort() else x == y)
        else:
            out.append(a == b)
    return And(*out)


def new_cmps(cx, opts, name="mps"):
    """an open-boundary 1D flat network with mpsghost + ghost ``capd`` (bond (k,k+1) was last compressed by a call that
    received exactly the requested options ``g_opts``, hence is <= the requested max_bond)"""
    L = cx.Int("L")
    ref = cx.new_obj("MPS", L=L, cyclic=False, isL=cx.Array(f"isL_{name}", IntS, BoolS), isR=cx.Array(f"isR_{name}", IntS, BoolS),
                     capd=cx.Array(f"capd_{name}", IntS, BoolS), g_opts={k: v for k, v in opts.items() if k in OPT_TRACKED})
    cx.ghost["self"] = ref
    cx.assume(L >= 1)
    return ref


def compress_opts_of(cx, kind):
    if kind == "none":
        return {}
    d = {"max_bond": cx.Int("max_bond"), "cutoff": cx.Real("cutoff")}
    if kind == "cap+both":
        d["absorb"] = "both"
    return d


OPT_KINDS = ("none", "cap", "cap+both")


def site_effect(reduced, absorb):
    """[leaf reading of tensor_compress_bond] which tensor is left isometric afterwards: 'l' (towards the right
    neighbour), 'r', or None.  reduced='left' decomposes only the left tensor (isometric iff absorb='right'), reduced='right'
    only the right one (isometric iff absorb='left'), reduced=True / False / 'lazy' follow absorb"""
    if absorb == "right" and reduced != "right":
        return "l"
    if absorb == "left" and reduced != "left":
        return "r"
    return None


class CContract(c08.MPSContract):
    property_ids = ("C09",)
    ghost_fields = ()
    drops = "decorators, docstrings"

    def havoc_heap(self, cx):
        for oid, f in cx.heap.items():
            if "isL" in f:
                f["isL"], f["isR"] = cx.Array("isL_hv", IntS, BoolS), cx.Array("isR_hv", IntS, BoolS)
                if "capd" in f:
                    f["capd"] = cx.Array("capd_hv", IntS, BoolS)

    def call(self, cx, name, args, kwargs, node):
        line = getattr(node, "lineno", 0)
        if name == "tensor_compress_bond":
            return self.leaf_compress_bond(cx, args, kwargs, node)
        if name.startswith(".") and isinstance(args[0], Ref) and args[0].kind == "MPS" and name[1:] in COMPRESS_METHODS:
            return cx.call_contract(REGISTRY[COMPRESS_METHODS[name[1:]]], list(args[1:]), kwargs, node, recv=args[0])
        return super().call(cx, name, args, kwargs, node)

    def leaf_compress_bond(self, cx, args, kwargs, node):
        """[leaf, C05 + reading of tensor_core.tensor_compress_bond] tensor_compress_bond(tl, tr, absorb, reduced, max_bond,
        cutoff, ...): the bond between the two tensors is <= max_bond afterwards; the non-absorbing tensor is isometric
        (see site_effect); no other tensor is touched"""
        line = node.lineno
        ok = len(args) == 2 and isinstance(args[0], c08.Site) and isinstance(args[1], c08.Site) and args[0].mps == args[1].mps
        oblige_structural(cx, f"call-arg@{line}:tensor_compress_bond: two site tensors of this network", "call-arg", ok, line)
        if not ok:
            raise Unsupported("tensor_compress_bond call shape")
        tl, tr = args
        f = cx.fields(tl.mps)
        cx.oblige(f"call-pre@{line}:tensor_compress_bond: (left, right) neighbours in this order", "call-pre", tr.i == tl.i + 1, line)
        absorb, reduced = kwargs.get("absorb", "both"), kwargs.get("reduced", True)
        if not isinstance(absorb, (str, type(None))) or not isinstance(reduced, (str, bool)):
            raise Unsupported("symbolic absorb / reduced")
        eff = site_effect(reduced, absorb)
        f["isL"] = z3.Store(z3.Store(f["isL"], tl.i, True if eff == "l" else cx.Bool("hv")), tr.i, cx.Bool("hv"))
        f["isR"] = z3.Store(z3.Store(f["isR"], tl.i, cx.Bool("hv")), tr.i, True if eff == "r" else cx.Bool("hv"))
        f["capd"] = z3.Store(f["capd"], tl.i, opts_match(kwargs, f["g_opts"]))
        cx.events.append(("compress_bond", tl.i, dict(kwargs)))
        return None


@register
class SetDefaultCompressMode(Contract):
    """set_default_compress_mode(opts, cyclic): only ever ADDS the key cutoff_mode"""

    target = f"{T1}::set_default_compress_mode"
    property_ids = ("C09",)
    floor = 2

    def cases(self):
        return [NS(name=f"opts={k},mode={m}", kind=k, mode=m) for k in OPT_KINDS for m in ("absent", "given")]

    def inputs(self, cx, case):
        opts = compress_opts_of(cx, case.kind)
        if case.mode == "given":
            opts["cutoff_mode"] = cx.Opaque("cutoff_mode")
        cx.ghost["before"] = dict(opts)
        return dict(opts=opts, cyclic=False)

    def ensures(self, a, r, cx, case):
        before = cx.ghost["before"]
        d = {"returns-None": r is None,
             "every-caller-option-untouched": all(k in a.opts and a.opts[k] is v for k, v in before.items()),
             "only-cutoff_mode-added": set(a.opts) == set(before) | {"cutoff_mode"}}
        if "cutoff_mode" not in before:
            d["open-boundary-default"] = a.opts.get("cutoff_mode") == "rsum2"
        return d

    def apply(self, cx, a, node, case=None):
        if not isinstance(a.opts, dict) or a.cyclic is not False:
            raise Unsupported("set_default_compress_mode call shape")
        a.opts.setdefault("cutoff_mode", "rsum2")
        return None


class CompressSite(CContract):
    """left_/right_compress_site(i, **opts): exactly one tensor_compress_bond on the bond next to i, which receives the
    caller's options unchanged (max_bond, cutoff; defaults only ADDED: absorb, reduced, cutoff_mode); by default site i
    becomes isometric towards the absorbing neighbour; nothing else is touched"""

    floor = 10
    side = None  # "left": bond (i, i+1), site i left isometric;  "right": bond (i-1, i), site i right isometric

    def cases(self):
        return [NS(name=f"opts={k}", kind=k) for k in OPT_KINDS]

    def bond(self, i):
        return i if self.side == "left" else i - 1

    def inputs(self, cx, case):
        opts = compress_opts_of(cx, case.kind)
        ref = new_cmps(cx, opts)
        i = cx.Int("i")
        cx.assume(self.in_range(cx.fields(ref)["L"], i))
        return dict(self=ref, i=i, bra=None, create_bond=False, compress_opts=opts)

    def in_range(self, L, i):
        return And(0 <= self.bond(i), self.bond(i) + 1 < L)

    def requires(self, a, case):
        return {"bra-none": a.get("bra") is None}

    def case_of_call(self, cx, a):
        return NS(name="call", kind="call")

    def modifies(self, a, case):
        return [(a.self, ["isL", "isR", "capd"])]

    def fresh_result(self, cx, a, case):
        return None

    def apply(self, cx, a, node, case=None):
        nm = self.target.split(".")[-1]
        L = cx.fields(a.self)["L"]
        cx.oblige(f"call-pre@{node.lineno}:{nm}: the bond next to site i exists", "call-pre", self.in_range(L, a.i), node.lineno)
        absorb = a.compress_opts.get("absorb")
        if not isinstance(absorb, (str, type(None))):
            raise Unsupported("symbolic absorb")
        return super().apply(cx, a, node, case)

    def ensures(self, a, r, cx, case):
        f, p = cx.fields(a.self), cx.pre(a.self)
        i, b = a.i, self.bond(a.i)
        # (the body adds its defaults to the caller's dict in place: the specification reads the ENTRY snapshot)
        opts = cx.ghost["opts0"] if cx.contract is self else a.compress_opts
        absorb = opts.get("absorb", "right" if self.side == "left" else "left")
        reduced = opts.get("reduced", self.side)
        eff = site_effect(reduced, absorb)
        d = {"returns-None": r is None}
        if self.side == "left" and eff == "l":
            d["site-i-left-isometric"] = sel(f["isL"], i)
        if self.side == "right" and eff == "r":
            d["site-i-right-isometric"] = sel(f["isR"], i)
        d["frame: only the two sites of the bond touched"] = gauge_unchanged_where(f, p, lambda k: And(k != b, k != b + 1))
        d["frame: only this bond resized"] = capd_unchanged_except(f, p, b)
        d["bond compressed with exactly the caller's max_bond / cutoff"] = sel(f["capd"], b) == opts_match(opts, f["g_opts"])
        if cx.contract is self:
            ev = [e for e in cx.events if e[0] == "compress_bond"]
            d["exactly-one-compress-call"] = len(ev) == 1
            if len(ev) == 1:
                kw = ev[0][2]
                d["compress-call-receives-every-caller-option-unchanged"] = all(k in kw and kw[k] is v for k, v in cx.ghost["opts0"].items())
                d["create_bond-handed-on"] = kw.get("create_bond") is a.create_bond
        return d


def _site_inputs(self, cx, case):
    d = CompressSite.inputs(self, cx, case)
    cx.ghost["opts0"] = dict(d["compress_opts"])
    return d


@register
class LeftCompressSite(CompressSite):
    target = f"{FLAT}.left_compress_site"
    side = "left"
    inputs = _site_inputs


@register
class RightCompressSite(CompressSite):
    target = f"{FLAT}.right_compress_site"
    side = "right"
    inputs = _site_inputs


class CompressSweep(CContract):
    """left_compress / right_compress(start, stop, **opts): every bond of the swept range is compressed by a call that
    receives the caller's max_bond / cutoff unchanged (loop invariant over the swept prefix); with the default absorb the
    swept sites become left / right isometries; nothing outside the range is touched"""

    floor = 12
    side = None

    def cases(self):
        return [NS(name=f"start={s},stop={e},opts={k}", sk=s, ek=e, kind=k)
                for s in ("None", "int") for e in ("None", "int") for k in OPT_KINDS]

    def bounds(self, L, a):
        if self.side == "left":
            return (0 if a.start is None else a.start), (L - 1 if a.stop is None else a.stop)
        return (L - 1 if a.start is None else a.start), (0 if a.stop is None else a.stop)

    def range_ok(self, L, a):
        s, e = self.bounds(L, a)
        return And(0 <= s, e <= L - 1) if self.side == "left" else And(s <= L - 1, 0 <= e)

    def inputs(self, cx, case):
        opts = compress_opts_of(cx, case.kind)
        ref = new_cmps(cx, opts)
        a = NS(dict(self=ref, start=None if case.sk == "None" else cx.Int("start"),
                    stop=None if case.ek == "None" else cx.Int("stop"), bra=None, create_bond=False, compress_opts=opts))
        cx.assume(self.range_ok(cx.fields(ref)["L"], a))
        return a

    def requires(self, a, case):
        return {"bra-none": a.get("bra") is None}

    def case_of_call(self, cx, a):
        return NS(name="call", kind="call")

    def modifies(self, a, case):
        return [(a.self, ["isL", "isR", "capd"])]

    def fresh_result(self, cx, a, case):
        return None

    def apply(self, cx, a, node, case=None):
        nm = self.target.split(".")[-1]
        L = cx.fields(a.self)["L"]
        cx.oblige(f"call-pre@{node.lineno}:{nm}: swept range inside the chain", "call-pre", self.range_ok(L, a), node.lineno)
        oblige_structural(cx, f"call-pre@{node.lineno}:{nm}: bra is None", "call-pre", a.get("bra") is None, node.lineno)
        # the abstract effect stated by `ensures` (proved for the body), written as array definitions (lambda terms)
        # instead of quantified assumptions: callers' obligations stay decidable (models for failed ones)
        f = cx.fields(a.self)
        s, e = self.bounds(L, a)
        absorb = a.compress_opts.get("absorb", "right" if self.side == "left" else "left")
        reduced = a.compress_opts.get("reduced", self.side)
        if not isinstance(absorb, (str, type(None))) or not isinstance(reduced, (str, bool)):
            raise Unsupported("symbolic absorb / reduced")
        eff = site_effect(reduced, absorb)
        match = Z(opts_match(a.compress_opts, f["g_opts"]))
        hvL, hvR = cx.Array("isL_cs", IntS, BoolS), cx.Array("isR_cs", IntS, BoolS)
        if self.side == "left":
            end = Max(e, s)
            done, outside = And(s <= K, K < end), Or(K < s, K > end, end <= s)
            bond_done = done
            newL = If(outside, sel(f["isL"], K), If(done, True, sel(hvL, K)) if eff == "l" else sel(hvL, K))
            newR = If(outside, sel(f["isR"], K), sel(hvR, K))
        else:
            end = Min(e, s)
            done, outside = And(end < K, K <= s), Or(K > s, K < end, end >= s)
            bond_done = And(end <= K, K < s)
            newL = If(outside, sel(f["isL"], K), sel(hvL, K))
            newR = If(outside, sel(f["isR"], K), If(done, True, sel(hvR, K)) if eff == "r" else sel(hvR, K))
        newC = If(bond_done, match, sel(f["capd"], K))
        f["isL"], f["isR"], f["capd"] = z3.Lambda([K], newL), z3.Lambda([K], newR), z3.Lambda([K], newC)
        return None

    def swept(self, a, lo, hi):
        """facts about the swept sites / bonds for lo <= K < hi (left) resp. lo < K <= hi (right)"""

    def post(self, cx, a, f, p, upto):
        """state after the sweep has reached `upto` (the next site the loop would treat)"""
        L = p["L"]
        s, e = self.bounds(L, a)
        absorb = a.compress_opts.get("absorb", "right" if self.side == "left" else "left")
        reduced = a.compress_opts.get("reduced", self.side)
        eff = site_effect(reduced, absorb)
        match = opts_match(a.compress_opts, f["g_opts"])
        d = {}
        if self.side == "left":
            done = And(s <= K, K < upto)
            if eff == "l":
                d["swept-sites-left-isometric"] = forall_sites(Implies(done, sel(f["isL"], K)))
            d["swept-bonds compressed with exactly the caller's max_bond / cutoff"] = \
                forall_sites(Implies(done, sel(f["capd"], K) == match))
            d["frame: sites outside the swept range untouched"] = gauge_unchanged_where(f, p, lambda k: Or(k < s, k > upto, upto <= s))
            d["frame: bonds outside the swept range untouched"] = \
                forall_sites(Implies(Or(K < s, K >= upto), sel(f["capd"], K) == sel(p["capd"], K)))
        else:
            done = And(upto < K, K <= s)
            if eff == "r":
                d["swept-sites-right-isometric"] = forall_sites(Implies(done, sel(f["isR"], K)))
            # (bond K = (K, K+1) is the one next to the swept site K+1)
            d["swept-bonds compressed with exactly the caller's max_bond / cutoff"] = \
                forall_sites(Implies(And(upto <= K, K < s), sel(f["capd"], K) == match))
            d["frame: sites outside the swept range untouched"] = gauge_unchanged_where(f, p, lambda k: Or(k > s, k < upto, upto >= s))
            d["frame: bonds outside the swept range untouched"] = \
                forall_sites(Implies(Or(K >= s, K < upto), sel(f["capd"], K) == sel(p["capd"], K)))
        return d

    def ensures(self, a, r, cx, case):
        f, p = cx.fields(a.self), cx.pre(a.self)
        s, e = self.bounds(p["L"], a)
        end = Max(e, s) if self.side == "left" else Min(e, s)
        d = {"returns-None": r is None}
        d.update(self.post(cx, a, f, p, end))
        return d

    def inv(self, v):
        cx = v.cx
        o = v.old
        f, p = cx.fields(o.self), cx.old_heap[o.self.oid]
        s, e = self.bounds(p["L"], o)
        d = {"i-range": And(s <= v.i, Or(v.i <= e, v.i == s)) if self.side == "left" else And(v.i <= s, Or(v.i >= e, v.i == s))}
        d.update(self.post(cx, o, f, p, v.i))
        return d

    @property
    def loops(self):
        return {0: Loop("for i in range(start, stop)" if self.side == "left" else "for i in range(start, stop, -1)", self.inv)}


@register
class LeftCompress(CompressSweep):
    target = f"{FLAT}.left_compress"
    side = "left"


@register
class RightCompress(CompressSweep):
    target = f"{FLAT}.right_compress"
    side = "right"


@register
class Compress(CContract):
    """compress(form, **opts): EVERY bond (k, k+1), 0 <= k < L-1, is compressed by a call that receives the caller's
    max_bond / cutoff unchanged (hence max_bond() <= cap), and the promised canonical form holds afterwards: 'right' /
    None: every site but 0 right-isometric; 'left': every site but L-1 left-isometric; int c: centre at c; 'flat': no
    isometry claim (absorb='both' from both ends, meeting at L // 2)"""

    target = f"{FLAT}.compress"
    floor = 12
    raises = {"ValueError": lambda a: not (a.form is None or is_int(a.form) or (isinstance(a.form, str) and
                                                                                  a.form in ("left", "right", "flat")))}

    def cases(self):
        return [NS(name=f"form={fm},opts={k}", form=fm, kind=k) for fm in ("None", "left", "right", "flat", "int", "other")
                for k in ("none", "cap")]

    def inputs(self, cx, case):
        opts = compress_opts_of(cx, case.kind)
        ref = new_cmps(cx, opts)
        form = {"None": None, "int": cx.Int("form"), "other": "centre"}.get(case.form, case.form)
        if case.form == "int":
            cx.assume(And(0 <= form, form < cx.fields(ref)["L"]))
        return dict(self=ref, form=form, create_bond=False, compress_opts=opts)

    def call(self, cx, name, args, kwargs, node):
        if name in (".left_canonize", ".right_canonize") and isinstance(args[0], Ref):
            cx.events.append(("canonize", name[1:], dict(kwargs)))
        return super().call(cx, name, args, kwargs, node)

    def ensures(self, a, r, cx, case):
        f, p = cx.fields(a.self), cx.pre(a.self)
        L = p["L"]
        form = "right" if a.form is None else a.form
        d = {"returns-None": r is None}
        if not (is_int(form) or form in ("left", "right", "flat")):
            return {"must-raise-ValueError-for-an-unknown-form": False}
        d["every bond compressed with exactly the caller's max_bond / cutoff (max_bond() <= cap)"] = \
            forall_sites(Implies(And(0 <= K, K < L - 1), sel(f["capd"], K)))
        if is_int(form):
            d["mixed-canonical with centre at form"] = And(
                forall_sites(Implies(And(0 <= K, K < form), sel(f["isL"], K))),
                forall_sites(Implies(And(form < K, K < L), sel(f["isR"], K))))
        elif form == "right":
            d["right-canonical: every site but 0 right-isometric"] = forall_sites(Implies(And(0 < K, K < L), sel(f["isR"], K)))
        elif form == "left":
            d["left-canonical: every site but L-1 left-isometric"] = forall_sites(Implies(And(0 <= K, K < L - 1), sel(f["isL"], K)))
        return d


COMPRESS_METHODS = {"left_compress_site": LeftCompressSite.target, "right_compress_site": RightCompressSite.target,
                    "left_compress": LeftCompress.target, "right_compress": RightCompress.target}


# ======================================================================================================
# C12: 2D boundary contraction -- interleaved boundary bookkeeping, option threading (tn2d/core.py)
# ======================================================================================================

TN2 = f"{T2}::TensorNetwork2D"
DIRS2 = ("xmin", "xmax", "ymin", "ymax")
# the operations of the handler on the working network; each is DECLARED value preserving (exact when untruncated):
#   from: contract_boundary_from_ (one boundary row / column contracted into its neighbour, then compressed),
#   equalize: equalize_norms_ (redistributes norms / the stored exponent), contract: the final exact contraction
VALUE_PRESERVING_OPS = ("from", "equalize", "contract")


class DirList:
    """a python list of boundary directions whose content is abstracted: only its length n is tracked; every element is
    one of xmin / xmax / ymin / ymax"""

    def __init__(self, n):
        self.n = n

    @property
    def truth(self):
        return self.n > 0


class DirSpec:
    """a user-given sequence specification (parsed by parse_boundary_sequence)"""


class AroundV:
    """a non-empty collection of (x, y) coordinates"""


class AroundProj:
    def __init__(self, axis):
        self.axis = axis


def same_value(a, b):
    """identity of two option values (opaque values: equality of their constants)"""
    if isinstance(a, Opaque) and isinstance(b, Opaque):
        return a.z == b.z
    if is_z3(a) and is_z3(b) and a.sort() == b.sort():
        return a == b
    if (is_z3(a) or isinstance(a, (int, float))) and (is_z3(b) or isinstance(b, (int, float))) and \
            not isinstance(a, bool) and not isinstance(b, bool):
        return R(a) == R(b)
    if isinstance(a, (str, bool, type(None))) or isinstance(b, (str, bool, type(None))):
        return type(a) is type(b) and a == b
    return a is b


def seqlen(s):
    return s.n if isinstance(s, DirList) else len(s)


def new_tn2d(cx, name="tn"):
    ref = cx.new_obj("TN2D", Lx=cx.Int("Lx"), Ly=cx.Int("Ly"), g_ext={d: cx.Int(f"g_{d}_{name}") for d in DIRS2}, g_ext_set=False)
    cx.ghost["self"] = ref
    f = cx.fields(ref)
    cx.assume(And(f["Lx"] >= 1, f["Ly"] >= 1))
    return ref


class T2Contract(Contract):
    property_ids = ("C12",)
    drops = "decorators, docstrings, ascii-art comments"

    def on_fstring(self, cx, n):
        """f"{d}max" with concrete parts is the concrete python string (dict keys of the bookkeeping)"""
        out = []
        for part in n.values:
            if isinstance(part, ast.Constant) and isinstance(part.value, str):
                out.append(part.value)
            elif isinstance(part, ast.FormattedValue) and part.format_spec is None and part.conversion == -1:
                v = cx.ev(part.value)
                if not isinstance(v, (str, int)) or isinstance(v, bool):
                    return NotImplemented
                out.append(str(v))
            else:
                return NotImplemented
        return "".join(out)

    def attr(self, cx, base, attr, node):
        if base is None and attr == "all":
            return ALL
        if isinstance(base, Ref) and base.kind == "TN2D" and attr in ("Lx", "Ly"):
            return cx.fields(base)[attr]
        return NotImplemented

    def call(self, cx, name, args, kwargs, node):
        if name == "__getitem__" and isinstance(args[0], str) and isinstance(args[1], int):
            if not -len(args[0]) <= args[1] < len(args[0]):
                raise PyRaise("IndexError", getattr(node, "lineno", 0))
            return args[0][args[1]]
        if name == "ensure_dict" and len(args) == 1:
            return {} if args[0] is None else dict(args[0])  # [leaf, utils.ensure_dict] {} for None, else a dict copy
        if name == "__binop__" and args[0] == "Add" and all(isinstance(x, (int, bool)) or (is_z3(x) and (z3.is_bool(x) or z3.is_int(x)))
                                                              for x in args[1:]):
            return I(args[1]) + I(args[2])  # True + True == 2
        if name == ".copy" and isinstance(args[0], Ref) and args[0].kind == "TN2D" and len(args) == 1:
            f = cx.fields(args[0])
            return cx.new_obj("TN2D", Lx=f["Lx"], Ly=f["Ly"], g_ext=dict(f["g_ext"]), g_ext_set=f["g_ext_set"], copy_of=args[0])
        if name in (".is_cyclic_x", ".is_cyclic_y") and isinstance(args[0], Ref):
            return cx.Bool(name[1:])
        return NotImplemented


@register
class InterleavedSequence(T2Contract):
    """_contract_interleaved_boundary_sequence: the dict bookkeeping IS the extent of the working network (ghost extent
    advanced by the leaf contract_boundary_from_): separations[d] == boundaries[dmax] - boundaries[dmin]; every range
    handed on is the current boundary row / column and its inner neighbour, inside the current extent, spanning the full
    current extent of the other dimension; opposing boundaries never get closer than max_separation; the loop terminates;
    every operation is applied to the working network (the receiver iff inplace) and is one of the declared value
    preserving ones; contract_boundary_opts (max_bond, cutoff, ...) reach every contract_boundary_from_ call unchanged."""

    target = f"{TN2}._contract_interleaved_boundary_sequence"
    floor = 60

    def cases(self):
        out = []

        def add(ip, ar, sq, bd, eq="auto", strip=False, final=True):
            out.append(NS(name=f"inplace={ip},around={ar},sequence={sq},borders={bd},equalize_norms={eq},strip_exponent={strip},"
                          f"final_contract={final}", inplace=ip, around=ar, sequence=sq, borders=bd, eq=eq, strip=strip, final=final))

        for ip in (True, False):
            for ar in ("None", "given"):
                for sq in ("None", "given"):
                    for bd in ("auto", "given"):
                        add(ip, ar, sq, bd)
        add(False, "None", "given", "auto", "auto", True, True)
        add(False, "None", "given", "auto", True, False, False)
        add(True, "None", "given", "auto", False, True, True)
        return out

    def inputs(self, cx, case):
        ref = new_tn2d(cx)
        opts = {"max_bond": cx.Int("max_bond"), "cutoff": cx.Real("cutoff"), "mode": cx.Opaque("mode"),
                "canonize": cx.Bool("canonize"), "layer_tags": cx.Opaque("layer_tags"), "compress_opts": cx.Opaque("compress_opts")}
        cx.ghost["opts0"] = dict(opts)
        b = {d: (cx.Int(d) if case.borders == "given" else None) for d in DIRS2}
        if case.borders == "given":
            cx.assume(And(b["xmin"] <= b["xmax"], b["ymin"] <= b["ymax"]))
        ms = cx.Int("max_separation")
        cx.assume(ms >= 0)
        return dict(self=ref, contract_boundary_opts=opts, sequence=None if case.sequence == "None" else DirSpec(),
                    xmin=b["xmin"], xmax=b["xmax"], ymin=b["ymin"], ymax=b["ymax"], max_separation=ms,
                    max_unfinished=cx.Int("max_unfinished"), around=None if case.around == "None" else AroundV(),
                    strip_exponent=case.strip, equalize_norms=case.eq, final_contract=case.final,
                    final_contract_opts=None, optimize="auto-hq", progbar=False, inplace=case.inplace)

    # ---- hooks
    def on_listcomp(self, cx, n):
        """[d for d in sequence if not _is_finished(d)] over a tuple of directions: an arbitrary SUB-LIST (content abstract,
        only the length is tracked); the 2**len outcomes of the filter are irrelevant for every obligation and the closure
        _is_finished is executed for real at every iteration of the loop"""
        if len(n.generators) == 1 and n.generators[0].ifs and isinstance(n.elt, ast.Name) and \
                isinstance(n.generators[0].target, ast.Name) and n.elt.id == n.generators[0].target.id:
            it = cx.ev(n.generators[0].iter)
            if isinstance(it, (tuple, list)) and all(isinstance(x, str) and x in DIRS2 for x in it):
                it = DirList(len(it))
            if isinstance(it, DirList):
                k = cx.Int("n_kept")
                cx.assume(And(0 <= k, k <= it.n))
                return DirList(k)
        return NotImplemented

    def call(self, cx, name, args, kwargs, node):
        line = getattr(node, "lineno", 0)
        if name == ".get_ranges_present" and isinstance(args[0], Ref):
            # [leaf] ((xmin, xmax), (ymin, ymax)) of the coordinates present: non-empty ranges
            x0, x1, y0, y1 = cx.Int("auto_xmin"), cx.Int("auto_xmax"), cx.Int("auto_ymin"), cx.Int("auto_ymax")
            cx.assume(And(x0 <= x1, y0 <= y1))
            cx.ghost["auto"] = dict(xmin=x0, xmax=x1, ymin=y0, ymax=y1)
            return ((x0, x1), (y0, y1))
        if name == "parse_boundary_sequence":
            # [leaf] a tuple of strings from {xmin, xmax, ymin, ymax}, of any length (repeats allowed)
            n = cx.Int("n_seq")
            cx.assume(n >= 0)
            return DirList(n)
        if name == "__genexp__":
            n = args[0]
            it = cx.ev(n.generators[0].iter)
            if isinstance(it, DirList) and isinstance(n, ast.ListComp):
                # [d for d in sequence if not _is_finished(d)]: a sub-list (content abstract)
                k = cx.Int("n_kept")
                cx.assume(And(0 <= k, k <= it.n))
                return DirList(k)
            if isinstance(it, AroundV) and isinstance(n.elt, ast.Subscript) and isinstance(n.elt.slice, ast.Constant):
                return AroundProj(n.elt.slice.value)
            return NotImplemented
        if name in ("min", "max") and len(args) == 1 and isinstance(args[0], AroundProj):
            t = cx.ghost.setdefault("target", {})
            ax = args[0].axis
            if ax not in t:
                lo, hi = cx.Int(f"target_{'xy'[ax]}min"), cx.Int(f"target_{'xy'[ax]}max")
                cx.assume(lo <= hi)
                t[ax] = (lo, hi)
            return t[ax][0 if name == "min" else 1]
        if name == "_is_finished":
            return cx.call_closure(cx.env["_is_finished"], args, kwargs)
        if name == ".pop" and isinstance(args[0], DirList):
            s = args[0]
            oblige_structural(cx, f"pop@{line}: pops the head of the queue", "call-arg", len(args) == 2 and args[1] == 0, line)
            cx.oblige(f"pop@{line}: the queue is not empty", "index", s.n > 0, line)
            s.n = s.n - 1
            c = cx.Int("dir")
            cx.assume(And(0 <= c, c <= 3))
            for j in range(3):
                if cx.decide(c == j, line):
                    return DIRS2[j]
            return DIRS2[3]
        if name == ".append" and isinstance(args[0], DirList):
            oblige_structural(cx, f"append@{line}: a direction is queued", "call-arg", args[1] in DIRS2, line)
            args[0].n = args[0].n + 1
            return None
        if name == ".contract_boundary_from_" and isinstance(args[0], Ref):
            return self.leaf_from(cx, args[0], args[1:], kwargs, node)
        if name == ".equalize_norms_" and isinstance(args[0], Ref):
            cx.events.append(("equalize", args[0]))
            return None
        if name == ".contract" and isinstance(args[0], Ref) and args[0].kind == "TN2D":
            cx.events.append(("contract", args[0], dict(kwargs), list(args[1:])))
            return cx.Opaque("value")
        return super().call(cx, name, args, kwargs, node)

    def extent(self, cx, tn):
        """ghost extent of the working network; initialised from the starting borders when the loop is reached"""
        return cx.fields(tn)["g_ext"]

    def leaf_from(self, cx, tn, args, kwargs, node):
        """[leaf] tn.contract_boundary_from_(xrange, yrange, from_which=d, ...): contracts the boundary row / column d of the
        current extent into its inner neighbour: the extent shrinks by one on side d"""
        line = node.lineno
        g = self.extent(cx, tn)
        d = kwargs.get("from_which")
        xr, yr = kwargs.get("xrange"), kwargs.get("yrange")
        ok = (not args) and d in DIRS2 and isinstance(xr, tuple) and len(xr) == 2 and isinstance(yr, tuple) and len(yr) == 2
        oblige_structural(cx, f"from@{line}: xrange, yrange pairs and a direction, by keyword", "call-arg", ok, line)
        if not ok:
            raise Unsupported("contract_boundary_from_ call shape")
        own, other = (xr, yr) if d[0] == "x" else (yr, xr)
        a, o = d[0], "y" if d[0] == "x" else "x"
        lo, hi = g[a + "min"], g[a + "max"]
        if d[1:] == "min":
            adj = And(own[0] == lo, own[1] == lo + 1, lo + 1 <= hi)
        else:
            adj = And(own[0] == hi - 1, own[1] == hi, hi - 1 >= lo)
        cx.oblige(f"from@{line}: the range is the current boundary row / column and its inner neighbour, inside the current extent",
                  "call-pre", adj, line)
        cx.oblige(f"from@{line}: the other range spans exactly the current extent", "call-pre",
                  And(other[0] == g[o + "min"], other[1] == g[o + "max"]), line)
        opts0 = cx.ghost["opts0"]
        cx.oblige(f"from@{line}: contract_boundary_opts (max_bond, cutoff, mode, ...) handed on unchanged", "call-arg",
                  And(*[same_value(kwargs.get(k, ABSENT), v) for k, v in opts0.items()]), line)
        cx.events.append(("from", tn, d, kwargs.get("equalize_norms")))
        g[d] = g[d] + 1 if d[1:] == "min" else g[d] - 1
        return tn

    # ---- loop
    def snap(self, cx, v):
        if "entry" not in cx.ghost:
            # ghost initialisation: the extent of the working network at loop entry is the starting borders
            g = cx.fields(v.tn)["g_ext"]
            for d in DIRS2:
                g[d] = v.boundaries[d]
            cx.ghost["entry"] = dict(b=dict(v.boundaries), sep=dict(v.separations), n=seqlen(v.sequence))
        return cx.ghost["entry"]

    def inv(self, v):
        cx = v.cx
        e = self.snap(cx, v)
        b, sep, ms = v.boundaries, v.separations, v.max_separation
        g = cx.fields(v.tn)["g_ext"]
        return {
            "separations[d] == boundaries[dmax] - boundaries[dmin]":
                And(sep["x"] == b["xmax"] - b["xmin"], sep["y"] == b["ymax"] - b["ymin"]),
            "boundaries == the extent of the working network": And(*[b[d] == g[d] for d in DIRS2]),
            "boundaries only move inwards": And(b["xmin"] >= e["b"]["xmin"], b["xmax"] <= e["b"]["xmax"],
                                                b["ymin"] >= e["b"]["ymin"], b["ymax"] <= e["b"]["ymax"]),
            "opposing boundaries never closer than min(start, max_separation)":
                And(sep["x"] >= Min(e["sep"]["x"], ms), sep["y"] >= Min(e["sep"]["y"], ms)),
            "starting borders: the given value, else the range of coordinates present":
                And(*[e["b"][d] == (v.old[d] if v.old[d] is not None else cx.ghost.get("auto", {}).get(d, z3.Int("no-auto-range")))
                      for d in DIRS2]),
            "queue-length >= 0": seqlen(v.sequence) >= 0,
            "options-dict-not-modified": And(set(v.contract_boundary_opts) == set(cx.ghost["opts0"]),
                                             *[same_value(v.contract_boundary_opts.get(k, ABSENT), x)
                                               for k, x in cx.ghost["opts0"].items()]),
            "working-network-kept": v.tn == cx.ghost.setdefault("tn0", v.tn),
        }

    @staticmethod
    def measure(v):
        sep, ms = v.separations, v.max_separation
        return If(sep["x"] > ms, sep["x"] - ms, 0) + If(sep["y"] > ms, sep["y"] - ms, 0) + seqlen(v.sequence)

    def havoc_heap(self, cx):
        for oid, f in cx.heap.items():
            if "g_ext" in f:
                for d in DIRS2:
                    f["g_ext"][d] = cx.Int(f"g_{d}_hv")

    @property
    def loops(self):
        def fresh_list(cx):
            n = cx.Int("n_queue")
            return DirList(n)

        return {0: Loop("while sequence", self.inv, decreases=self.measure, extra_modifies=("sequence",),
                        retype={"sequence": fresh_list})}

    def ensures(self, a, r, cx, case):
        f = cx.fields(a.self)
        ev = cx.events
        tn = cx.env.get("tn")
        d = {"working-network-is-the-receiver-iff-inplace": isinstance(tn, Ref) and (tn == a.self) == bool(a.inplace)}
        if not isinstance(tn, Ref):
            return d
        d["every-operation-on-the-working-network"] = all(e[1] == tn for e in ev)
        d["every-operation-declared-value-preserving"] = all(e[0] in VALUE_PRESERVING_OPS for e in ev)
        if not a.inplace:
            d["receiver-untouched-when-not-inplace"] = all(e[1] != a.self for e in ev) and "copy_of" in cx.fields(tn)
        eqs = [e for e in ev if e[0] == "equalize"]
        d["norms-equalized-at-the-end-iff-equalize_norms-is-True"] = len(eqs) == (1 if a.equalize_norms is True else 0)
        # the equalize_norms value handed to every boundary contraction: 'auto' -> 1.0 with strip_exponent, else False
        froms = [e for e in ev if e[0] == "from"]
        if a.equalize_norms == "auto" and not isinstance(a.equalize_norms, bool):
            want = 1.0 if a.strip_exponent else False
            d["equalize_norms='auto' resolved to 1.0 iff strip_exponent (else False)"] = \
                all(type(e[3]) is type(want) and e[3] == want for e in froms)
        else:
            d["equalize_norms handed on"] = all(e[3] is a.equalize_norms for e in froms)
        cons = [e for e in ev if e[0] == "contract"]
        final = bool(a.final_contract) and a.around is None
        if isinstance(r, Ref):
            d["returns-the-working-network-unless-final-contract"] = (r == tn) and not final
            d["no-final-contraction"] = len(cons) == 0
        else:
            d["final-contraction-only-without-target-region"] = final
            d["exactly-one-final-contraction, last"] = len(cons) == 1 and ev[-1][0] == "contract"
            if len(cons) == 1:
                kw = cons[0][2]
                d["final-contract-defaults: optimize, inplace, strip_exponent"] = \
                    kw.get("optimize") == a.optimize and kw.get("inplace") is a.inplace and kw.get("strip_exponent") is a.strip_exponent
        e0 = cx.ghost.get("entry")
        d["loop-reached"] = e0 is not None
        if e0 is not None:
            b, sep = cx.env["boundaries"], cx.env["separations"]
            g = cx.fields(tn)["g_ext"]
            d["final bookkeeping == extent of the returned network"] = And(*[b[k] == g[k] for k in DIRS2])
            d["final separations consistent"] = And(sep["x"] == b["xmax"] - b["xmin"], sep["y"] == b["ymax"] - b["ymin"])
            d["never over-contracted"] = And(sep["x"] >= Min(e0["sep"]["x"], a.max_separation),
                                             sep["y"] >= Min(e0["sep"]["y"], a.max_separation))
        return d


@register
class ContractBoundary(T2Contract):
    """contract_boundary(max_bond, cutoff=..., ...): max_bond, cutoff, canonize, mode, layer_tags, compress_opts are put into
    contract_boundary_opts under their own names (extra options kept) and the handler receives them and every other
    argument unchanged"""

    target = f"{TN2}.contract_boundary"
    floor = 6

    def cases(self):
        return [NS(name=f"mode={m},inplace={ip},extra={x}", mode=m, inplace=ip, extra=x)
                for m in ("mps", "full-bond") for ip in (True, False) for x in ("none", "given")]

    def inputs(self, cx, case):
        ref = new_tn2d(cx)
        extra = {} if case.extra == "none" else {"sweep_reverse": cx.Bool("sweep_reverse"), "lazy": cx.Opaque("lazy")}
        cx.ghost["extra0"] = dict(extra)
        return dict(self=ref, max_bond=cx.Int("max_bond"), cutoff=cx.Real("cutoff"), canonize=cx.Bool("canonize"), mode=case.mode,
                    layer_tags=cx.Opaque("layer_tags"), compress_opts=cx.Opaque("compress_opts"), sequence=cx.Opaque("sequence"),
                    xmin=cx.Int("xmin"), xmax=cx.Int("xmax"), ymin=cx.Int("ymin"), ymax=cx.Int("ymax"),
                    max_separation=cx.Int("max_separation"), max_unfinished=cx.Int("max_unfinished"), around=cx.Opaque("around"),
                    strip_exponent=cx.Bool("strip_exponent"), equalize_norms=cx.Opaque("equalize_norms"),
                    final_contract=cx.Bool("final_contract"), final_contract_opts=cx.Opaque("final_contract_opts"),
                    progbar=cx.Opaque("progbar"), inplace=case.inplace, contract_boundary_opts=extra)

    def call(self, cx, name, args, kwargs, node):
        if name == "._contract_interleaved_boundary_sequence" and isinstance(args[0], Ref):
            kw = dict(kwargs)
            kw["contract_boundary_opts"] = dict(kw.get("contract_boundary_opts") or {})
            cx.events.append(("handler", args[0], list(args[1:]), kw))
            return cx.Opaque("result")
        return super().call(cx, name, args, kwargs, node)

    THREADED = ("max_bond", "cutoff", "canonize", "mode", "layer_tags", "compress_opts")
    PASSED = ("sequence", "xmin", "xmax", "ymin", "ymax", "max_separation", "max_unfinished", "around", "strip_exponent",
              "equalize_norms", "final_contract", "final_contract_opts", "progbar", "inplace")

    def ensures(self, a, r, cx, case):
        ev = [e for e in cx.events if e[0] == "handler"]
        d = {"exactly-one-handler-call-on-the-receiver": len(ev) == 1 and ev[0][1] == a.self and not ev[0][2]}
        if not d["exactly-one-handler-call-on-the-receiver"]:
            return d
        kw = ev[0][3]
        opts = kw["contract_boundary_opts"]
        for k in self.THREADED:
            d[f"handler-receives-{k}-unchanged"] = k in opts and opts[k] is a[k]
        d["extra-options-kept"] = all(k in opts and opts[k] is v for k, v in cx.ghost["extra0"].items())
        want = set(self.THREADED) | set(cx.ghost["extra0"]) | ({"opposite_envs"} if a.mode == "full-bond" else set())
        d["no-other-option-invented"] = set(opts) == want
        for k in self.PASSED:
            d[f"handler-receives-{k}-unchanged"] = k in kw and kw[k] is a[k]
        d["returns-the-handler's-result"] = isinstance(r, Opaque) and r.note == "" and str(r.z).startswith("result")
        return d


@register
class ContractBoundaryFrom(T2Contract):
    """contract_boundary_from(xrange, yrange, from_which, max_bond, cutoff=..., mode=...): exactly one boundary method is
    applied, to the working network (the receiver iff inplace), and receives xrange, yrange, from_which, max_bond (all
    modes), cutoff and compress_opts (all modes but full-bond), canonize / layer_tags / sweep_reverse (mps family) and every
    extra option unchanged; the working network is returned"""

    target = f"{TN2}.contract_boundary_from"
    floor = 8
    MODES = {"mps": "_contract_boundary_core", "full-bond": "_contract_boundary_full_bond",
             "projector2d": "_contract_boundary_projector", "dm": "_contract_boundary_core_via_1d"}

    def cases(self):
        return [NS(name=f"mode={m},inplace={ip},extra={x}", mode=m, inplace=ip, extra=x)
                for m in self.MODES for ip in (True, False) for x in ("none", "given")]

    def inputs(self, cx, case):
        ref = new_tn2d(cx)
        extra = {} if case.extra == "none" else {"equalize_norms": cx.Opaque("equalize_norms"), "compress_late": cx.Bool("late")}
        cx.ghost["extra0"] = dict(extra)
        return dict(self=ref, xrange=(cx.Int("x0"), cx.Int("x1")), yrange=(cx.Int("y0"), cx.Int("y1")), from_which=cx.Opaque("from"),
                    max_bond=cx.Int("max_bond"), cutoff=cx.Real("cutoff"), canonize=cx.Bool("canonize"), mode=case.mode,
                    layer_tags=cx.Opaque("layer_tags"), sweep_reverse=cx.Bool("sweep_reverse"),
                    compress_opts=cx.Opaque("compress_opts"), inplace=case.inplace, contract_boundary_opts=extra)

    def call(self, cx, name, args, kwargs, node):
        if name.startswith("._contract_boundary_") and isinstance(args[0], Ref):
            cx.events.append(("method", name[1:], args[0], list(args[1:]), dict(kwargs)))
            return None
        return super().call(cx, name, args, kwargs, node)

    def ensures(self, a, r, cx, case):
        ev = [e for e in cx.events if e[0] == "method"]
        d = {"returns-the-working-network": isinstance(r, Ref) and (r == a.self) == bool(a.inplace)}
        d["exactly-one-boundary-method-by-keyword"] = len(ev) == 1 and not ev[0][3]
        if not (d["returns-the-working-network"] and d["exactly-one-boundary-method-by-keyword"]):
            return d
        _, meth, recv, _, kw = ev[0]
        d["method-of-the-mode"] = meth == self.MODES[a.mode]
        d["applied-to-the-working-network"] = recv == r
        keys = ["xrange", "yrange", "from_which", "max_bond"]
        if a.mode != "full-bond":
            keys += ["cutoff", "compress_opts"]
        if a.mode in ("mps", "dm"):
            keys += ["canonize", "layer_tags", "sweep_reverse"]
        for k in keys:
            d[f"method-receives-{k}-unchanged"] = k in kw and kw[k] is a[k]
        d["extra-options-kept"] = all(k in kw and kw[k] is v for k, v in cx.ghost["extra0"].items())
        want = set(keys) | set(cx.ghost["extra0"]) | ({"method"} if a.mode == "dm" else set())
        d["no-other-option-invented"] = set(kw) == want
        if a.mode == "dm":
            d["1d-method-name-handed-on"] = kw.get("method") == a.mode
        return d


# ---- _contract_boundary_core: cap threading to every compress call ---------------------------------------------


class SeqR:
    """a range-like sequence of symbolic length n: item t is start + t*step (or an opaque item when start is None)"""

    def __init__(self, n, start=None, step=1, what="item"):
        self.n, self.start, self.step, self.what = n, start, step, what


class R2DV:
    """[leaf, reading of Rotator2D.__init__] rotated view for a sweep from `from_which`: plane = from_which[0]; sweep runs
    over the plane coordinate from the starting side inwards (istep = +1 from 'min', -1 from 'max'); sweep_other over the
    other coordinate"""

    def __init__(self, cx, tn, xrange, yrange, from_which):
        self.plane = from_which[0]
        own, other = (xrange, yrange) if self.plane == "x" else (yrange, xrange)
        imin, imax = Min(own[0], own[1]), Max(own[0], own[1])
        jmin, jmax = Min(other[0], other[1]), Max(other[0], other[1])
        self.istep = 1 if from_which[1:] == "min" else -1
        self.sweep = SeqR(imax - imin + 1, imin if self.istep == 1 else imax, self.istep)
        self.sweep_other = SeqR(jmax - jmin + 1, jmin, 1)
        self.site_tag = ("site_tag_fn", self.plane)


class TagV:
    def __init__(self, i, j):
        self.i, self.j = i, j


class TagMapV:
    pass


class TidSetV:
    pass


@register
class ContractBoundaryCore(T2Contract):
    """_contract_boundary_core(xrange, yrange, from_which, max_bond, cutoff, ...): every compress call -- the per-bond
    _compress_between_tids calls (compress_late=False) and the per-line compress_plane call (compress_late=True) -- receives
    the caller's max_bond, cutoff, equalize_norms and compress_opts (only the default absorb='right' ADDED) unchanged; the
    compressed line is the line just contracted, over the full other range; canonize_plane sweeps opposite to compress_plane.
    KNOWN DEFECT (kept failing): max_bond=None (documented 'no cap') with compress_late=False compares an int with None."""

    target = f"{TN2}._contract_boundary_core"
    floor = 30

    def cases(self):
        out = []
        for fw in DIRS2:
            for late in (True, False):
                for mb in ("int", "None"):
                    for lt in ("None", "two"):
                        if (fw != "xmin" and (mb == "None" or lt == "two")):
                            continue
                        out.append(NS(name=f"from_which={fw},compress_late={late},max_bond={mb},layer_tags={lt}", fw=fw, late=late,
                                      mb=mb, lt=lt, absorb=False))
        for late in (True, False):  # the caller's own absorb option must survive the default
            out.append(NS(name=f"from_which=xmin,compress_late={late},max_bond=int,layer_tags=None,compress_opts=with-absorb",
                          fw="xmin", late=late, mb="int", lt="None", absorb=True))
        return out

    def inputs(self, cx, case):
        ref = new_tn2d(cx)
        copts = {"method": cx.Opaque("method"), "cutoff_mode": cx.Opaque("cutoff_mode")}
        if case.absorb:
            copts["absorb"] = "both"
        cx.ghost["copts0"] = dict(copts)
        return dict(self=ref, xrange=(cx.Int("x0"), cx.Int("x1")), yrange=(cx.Int("y0"), cx.Int("y1")), from_which=case.fw,
                    max_bond=cx.Int("max_bond") if case.mb == "int" else None, cutoff=cx.Real("cutoff"), canonize=cx.Bool("canonize"),
                    layer_tags=None if case.lt == "None" else ["KET", "BRA"], compress_late=case.late,
                    sweep_reverse=cx.Bool("sweep_reverse"), equalize_norms=cx.Opaque("equalize_norms"), compress_opts=copts,
                    canonize_opts=None)

    def want_copts(self, cx):
        d = dict(cx.ghost["copts0"])
        d.setdefault("absorb", "right")
        return d

    def inv(self, v):
        cx = v.cx
        want = self.want_copts(cx)
        return {"compress-options: the caller's, plus the default absorb='right', never modified":
                And(set(v.compress_opts) == set(want), *[same_value(v.compress_opts.get(k, ABSENT), x) for k, x in want.items()]),
                "canonize-options: default absorb='right' only": And(set(v.canonize_opts) == {"absorb"},
                                                                      v.canonize_opts.get("absorb") == "right"),
                "network-object-kept": v.self == v.old.self}

    @property
    def loops(self):
        opaque = {"tag1": lambda cx: TagV(cx.Int("ti"), cx.Int("tj")), "tag2": lambda cx: TagV(cx.Int("ti"), cx.Int("tj")),
                  "tid1": lambda cx: cx.Opaque("tid1"), "t1": lambda cx: cx.Opaque("t1"), "tn": lambda cx: cx.Opaque("tn")}
        return {0: Loop("for i in r2d.sweep[:-1]", self.inv, retype=opaque),
                2: Loop("for j in r2d.sweep_other", self.inv, retype=opaque),
                3: Loop("for tidn in self._get_neighbor_tids(tid1)", self.inv, retype=opaque)}

    def havoc_heap(self, cx):
        pass

    def attr(self, cx, base, attr, node):
        if isinstance(base, R2DV) and attr in ("plane", "istep", "sweep", "sweep_other", "site_tag"):
            return getattr(base, attr)
        if isinstance(base, Ref) and base.kind == "TN2D" and attr == "tag_map":
            return TagMapV()
        return super().attr(cx, base, attr, node)

    def opts_ok(self, cx, got):
        want = self.want_copts(cx)
        if not isinstance(got, dict):
            return False
        return And(set(got) == set(want), *[same_value(got.get(k, ABSENT), x) for k, x in want.items()])

    def call(self, cx, name, args, kwargs, node):
        line = getattr(node, "lineno", 0)
        a = cx.old
        if name == "Rotator2D":
            return R2DV(cx, *args)
        if name == "__getslice__" and isinstance(args[0], SeqR):
            s, lo, hi, st = args
            if not (lo is None and hi == -1 and st is None):
                raise Unsupported("slice of a sweep other than [:-1]")
            return SeqR(Max(s.n - 1, 0), s.start, s.step)
        if name == "__iter__" and isinstance(args[0], SeqR):
            s = args[0]
            if s.start is None:
                return (s.n, lambda t: cx.uf("nbr_tid", [Z(t)]))
            return (s.n, lambda t, s=s: s.start + t * s.step)
        if name == "site_tag" and len(args) == 2:
            return TagV(args[0], args[1])
        if name == "__contains__" and isinstance(args[0], TagMapV):
            return cx.Bool("tag_present")
        if name == "__getitem__" and isinstance(args[0], TagMapV):
            return TidSetV()
        if name == "__getitem__" and isinstance(args[0], Ref) and isinstance(args[1], TagV):
            return cx.Opaque("tensor")
        if name == "__len__" and isinstance(args[0], TidSetV):
            n = cx.Int("ntids")
            cx.assume(n >= 1)
            return n
        if name == "__unpack__" and isinstance(args[0], TidSetV):
            return [cx.Opaque("tid") for _ in range(args[1])]
        if name == "__binop__" and args[0] == "BitXor" and isinstance(args[1], Ref) and isinstance(args[2], TagV):
            cx.events.append(("contract-tag", args[1]))
            return args[1]
        if name == "__cmp__":
            sym, x, y = args
            if x is None or y is None:
                raise PyRaise("TypeError", line)  # '>' not supported between instances of 'int' and 'NoneType'
            return NotImplemented
        if name == "bonds_size":
            n = cx.Int("bonds_size")
            cx.assume(n >= 1)
            return n
        if name.startswith(".") and isinstance(args[0], Ref) and args[0].kind == "TN2D":
            m, rest = name[1:], args[1:]
            oblige_structural(cx, f"op@{line}:{m}: applied to the network itself", "call-arg", args[0] == a.self, line)
            if m in ("contract_", "contract_between"):
                cx.events.append((m, args[0]))
                return None
            if m == "_get_neighbor_tids":
                n = cx.Int("n_nbrs")
                cx.assume(n >= 0)
                return SeqR(n, None, 1, "tid")
            if m == "_tids_get":
                return tuple(cx.Opaque("t") for _ in rest)
            if m == "_compress_between_tids":
                cx.oblige(f"call-arg@{line}:_compress_between_tids: receives the caller's max_bond and cutoff unchanged", "call-arg",
                          And(same_value(kwargs.get("max_bond", ABSENT), a.max_bond), same_value(kwargs.get("cutoff", ABSENT), a.cutoff)),
                          line)
                oblige_structural(cx, f"call-arg@{line}:_compress_between_tids: receives the caller's equalize_norms", "call-arg",
                                  kwargs.get("equalize_norms") is a.equalize_norms, line)
                rest_kw = {k: x for k, x in kwargs.items() if k not in ("max_bond", "cutoff", "equalize_norms")}
                cx.oblige(f"call-arg@{line}:_compress_between_tids: receives the caller's compress_opts (+ default absorb) unchanged",
                          "call-arg", self.opts_ok(cx, rest_kw), line)
                cx.events.append(("compress-bond", args[0]))
                return None
            if m in ("compress_plane", "canonize_plane"):
                r2 = cx.env["r2d"]
                i = cx.env["i"]
                own, other = ("xrange", "yrange") if r2.plane == "x" else ("yrange", "xrange")
                cx.oblige(f"call-arg@{line}:{m}: acts on the line just contracted, over the caller's full other range", "call-arg",
                          And(cx.eq_values(kwargs.get(own), (i, i)), cx.eq_values(kwargs.get(other), a[other])), line)
                rev = a.sweep_reverse if m == "compress_plane" else Not(a.sweep_reverse)
                cx.oblige(f"call-arg@{line}:{m}: sweep direction ({'sweep_reverse' if m == 'compress_plane' else 'the opposite'})",
                          "call-arg", And(Z(kwargs.get("xreverse")) == Z(rev), Z(kwargs.get("yreverse")) == Z(rev)), line)
                oblige_structural(cx, f"call-arg@{line}:{m}: receives the caller's equalize_norms", "call-arg",
                                  kwargs.get("equalize_norms") is a.equalize_norms, line)
                if m == "compress_plane":
                    cx.oblige(f"call-arg@{line}:compress_plane: receives the caller's max_bond and cutoff unchanged", "call-arg",
                              And(same_value(kwargs.get("max_bond", ABSENT), a.max_bond),
                                  same_value(kwargs.get("cutoff", ABSENT), a.cutoff)), line)
                    cx.oblige(f"call-arg@{line}:compress_plane: receives the caller's compress_opts (+ default absorb) unchanged",
                              "call-arg", self.opts_ok(cx, kwargs.get("compress_opts")), line)
                else:
                    co = kwargs.get("canonize_opts")
                    oblige_structural(cx, f"call-arg@{line}:canonize_plane: canonize_opts with absorb='right'", "call-arg",
                                      isinstance(co, dict) and co.get("absorb") == "right", line)
                cx.events.append((m, args[0]))
                return None
        if name == ".drop_tags" and isinstance(args[0], Opaque):
            return None
        return super().call(cx, name, args, kwargs, node)

    def ensures(self, a, r, cx, case):
        return {"returns-None": r is None,
                "caller's-compress_opts-dict-not-touched": set(a.compress_opts) == set(cx.ghost["copts0"])}

    def replay(self, model):
        import warnings

        import quimb.tensor as qtn

        warnings.simplefilter("ignore")
        tn = qtn.TN2D_rand(4, 4, 2, seed=1)
        out = {}
        for label, kw in (("max_bond=None, compress_late=False", dict(max_bond=None, compress_late=False)),
                          ("max_bond=None (compress_late default)", dict(max_bond=None)),
                          ("max_bond=64, compress_late=False", dict(max_bond=64, compress_late=False))):
            try:
                out[label] = f"value {tn.contract_boundary(**kw):.6f} (exact {tn ^ all:.6f})"
            except Exception as e:  # noqa
                out[label] = f"{type(e).__name__}: {e}"
        return dict(call="TN2D_rand(4, 4, 2, seed=1).contract_boundary(max_bond=None, compress_late=False)", observed=out,
                    reproduced=out["max_bond=None, compress_late=False"].startswith("TypeError"))
