"""C05 -- truncation / option logic of quimb/tensor/decomp.py under contracts, over the reals.

Part 1 (E1, SMT).  Carriers, executed symbolically from the current source on every run:

    _compute_number_svals_to_keep_numba   kept number: least k >= 1 satisfying the cutoff rule (6 modes)
    _compute_svals_renorm_factor_numba    f^renorm * sum_{i<n} s_i^renorm == sum_i s_i^renorm
    _trim_and_renorm_svd_result_numba     accelerated trim / renorm / error / absorb step
    _trim_and_renorm_svd_result           generic (autoray) version -- same functional spec (relational obligation)
    _do_absorb / _do_absorb_numba         11-way absorb table in an uninterpreted matrix algebra

Spec functions (uninterpreted, meaning given through *definitional* instances only; A is the array of
singular values, n its length, p the power):

    presum(A, p, k)      = sum_{i<k}      A_i^p          presum(0) = 0, presum(k+1) = presum(k) + A_k^p
    tailsum(A, p, n, k)  = sum_{k<=i<n}   A_i^p          tail(n) = 0,   tail(k)     = A_k^p + tail(k+1)
    count_gt(A, t, k)    = #{i<k : A_i > t}              count(0) = 0,  count(k+1)  = count(k) + [A_k > t]
    count_cumlt(A,p,T,k) = #{i<k : presum(i+1) < T}
    pw(x, p)             = x^p for a symbolic exponent (x^1 = x and x^2 = x*x are written out)
    rsqrt(x)             = the non-negative square root   (x >= 0  =>  rsqrt(x) >= 0 and rsqrt(x)^2 = x)

Everything that needs induction is a lemma pair (base, step) below; contracts assume *instances* of proved
lemmas only (each use names its lemma).  Leaf contracts (numpy / autoray) are pure definitions of the leaf
(np.sum of a mask is its count, cumsum is the prefix sum, ...) and are listed in TRUSTED of the index entry.

Array pre-conditions (non-negative, sorted descending) are named predicates all_nonneg / sorted_desc whose quantified
meaning is used through instances only, so every query is quantifier-free (failed obligations come with models and
are decided in milliseconds; with quantified assumptions z3 answered `unknown` on the obligations that must fail).

Ties.  DESIGN C05: a discarded tail exactly equal to the target is left unconstrained, so the sum-mode rule is
proved in the form   (tail(r) <= target  or  r = n and target < 0)  and  (r > 1 => tail(r-1) >= target).
The clause "r = n and target < 0" is the case where no k satisfies the rule (negative cutoff, passed by the trim
functions when only renorm > 0 asks for the dynamic branch): nothing is discarded.

Relational obligation generic == accelerated.  Both trim functions are proved against the SAME functional specification
(``TrimBase.trim_post``, same labels, same cases for the renorm power); the lemmas ``relational-*`` show that this
specification determines the kept number up to ties and the renormalisation factor (and, given the kept number, the
error) uniquely.  Before the fix of DESIGN finding 6a the generic function did NOT satisfy it (label ``renorm-factor``
failed in every case [mode=M,renorm=R] whose R differs from the power of M, the abs / rel cases with R > 0 ended in
``raise@..:no-raise-UnboundLocalError``); with the fix all 24 cases discharge, and selftest/mutants_c05.py reverts the
fix as an expect-fail mutant.

Engine extensions used (vf/pyvc.py, additive): ``__cmp__`` hook for ordering comparisons of non-scalars (``s > cutoff``
gives a mask object), a single non-scalar comparison result is returned as is, starred assignment targets
(``*batch_dims, d = ...``).  Slices inside subscript tuples arrive as ('slice', lo, hi, step) or as python ``slice``
objects depending on which of the two ``ev_Slice`` definitions in the engine is in force: both are accepted.

Part 2 (fdx): ``provider`` executes the real parse_method_absorb / parse_split_opts /
parse_split_left_right_isom on their complete finite domains (see the comment block of Part 2).
"""

import ast
import fractions
import os
import time

import z3

import vf.pyvc as P
from vf import lemmas
from vf.pyvc import (And, Contract, If, Implies, Loop, Max, Min, NS, Not, Or, PyRaise, R, Unsupported, V, Z,
                     is_z3, register)

DEC = "quimb/tensor/decomp.py"
IntS, RealS = z3.IntSort(), z3.RealSort()
AS = z3.ArraySort(IntS, RealS)

# --------------------------------------------------------------------------------------------------------------
# spec vocabulary
# --------------------------------------------------------------------------------------------------------------

pw = z3.Function("pw", RealS, RealS, RealS)
presum = z3.Function("presum", AS, RealS, IntS, RealS)
tailsum = z3.Function("tailsum", AS, RealS, IntS, IntS, RealS)
count_gt = z3.Function("count_gt", AS, RealS, IntS, IntS)
count_cumlt = z3.Function("count_cumlt", AS, RealS, RealS, IntS, IntS)
rsqrt = z3.Function("rsqrt", RealS, RealS)

# uninterpreted matrix algebra (opaque values of sort V)
mm = z3.Function("mm", V, V, V)  # matrix product
diag = z3.Function("diag", V, V)  # vector -> diagonal matrix
vsqrt = z3.Function("vsqrt", V, V)  # elementwise square root of a vector
rdmul_f = z3.Function("rdmul", V, V, V)  # x * d[..., None, :]
ldmul_f = z3.Function("ldmul", V, V, V)  # x * d[..., :, None]   (argument order: d, x)
colslice = z3.Function("colslice", V, IntS, V)  # X[..., :, :k]
rowslice = z3.Function("rowslice", V, IntS, V)  # X[..., :k, :]
svec_f = z3.Function("svec", AS, IntS, IntS, RealS, V)  # the vector  scale * A[lo:hi]  as an opaque value
NONE_V = z3.Const("None!v", V)

MODE_NAMES = ("abs", "rel", "sum2", "rsum2", "sum1", "rsum1")
SUM_MODES = ("sum2", "rsum2", "sum1", "rsum1")
REL_SUM_MODES = ("rsum2", "rsum1")


def memo_terms(f):
    """cache a pure formula builder on the identity of its (hash-consed) z3 arguments: z3py term construction dominates
    the generation time, and the same instances are rebuilt on every path"""
    cache = {}

    def g(*args):
        key = tuple(("z", a.get_id()) if is_z3(a) else ("p", type(a).__name__, a) for a in args)
        hit = cache.get(key)
        if hit is None:
            hit = cache[key] = (args, f(*args))  # the arguments are kept alive, so the ids stay unique
        return hit[1]

    g.__name__, g.__doc__ = f.__name__, f.__doc__
    return g


def mode_power(name):
    return 2 if name in ("sum2", "rsum2") else 1


_CONSTS = {}


def module_consts():
    """module level ``NAME = <literal>`` assignments of decomp.py, re-read from the *current* source (so the
    mode / absorb codes are never copied into the contract)"""
    full = os.path.join(P.REPO, DEC)
    if full not in P._SRC_CACHE:
        with open(full) as f:
            src = f.read()
        P._SRC_CACHE[full] = (src, ast.parse(src))
    tree = P._SRC_CACHE[full][1]
    key = id(tree)
    if _CONSTS.get("key") != key:
        out = {}
        for st in tree.body:
            if isinstance(st, ast.Assign) and len(st.targets) == 1 and isinstance(st.targets[0], ast.Name):
                try:
                    out[st.targets[0].id] = ast.literal_eval(st.value)
                except Exception:
                    pass
        _CONSTS.clear()
        _CONSTS.update(key=key, consts=out, tree=tree)  # keep the tree alive: id() stays unique
    return _CONSTS["consts"]


def mode_code(name):
    return module_consts()["cutoff_mode_" + name]


def is1(x):
    return isinstance(x, (int, fractions.Fraction)) and not isinstance(x, bool) and x == 1


def is0(x):
    return isinstance(x, int) and not isinstance(x, bool) and x == 0


def pR(p):
    """the power as a real term"""
    if isinstance(p, (int, fractions.Fraction)):
        return z3.RealVal(str(p))
    return R(p)


def epw(x, p):
    """x^p: written out for p = 1, 2, uninterpreted pw(x, p) otherwise"""
    if isinstance(p, (int, fractions.Fraction)):
        if p == 1:
            return x
        if p == 2:
            return x * x
    return pw(x, pR(p))


def pw_facts(x, p):
    """definitional facts about real powers with positive exponent: sign"""
    if isinstance(p, (int, fractions.Fraction)) and p in (1, 2):
        return True
    t = pw(x, pR(p))
    return And(Implies(x >= 0, t >= 0), Implies(x > 0, t > 0))


@memo_terms
def rsqrt_def(x):
    return And(Implies(x >= 0, And(rsqrt(x) >= 0, rsqrt(x) * rsqrt(x) == x)), rsqrt(z3.RealVal(0)) == 0)


@memo_terms
def def_presum(A, p, k):
    """definition of presum at k"""
    return And(presum(A, pR(p), 0) == 0,
               Implies(Z(k) >= 0, And(presum(A, pR(p), k + 1) == presum(A, pR(p), k) + epw(A[k], p), pw_facts(A[k], p))))


@memo_terms
def def_tail(A, p, n, k):
    """definition of tailsum at k"""
    return And(tailsum(A, pR(p), n, n) == 0,
               Implies(And(Z(k) >= 0, Z(k) < n),
                       And(tailsum(A, pR(p), n, k) == epw(A[k], p) + tailsum(A, pR(p), n, k + 1), pw_facts(A[k], p))))


def def_count(A, thr, k):
    return And(count_gt(A, thr, 0) == 0,
               Implies(Z(k) >= 0, count_gt(A, thr, k + 1) == count_gt(A, thr, k) + If(A[k] > thr, 1, 0)))


# Array pre-conditions are *named predicates* whose meaning is a quantified formula; proofs use the definition only
# through instances (forall-elimination), so every query stays quantifier-free and failed obligations carry models:
#     all_nonneg(A, n)   :=  forall i.   0 <= i < n       =>  A[i] >= 0
#     sorted_desc(A, n)  :=  forall i j. 0 <= i <= j < n  =>  A[i] >= A[j]
# A caller establishes a callee's pre-condition by exhibiting the same predicate on the same array (the trim functions
# assume it of the spectrum they are given and pass that spectrum on).
all_nonneg = z3.Function("all_nonneg", AS, IntS, z3.BoolSort())
sorted_desc = z3.Function("sorted_desc", AS, IntS, z3.BoolSort())


def inst_nonneg(A, n, i):
    """definition of all_nonneg at index i"""
    return Implies(And(all_nonneg(A, n), Z(i) >= 0, Z(i) < n), A[i] >= 0)


def inst_sorted(A, n, i, j):
    """definition of sorted_desc at indices i <= j"""
    return Implies(And(sorted_desc(A, n), Z(i) >= 0, Z(i) <= j, Z(j) < n), A[i] >= A[j])


@memo_terms
def inst_array_pre(A, n, i):
    return And(inst_nonneg(A, n, i), inst_sorted(A, n, 0, i), inst_sorted(A, n, i, i + 1))


# ---- instances of proved lemmas (each function names its lemma) ------------------------------------------------


@memo_terms
def lem_split(A, p, n, k):
    """lemma split-sum:  0 <= k <= n  =>  presum(k) + tail(k) == presum(n)"""
    return Implies(And(Z(k) >= 0, Z(k) <= n), presum(A, pR(p), k) + tailsum(A, pR(p), n, k) == presum(A, pR(p), n))


@memo_terms
def lem_tail_mono(A, p, n, j, k):
    """lemma tail-monotone (needs A >= 0 on [0,n)):  0 <= j <= k <= n  =>  tail(j) >= tail(k)"""
    return Implies(And(all_nonneg(A, n), Z(j) >= 0, Z(j) <= k, Z(k) <= n), tailsum(A, pR(p), n, j) >= tailsum(A, pR(p), n, k))


@memo_terms
def lem_tail_nonneg(A, p, n, k):
    """lemma tail-monotone with k = n: tail(j) >= tail(n) = 0"""
    return Implies(And(all_nonneg(A, n), Z(k) >= 0, Z(k) <= n), tailsum(A, pR(p), n, k) >= 0)


@memo_terms
def lem_presum_mono(A, p, n, j, k):
    """lemma presum-monotone (needs A >= 0 on [0,n)):  0 <= j <= k <= n  =>  presum(j) <= presum(k)"""
    return Implies(And(all_nonneg(A, n), Z(j) >= 0, Z(j) <= k, Z(k) <= n), presum(A, pR(p), j) <= presum(A, pR(p), k))


@memo_terms
def lem_count_boundary(A, thr, n, j):
    """lemma count-boundary at m(i) := A_i > thr (monotone because A is sorted descending):
    c = count_gt(A,thr,n):  0 <= c <= n,  j < c => A_j > thr,  c <= j < n => A_j <= thr"""
    c = count_gt(A, thr, n)
    return Implies(sorted_desc(A, n), And(0 <= c, c <= n, Implies(And(Z(j) >= 0, Z(j) < c), A[j] > thr),
                                          Implies(And(c <= j, Z(j) < n), A[j] <= thr)))


def count_cum(op):
    """#{i<k : presum(i+1) <op> T} for the comparison the code uses"""
    return count_cumlt if op == "<" else z3.Function("count_cum" + _OPN[op], AS, RealS, RealS, IntS, IntS)


def lem_cumcount_boundary(A, p, T, n, k, op="<"):
    """lemma count-boundary at m(i) := presum(i+1) < T  (or <= T: the tie case the property leaves open); m is
    monotone by presum-monotone (A >= 0).  Stated at k = i+1, c = the count over [0,n):
    0 <= c <= n,  1 <= k <= c => presum(k) < T,  c < k <= n => presum(k) >= T"""
    if op not in ("<", "<="):
        return True  # not a monotone non-increasing mask: no boundary reading
    c = count_cum(op)(A, pR(p), T, n)
    below = presum(A, pR(p), k) < T if op == "<" else presum(A, pR(p), k) <= T
    return Implies(all_nonneg(A, n), And(0 <= c, c <= n, Implies(And(Z(k) >= 1, Z(k) <= c), below),
                                         Implies(And(c < k, Z(k) <= n), Not(below))))


# --------------------------------------------------------------------------------------------------------------
# lemmas (schematic: el / Ps / Ts / m / c are arbitrary; the instances above substitute the spec functions)
# --------------------------------------------------------------------------------------------------------------

_el = z3.Function("el", IntS, RealS)
_Ps = z3.Function("Ps", IntS, RealS)
_Ts = z3.Function("Ts", IntS, RealS)
_m = z3.Function("m", IntS, z3.BoolSort())
_c = z3.Function("c", IntS, IntS)


@lemmas.lemma("C05", "split-sum-base")
def lem_split_base():
    n = z3.Int("n")
    return [n >= 0, _Ts(n) == 0], _Ps(n) + _Ts(n) == _Ps(n)


@lemmas.lemma("C05", "split-sum-step")
def lem_split_step():
    # downward induction on k:  C(k+1) => C(k)    with C(k): Ps(k) + Ts(k) = Ps(n)
    n, k = z3.Ints("n k")
    return [0 <= k, k < n, _Ps(k + 1) == _Ps(k) + _el(k), _Ts(k) == _el(k) + _Ts(k + 1),
            _Ps(k + 1) + _Ts(k + 1) == _Ps(n)], _Ps(k) + _Ts(k) == _Ps(n)


@lemmas.lemma("C05", "tail-monotone-base")
def lem_tailmono_base():
    j = z3.Int("j")
    return [], _Ts(j) >= _Ts(j)


@lemmas.lemma("C05", "tail-monotone-step")
def lem_tailmono_step():
    n, j, k = z3.Ints("n j k")
    return [0 <= j, j <= k, k < n, _el(k) >= 0, _Ts(k) == _el(k) + _Ts(k + 1), _Ts(j) >= _Ts(k)], _Ts(j) >= _Ts(k + 1)


@lemmas.lemma("C05", "presum-monotone-base")
def lem_premono_base():
    j = z3.Int("j")
    return [], _Ps(j) <= _Ps(j)


@lemmas.lemma("C05", "presum-monotone-step")
def lem_premono_step():
    j, k = z3.Ints("j k")
    return [0 <= j, j <= k, _el(k) >= 0, _Ps(k + 1) == _Ps(k) + _el(k), _Ps(j) <= _Ps(k)], _Ps(j) <= _Ps(k + 1)


def _boundary(k, j):
    return And(0 <= _c(k), _c(k) <= k, Implies(And(0 <= j, j < _c(k)), _m(j)), Implies(And(_c(k) <= j, j < k), Not(_m(j))))


@lemmas.lemma("C05", "count-boundary-base")
def lem_count_base():
    j = z3.Int("j")
    return [_c(0) == 0], _boundary(0, j)


@lemmas.lemma("C05", "count-boundary-step")
def lem_count_step():
    # m monotone non-increasing (m(k) => m(i) for i <= k), c(k+1) = c(k) + [m(k)];  induction hypothesis B(k) at the
    # skolem index j and at the index c(k);  goal B(k+1) at j
    k, j = z3.Ints("k j")
    mono = lambda i: Implies(And(0 <= i, i <= k, _m(k)), _m(i))
    return [k >= 0, _c(k + 1) == _c(k) + If(_m(k), 1, 0), _boundary(k, j), _boundary(k, _c(k)), mono(j), mono(_c(k))], \
        _boundary(k + 1, j)


@lemmas.lemma("C05", "pw-mask-monotone-sorted")
def lem_mask_mono_sorted():
    # the mask  A_i > thr  of a descending array is monotone (premise of count-boundary for abs / rel)
    a_i, a_k, thr = z3.Reals("a_i a_k thr")
    return [a_i >= a_k, a_k > thr], a_i > thr


@lemmas.lemma("C05", "cum-mask-monotone")
def lem_mask_mono_cum():
    # the mask  presum(i+1) < T  is monotone when presum is non-decreasing (premise of count-boundary for the sums)
    i, k = z3.Ints("i k")
    T = z3.Real("T")
    return [0 <= i, i <= k, _Ps(i + 1) <= _Ps(k + 1), _Ps(k + 1) < T], _Ps(i + 1) < T


def _sumrule(r, n, target):
    return And(1 <= r, r <= n, Or(_Ts(r) <= target, And(r == n, target < 0)), Implies(r > 1, _Ts(r - 1) >= target))


@lemmas.lemma("C05", "relational-kept-number-unique-up-to-ties")
def lem_rule_unique():
    """two kept numbers that both satisfy the sum-mode rule differ only across a tie (tail exactly on the target);
    hence generic == numba on n_chi whenever no tail sum equals the target"""
    n, r, r2 = z3.Ints("n r r2")
    target = z3.Real("target")
    mono = Implies(And(0 <= r, r <= r2 - 1, r2 - 1 <= n), _Ts(r) >= _Ts(r2 - 1))  # instance of tail-monotone
    return [_sumrule(r, n, target), _sumrule(r2, n, target), r < r2, mono], \
        And(_Ts(r) == target, _Ts(r2 - 1) == target)


@lemmas.lemma("C05", "relational-capped-number-unique-up-to-ties")
def lem_capped_unique():
    """the direct (cap included) form of the rule proved for both trim functions determines the kept number up to ties"""
    n, N, N2, mb = z3.Ints("n N N2 mb")
    target = z3.Real("target")

    def direct(x):
        capped = And(mb > 0, x == mb)
        return And(1 <= x, x <= n, Implies(mb > 0, x <= mb),
                   Implies(Not(capped), Or(_Ts(x) <= target, And(x == n, target < 0))),
                   Implies(x > 1, _Ts(x - 1) >= target))

    mono = Implies(And(0 <= N, N <= N2 - 1, N2 - 1 <= n), _Ts(N) >= _Ts(N2 - 1))
    return [direct(N), direct(N2), N < N2, mono], And(_Ts(N) == target, _Ts(N2 - 1) == target)


@lemmas.lemma("C05", "relational-renorm-factor-unique-1")
def lem_f_unique1():
    f, f2, K, T = z3.Reals("f f2 K T")
    return [K > 0, f * K == T, f2 * K == T], f == f2


@lemmas.lemma("C05", "relational-renorm-factor-unique-2")
def lem_f_unique2():
    f, f2, K, T = z3.Reals("f f2 K T")
    return [K > 0, f >= 0, f2 >= 0, f * f * K == T, f2 * f2 * K == T], f == f2


@lemmas.lemma("C05", "rule-min-cap-gives-direct-form")
def lem_min_cap():
    """n = min(rule, cap) with rule satisfying the sum-mode rule  =>  the direct form used as common post-condition"""
    n, r, N, mb = z3.Ints("n r N mb")
    target = z3.Real("target")
    capped = And(mb > 0, N == mb)
    mono = Implies(And(0 <= N - 1, N - 1 <= r - 1, r - 1 <= n), _Ts(N - 1) >= _Ts(r - 1))
    return [_sumrule(r, n, target), Or(mb == -1, mb >= 1), N == If(mb > 0, If(r <= mb, r, mb), r), mono], \
        And(1 <= N, N <= n, Implies(mb > 0, N <= mb),
            Implies(Not(capped), Or(_Ts(N) <= target, And(N == n, target < 0))),
            Implies(N > 1, _Ts(N - 1) >= target))


# --------------------------------------------------------------------------------------------------------------
# array values flowing through the carriers
# --------------------------------------------------------------------------------------------------------------


class Vec:
    """1-d real array value: element j (0 <= j < hi - lo) is  scale * a[lo + j] ** power"""

    def __init__(self, a, lo, hi, scale=1, power=1):
        self.a, self.lo, self.hi, self.scale, self.power = a, lo, hi, scale, power

    @property
    def plain(self):
        return is1(self.scale) and is1(self.power)

    def __len__(self):  # never used for symbolic lengths
        raise Unsupported("len() of a symbolic vector")

    def length(self):
        return self.hi if is0(self.lo) else self.hi - self.lo

    def elem(self, j):
        x = epw(self.a[j if is0(self.lo) else self.lo + j], self.power)
        return x if is1(self.scale) else self.scale * x

    def val(self):
        return svec_f(self.a, Z(self.lo), Z(self.hi), pR(self.scale) if not is_z3(self.scale) else R(self.scale))

    def __repr__(self):
        return f"Vec({self.a}[{self.lo}:{self.hi}]*{self.scale}^{self.power})"


class Mask:
    """elementwise comparison  vec <op> thr"""

    def __init__(self, vec, op, thr):
        self.vec, self.op, self.thr = vec, op, thr


class CumSum:
    """cumsum(vec): element k is presum(a, p, k + 1)"""

    def __init__(self, vec):
        self.vec = vec


class One:
    """one-element array (``csp[..., -1:]``) broadcasting as a scalar"""

    def __init__(self, v):
        self.v = v


class CMask:
    def __init__(self, cs, op, thr):
        self.cs, self.op, self.thr = cs, op, thr


class XP:
    """array namespace marker (autoray get_namespace)"""


class Info:
    """the caller's ``info`` argument (dict or None)"""


_OPN = {">": "gt", ">=": "ge", "<": "lt", "<=": "le"}


def _slice_bounds(idx):
    """slice value -> (lo, hi).  The engine hands slices inside subscript tuples either as ('slice', lo, hi, step) or as
    a python ``slice`` object (both spellings exist in vf/pyvc.py): accept both"""
    if isinstance(idx, slice):
        lo, hi, st = idx.start, idx.stop, idx.step
    else:
        _, lo, hi, st = idx
    if st is not None:
        raise Unsupported("slice with a step")
    return lo, hi


def _bounds(lo, hi, n):
    """slice [lo:hi] of an axis of extent n is exact (numpy would clip / wrap silently)"""
    if is0(lo):
        return And(Z(hi) >= 0, Z(hi) <= n)
    return And(Z(lo) >= 0, Z(lo) <= hi, Z(hi) <= n)


def _is_slice(x):
    return isinstance(x, slice) or (isinstance(x, tuple) and len(x) == 4 and isinstance(x[0], str) and x[0] == "slice")


class NumModel(Contract):
    """leaf contracts for the numpy / autoray calls of the carriers (definitions of the leaves, listed in TRUSTED)"""

    property_ids = ("C05",)

    # ---- names: module constants of decomp.py; a local that was never assigned raises UnboundLocalError
    def attr(self, cx, base, attr, node):
        if base is None:
            consts = module_consts()
            if attr in consts:
                return consts[attr]
            if attr in P.assigned_names(cx.fn_node.body):
                raise PyRaise("UnboundLocalError", node.lineno)
            return NotImplemented
        if isinstance(base, Vec):
            if attr == "size":
                return base.length()
            if attr == "shape":
                return (base.length(),)
            if attr == "ndim":
                return 1
        return NotImplemented

    def ncols(self, cx):
        return cx.ghost.get("n")

    def safety(self, cx, label, kind, cond, line):
        """emit a safety obligation once per path and condition (U, s, VH are sliced with the same bound)"""
        seen = cx.ghost.setdefault("safety_seen", set())
        key = Z(cond).sexpr()
        if key in seen:
            return
        seen.add(key)
        cx.oblige(label, kind, cond, line)

    # ---- helpers
    def vec_slice(self, cx, v, lo, hi, line):
        n = v.length()
        lo = 0 if lo is None else lo
        full_hi = hi is None
        hi = n if hi is None else hi
        if isinstance(lo, int) and lo < 0:
            if not (lo == -1 and full_hi):
                raise Unsupported("negative slice start")
            lo = n - 1
        # numpy clips / wraps out-of-range slice bounds silently; the contracts intend exact bounds
        self.safety(cx, f"slice@{line}:bounds", "safety", _bounds(lo, hi, n), line)
        nlo = lo if is0(v.lo) else v.lo + lo
        nhi = hi if is0(v.lo) else v.lo + hi
        return Vec(v.a, nlo, nhi, v.scale, v.power)

    def m_sqrt(self, cx, x):
        if P.is_val(x):
            return vsqrt(x)
        if isinstance(x, One):
            return One(self.m_sqrt(cx, x.v))
        x = R(x)
        cx.assume(rsqrt_def(x))  # definition of the real square root
        return rsqrt(x)

    def m_root(self, cx, x, e):
        """x ** e for a real x"""
        if isinstance(e, (int, fractions.Fraction)):
            if e == 1:
                return x
            if e == 2:
                return x * x
            if e == fractions.Fraction(1, 2):
                return self.m_sqrt(cx, x)
            t = pw(R(x), pR(e))
            cx.assume(pw_facts(R(x), e))
            return t
        e = R(e)
        x = R(x)
        t = pw(x, e)
        if z3.is_app_of(e, z3.Z3_OP_DIV) and z3.is_rational_value(z3.simplify(e.arg(0))) \
                and z3.simplify(e.arg(0)).as_fraction() == 1:
            # definition of the p-th root:  (x^(1/p))^p = x,  x^(1/p) >= 0   for x >= 0, p > 0
            p = e.arg(1)
            cx.assume(Implies(And(x >= 0, p > 0), And(pw(t, p) == x, t >= 0)))
        else:
            cx.assume(And(Implies(x >= 0, t >= 0), Implies(x > 0, t > 0)))
        return t

    def m_sum(self, cx, x):
        if isinstance(x, Mask):
            return self.m_count(cx, x)
        if not isinstance(x, Vec) or not is1(x.scale):
            raise Unsupported(f"sum of {x!r}")
        # leaf (definition of np.sum / xp.sum): sum of the elementwise powers over the index range of the slice
        if is0(x.lo):
            return presum(x.a, pR(x.power), Z(x.hi))
        n = self.ncols(cx)
        cx.oblige("sum-of-suffix-slice", "enc", Z(x.hi) == n, 0)
        return tailsum(x.a, pR(x.power), n, Z(x.lo))

    def m_count(self, cx, x):
        # leaf (definition of np.sum(mask) / count_nonzero(mask)): the number of True entries
        if isinstance(x, Mask):
            v = x.vec
            if not (v.plain and is0(v.lo)):
                raise Unsupported("count over a derived vector")
            f = count_gt if x.op == ">" else z3.Function("count_" + _OPN[x.op], AS, RealS, IntS, IntS)
            return f(v.a, R(x.thr), Z(v.hi))
        if isinstance(x, CMask):
            v = x.cs.vec
            c = count_cum(x.op)(v.a, pR(v.power), R(x.thr), Z(v.hi))
            cx.ghost["cum"] = NS(a=v.a, p=v.power, T=R(x.thr), n=Z(v.hi), c=c, op=x.op)
            return c
        raise Unsupported(f"count of {x!r}")

    # ---- hooks
    def call(self, cx, name, args, kwargs, node):
        line = getattr(node, "lineno", 0)
        leaf = name.split(".", 1)[1] if name.startswith(("np.", "xp.")) else None
        if leaf == "isnan":
            return False  # floats are reals: no NaN (precondition of the property)
        if leaf == "sum":
            return self.m_sum(cx, args[0])
        if leaf == "count_nonzero":
            return self.m_count(cx, args[0])
        if leaf == "sqrt":
            return self.m_sqrt(cx, args[0])
        if leaf == "abs":
            return self.m_abs(cx, args[0], node)
        if leaf == "ascontiguousarray":
            return args[0]
        if leaf == "cumsum":
            v = args[0]
            if not (isinstance(v, Vec) and is1(v.scale) and is0(v.lo)):
                raise Unsupported("cumsum of a derived vector")
            return CumSum(v)
        if leaf == "shape":
            if isinstance(args[0], Vec):
                return (args[0].length(),)  # 1-d spectrum (batched input: bounded stand-in only)
            raise Unsupported("shape of non-vector")
        if name == "get_namespace":
            return XP()
        if name == "infer_backend":
            return "numpy"  # assumption: not tensorflow (dtype plumbing only)
        if name == "parse_info_extras":
            # leaf: the returned dict has the key "error" iff the caller asked for the truncation error
            want = cx.ghost.get("want_error")
            if want is None:
                raise Unsupported("parse_info_extras outside a trim contract")
            return {"error": None} if cx.decide(want, line) else {}
        if name in ("rdmul", "rdmul_numba"):
            t = rdmul_f(args[0], args[1])
            cx.assume(t == mm(args[0], diag(args[1])))  # leaf: x * d[..., None, :] is x . diag(d)
            return t
        if name in ("ldmul", "ldmul_numba"):
            t = ldmul_f(args[0], args[1])
            cx.assume(t == mm(diag(args[0]), args[1]))  # leaf: x * d[..., :, None] is diag(d) . x
            return t
        if name == "__getslice__":
            base, lo, hi, st = args
            if st is not None:
                raise Unsupported("slice with a step")
            if isinstance(base, Vec):
                return self.vec_slice(cx, base, lo, hi, line)
            return NotImplemented
        if name == "__getitem__":
            return self.m_getitem(cx, args[0], args[1], line)
        if name == "__binop__":
            return self.m_binop(cx, args[0], args[1], args[2], line)
        if name == "__cmp__":
            return self.m_cmp(cx, args[0], args[1], args[2], line)
        if name == "__pow__":
            return self.m_root(cx, args[0], args[1])
        return NotImplemented

    def m_abs(self, cx, x, node):
        raise Unsupported("abs outside a trim contract")

    def m_getitem(self, cx, base, idx, line):
        if isinstance(idx, tuple) and idx and idx[0] is Ellipsis:
            idx = idx[1:]
            if len(idx) == 1:
                idx = idx[0]
        if isinstance(base, Vec):
            if _is_slice(idx):
                lo, hi = _slice_bounds(idx)
                return self.vec_slice(cx, base, lo, hi, line)
            if P.is_int(idx):
                cx.oblige(f"index@{line}", "safety", And(Z(idx) >= 0, Z(idx) < base.length()), line)
                if is0(base.lo):
                    cx.assume(inst_array_pre(base.a, Z(base.hi), idx))  # definitions of all_nonneg / sorted_desc at idx
                return base.elem(idx)
            raise Unsupported(f"vector subscript {idx!r}")
        if isinstance(base, CumSum):
            v = base.vec
            if _is_slice(idx):
                lo, hi = _slice_bounds(idx)
                if lo == -1 and hi is None:
                    # leaf (cumsum): the last entry is the sum of everything
                    cx.oblige(f"index@{line}:last", "safety", Z(v.hi) >= 1, line)
                    return One(presum(v.a, pR(v.power), Z(v.hi)))
                if lo is not None and hi is not None and not (isinstance(lo, int) and lo < 0):
                    # leaf (cumsum, numpy slicing): the one-element slice csp[..., k-1:k] holds entry k-1 = presum(k) and
                    # broadcasts as a scalar; the side conditions make the reading exact (one element, in range)
                    cx.oblige(f"slice@{line}:one-element", "enc", Z(hi) == Z(lo) + 1, line)
                    cx.oblige(f"index@{line}", "safety", And(Z(lo) >= 0, Z(lo) < v.hi), line)
                    cx.assume(def_presum(v.a, v.power, 0))
                    cx.assume(lem_presum_mono(v.a, v.power, Z(v.hi), 1, Z(lo) + 1))  # lemma presum-monotone
                    return One(presum(v.a, pR(v.power), Z(lo) + 1))
                raise Unsupported("slice of cumsum")
            if P.is_int(idx):
                cx.oblige(f"index@{line}", "safety", And(Z(idx) >= 0, Z(idx) < v.hi), line)
                # leaf (definition of cumsum): entry k is the sum of the first k+1 elements.
                # lemma presum-monotone + definition at 0: presum(k+1) >= presum(1) = A_0^p
                cx.assume(def_presum(v.a, v.power, 0))
                cx.assume(lem_presum_mono(v.a, v.power, Z(v.hi), 1, idx + 1))
                return presum(v.a, pR(v.power), idx + 1)
            raise Unsupported(f"cumsum subscript {idx!r}")
        if P.is_val(base) and isinstance(idx, tuple) and len(idx) == 2 and all(_is_slice(x) for x in idx):
            (rlo, rhi), (clo, chi) = _slice_bounds(idx[0]), _slice_bounds(idx[1])
            n = self.ncols(cx)
            if rlo is None and rhi is None and clo is None and chi is not None:
                self.safety(cx, f"slice@{line}:bounds", "safety", _bounds(0, chi, n), line)
                return colslice(base, Z(chi))
            if clo is None and chi is None and rlo is None and rhi is not None:
                self.safety(cx, f"slice@{line}:bounds", "safety", _bounds(0, rhi, n), line)
                return rowslice(base, Z(rhi))
            raise Unsupported("matrix slice form")
        return NotImplemented

    def m_binop(self, cx, op, a, b, line):
        if op == "Pow" and isinstance(a, Vec) and P.is_int(b):
            if a.plain:
                return Vec(a.a, a.lo, a.hi, 1, b)
            # power of an already scaled / powered vector: not needed by the carriers; over-approximate by an
            # unknown array (whatever is computed from it cannot be proved equal to the spec)
            return Vec(cx.Array("derived", IntS, RealS), a.lo, a.hi, 1, b)
        if op == "Pow" and isinstance(a, One):
            return One(self.m_root(cx, a.v, b))
        if op == "Mult":
            if isinstance(b, Vec) and not isinstance(a, Vec):
                a, b = b, a
            if isinstance(a, Vec) and is1(a.scale):
                if isinstance(b, One):
                    return Vec(a.a, a.lo, a.hi, b.v, a.power)
                if P.is_num(b):
                    return Vec(a.a, a.lo, a.hi, b, a.power)
            if isinstance(b, One) and P.is_num(a):
                a, b = b, a
            if isinstance(a, One) and P.is_num(b):
                return One(R(a.v) * R(b))
        if op == "Sub" and isinstance(a, One) and P.is_num(b):
            return One(R(a.v) - R(b))
        if op == "Div" and isinstance(a, One) and (P.is_num(b) or isinstance(b, One)):
            b = b.v if isinstance(b, One) else b
            cx.oblige(f"divzero@{line}", "safety", P.num_cmp("!=", b, 0), line)
            return One(R(a.v) / R(b))
        return NotImplemented

    def m_cmp(self, cx, sym, a, b, line):
        if isinstance(a, Vec):
            if isinstance(b, Vec):
                if not (isinstance(b.length(), int) and b.length() == 1):
                    raise Unsupported("vector-vector comparison")
                b = b.elem(0)  # broadcasting of a one-element array
            if P.is_num(b):
                return Mask(a, sym, R(b))
        if isinstance(a, CumSum) and isinstance(b, One):
            return CMask(a, sym, b.v)
        return NotImplemented


# --------------------------------------------------------------------------------------------------------------
# the cutoff rule (common spec of the numba helper and of both trim functions)
# --------------------------------------------------------------------------------------------------------------

JSK = z3.Int("j!sk")  # skolem index of the quantifier-free boundary clauses


def mode_is(mode, name):
    c = mode_code(name)
    if isinstance(mode, int):
        return mode == c
    return mode == c


def rule_threshold(A, cutoff, name):
    return cutoff if name == "abs" else cutoff * A[0]


def rule_target(A, n, cutoff, name):
    return cutoff * presum(A, pR(mode_power(name)), n) if name in REL_SUM_MODES else cutoff


def keep_rule(A, n, cutoff, mode, r):
    """the kept number r of the cutoff rule (without cap), as label -> formula; mode concrete or symbolic"""
    d = {"range": And(1 <= r, r <= n)}
    cnt, above, below, within, least = [], [], [], [], []
    for name in MODE_NAMES:
        g = mode_is(mode, name)
        if g is False:
            continue
        if name in ("abs", "rel"):
            thr = rule_threshold(A, cutoff, name)
            cnt.append(Implies(g, r == Max(1, count_gt(A, thr, n))))
            above.append(Implies(And(g, 1 <= JSK, JSK < r), A[JSK] > thr))
            below.append(Implies(And(g, r <= JSK, JSK < n), A[JSK] <= thr))
        else:
            p = mode_power(name)
            t = rule_target(A, n, cutoff, name)
            within.append(Implies(g, Or(tailsum(A, pR(p), n, r) <= t, And(r == n, t < 0))))
            least.append(Implies(And(g, r > 1), tailsum(A, pR(p), n, r - 1) >= t))
    if cnt:
        d["count"] = And(*cnt)  # r = max(1, #{s > thr})
        d["kept-above"] = And(*above)  # every kept value but the first is above the threshold
        d["discarded-below"] = And(*below)  # every discarded value is at or below it
    if within:
        d["within-target"] = And(*within)
        d["least"] = And(*least)
    return d


def keep_rule_instances(A, n, cutoff, mode):
    """instances of proved lemmas / definitions that give the boundary reading of count_gt (abs / rel)"""
    out = []
    for name in ("abs", "rel"):
        g = mode_is(mode, name)
        if g is False:
            continue
        out.append(Implies(g, lem_count_boundary(A, rule_threshold(A, cutoff, name), n, JSK)))
    return out


@register
class KeepNumba(NumModel):
    target = f"{DEC}::_compute_number_svals_to_keep_numba"
    floor = 40

    def cases(self):
        return [NS(name=f"mode={m}", mode=m) for m in MODE_NAMES]

    def inputs(self, cx, case):
        n = cx.Int("n")
        cx.ghost["n"] = n
        return dict(s=Vec(cx.Array("s", IntS, RealS), 0, n), cutoff=cx.Real("cutoff"), cutoff_mode=mode_code(case.mode))

    def case_of_call(self, cx, a):
        if isinstance(a.cutoff_mode, int):
            for m in MODE_NAMES:
                if mode_code(m) == a.cutoff_mode:
                    return NS(name="call", mode=m)
        return NS(name="call", mode=None)

    def requires(self, a, case):
        s = a.s
        if not (isinstance(s, Vec) and s.plain and is0(s.lo)):
            raise Unsupported("_compute_number_svals_to_keep_numba on a derived vector")
        d = {"len>=1": Z(s.hi) >= 1, "nonneg": all_nonneg(s.a, Z(s.hi)), "sorted": sorted_desc(s.a, Z(s.hi))}
        if not isinstance(a.cutoff_mode, int):
            d["mode-valid"] = Or(*[a.cutoff_mode == mode_code(m) for m in MODE_NAMES])
        else:
            d["mode-valid"] = any(a.cutoff_mode == mode_code(m) for m in MODE_NAMES)
        return d

    def ensures(self, a, r, cx, case):
        A, n = a.s.a, Z(a.s.hi)
        for c in keep_rule_instances(A, n, a.cutoff, a.cutoff_mode):
            cx.assume(c)  # lemma count-boundary (premise: sorted, from requires)
        for p in (1, 2):
            cx.assume(def_tail(A, p, n, 0))
        cx.assume(inst_array_pre(A, n, 0))
        cx.assume(inst_array_pre(A, n, JSK))
        return keep_rule(A, n, a.cutoff, a.cutoff_mode, r)

    def fresh_result(self, cx, a, case):
        return cx.Int("n_keep")

    # loop 0 (sum modes): backwards accumulation of the tail sum
    def loop0(self, case):
        p = mode_power(case.mode)

        def inv(v):
            A, n = v.old.s.a, v.old.s.hi
            target = rule_target(A, n, v.old.cutoff, case.mode)
            return {"n_chi": v.n_chi == v.i + 1, "range": And(-1 <= v.i, v.i <= n - 1),
                    "ssum": v.ssum == tailsum(A, pR(p), n, v.i + 1),
                    "below-target": Implies(v.i < n - 1, v.ssum <= target),
                    "target": v.target == target}

        def facts(v):
            A, n = v.old.s.a, v.old.s.hi
            return [def_tail(A, p, n, v.i), def_tail(A, p, n, v.i + 1)]

        return Loop("for i in range(s.size - 1, -1, -1)", inv, facts=facts)

    @property
    def loops(self):
        return {0: self.loop0}

    def replay(self, model):
        return _replay_keep(model)


# --------------------------------------------------------------------------------------------------------------
# renormalisation factor
# --------------------------------------------------------------------------------------------------------------


def renorm_spec(f, A, p, N, n):
    """f^p * sum_{i<N} A_i^p == sum_{i<n} A_i^p   (f >= 0 where the power does not determine the sign)"""
    K, T = presum(A, pR(p), N), presum(A, pR(p), n)
    f = R(f)
    if isinstance(p, int) and p == 1:
        return f * K == T
    if isinstance(p, int) and p == 2:
        return And(f >= 0, f * f * K == T)
    return And(f >= 0, pw(f, pR(p)) * K == T)


RENORM_CASES = (1, 2, "p>=3")


def renorm_value(cx, r):
    return r if isinstance(r, int) else cx.Int("renorm")


@register
class RenormNumba(NumModel):
    target = f"{DEC}::_compute_svals_renorm_factor_numba"
    floor = 20

    def cases(self):
        return [NS(name=f"renorm={r}", renorm=r) for r in RENORM_CASES]

    def inputs(self, cx, case):
        n = cx.Int("n")
        cx.ghost["n"] = n
        return dict(s=Vec(cx.Array("s", IntS, RealS), 0, n), n_chi=cx.Int("n_chi"), renorm=renorm_value(cx, case.renorm))

    def case_of_call(self, cx, a):
        return NS(name="call", renorm=a.renorm if isinstance(a.renorm, int) else "p>=3")

    def requires(self, a, case):
        s = a.s
        if not (isinstance(s, Vec) and s.plain and is0(s.lo)):
            raise Unsupported("_compute_svals_renorm_factor_numba on a derived vector")
        d = {"len>=1": Z(s.hi) >= 1, "n_chi-range": And(1 <= a.n_chi, a.n_chi <= s.hi), "nonneg": all_nonneg(s.a, Z(s.hi)),
             "nonzero": s.a[0] > 0}
        if isinstance(a.renorm, int):
            d["renorm-domain"] = a.renorm in (1, 2)
        else:
            d["renorm-domain"] = a.renorm >= 3
        return d

    def ensures(self, a, f, cx, case):
        return {"preserves-norm": renorm_spec(f, a.s.a, a.renorm, a.n_chi, Z(a.s.hi))}

    def fresh_result(self, cx, a, case):
        return cx.Real("f_renorm")

    def loop0(self, case):
        def inv(v):
            A, n, p, nc = v.old.s.a, v.old.s.hi, v.old.renorm, v.old.n_chi
            m = Min(v.i, nc)
            return {"i-range": And(0 <= v.i, v.i <= n),
                    "keep": v.s_tot_keep == presum(A, pR(p), m),
                    "lose": v.s_tot_lose == presum(A, pR(p), v.i) - presum(A, pR(p), m),
                    "keep>0": Implies(v.i >= 1, v.s_tot_keep > 0), "lose>=0": v.s_tot_lose >= 0}

        def facts(v):
            A, p = v.old.s.a, v.old.renorm
            return [def_presum(A, p, v.i), pw_facts(A[0], p)]

        return Loop("for i in range(s.size)", inv, facts=facts)

    @property
    def loops(self):
        return {0: self.loop0}

    def replay(self, model):
        return _replay_renorm(model)


# --------------------------------------------------------------------------------------------------------------
# absorb table
# --------------------------------------------------------------------------------------------------------------

ABSORB_CONST = {"full": None, "both": "get_Usq_sqVH", "right": "get_U_sVH", "left": "get_Us_VH", "rfactor": "get_sVH",
                "lfactor": "get_Us", "lorthog": "get_U", "rorthog": "get_VH", "lsqrt": "get_Usq", "rsqrt": "get_sqVH",
                "svals": "get_s"}
FULL_FORMS = ("full", "both", "right", "left")
LEFT_UNSCALED = ("full", "right", "lorthog")  # the forms parse_split_left_right_isom flags left-isometric
RIGHT_UNSCALED = ("full", "left", "rorthog")


def absorb_code(name):
    c = ABSORB_CONST[name]
    return None if c is None else module_consts()[c]


def absorb_table(U, s, VH):
    """the specification table: form name -> (left, values, right) in the matrix algebra"""
    D, H = diag(s), diag(vsqrt(s))
    US, UH, SV, HV = mm(U, D), mm(U, H), mm(D, VH), mm(H, VH)
    return {"full": (U, s, VH), "both": (UH, None, HV), "right": (U, None, SV), "left": (US, None, VH),
            "rfactor": (None, None, SV), "lfactor": (US, None, None), "lorthog": (U, None, None),
            "rorthog": (None, None, VH), "lsqrt": (UH, None, None), "rsqrt": (None, None, HV), "svals": (None, s, None)}


def algebra_facts(U, s, VH):
    """ground instances of the axioms of the uninterpreted matrix algebra: associativity of the product over the
    terms that occur, and the definitional fact diag(sqrt s) . diag(sqrt s) = diag(s)"""
    D, H = diag(s), diag(vsqrt(s))
    out = [mm(H, H) == D]
    for a in (U, D, H, mm(U, H), mm(U, D)):
        for b in (D, H):
            for c in (D, H, VH, mm(H, VH), mm(D, VH)):
                out.append(mm(mm(a, b), c) == mm(a, mm(b, c)))
    return out


class DoAbsorbBase(NumModel):
    floor = 30
    with_invalid = False

    def cases(self):
        cs = [NS(name=f"absorb={k}", form=k) for k in ABSORB_CONST]
        if self.with_invalid:
            cs.append(NS(name="absorb=invalid", form="invalid"))
        return cs

    def inputs(self, cx, case):
        if case.form == "invalid":
            ab = cx.Int("absorb")
        else:
            ab = absorb_code(case.form)
        d = dict(U=cx.Val("U"), s=cx.Val("s"), VH=cx.Val("VH"), absorb=ab)
        if self.with_invalid:
            d["xp"] = None
        return d

    def requires(self, a, case):
        facts = algebra_facts(a.U, a.s, a.VH)
        d = {"def-sqrt-diag": facts[0], "def-product-associative": And(*facts[1:])}
        if case.form == "invalid":
            d["code-not-in-table"] = And(*[a.absorb != absorb_code(k) for k in ABSORB_CONST if k != "full"])
        return d

    def ensures(self, a, r, cx, case):
        if case.form == "invalid":
            return {"invalid-code-must-raise": False}
        if not (isinstance(r, tuple) and len(r) == 3):
            return {"returns-triple": False}
        spec = absorb_table(a.U, a.s, a.VH)[case.form]
        d = {"form": all((x is None) == (y is None) for x, y in zip(r, spec))}
        d["values"] = And(*[x == y for x, y in zip(r, spec) if x is not None and y is not None])
        if case.form in FULL_FORMS and r[0] is not None and r[2] is not None:
            prod = mm(r[0], r[2]) if r[1] is None else mm(mm(r[0], diag(r[1])), r[2])
            d["product"] = prod == mm(mm(a.U, diag(a.s)), a.VH)
        if case.form in LEFT_UNSCALED:
            d["left-unscaled-where-flagged-isometric"] = (r[0] is not None) and r[0] == a.U
        if case.form in RIGHT_UNSCALED:
            d["right-unscaled-where-flagged-isometric"] = (r[2] is not None) and r[2] == a.VH
        return d

    def ensures_raise(self, a, exc, cx, case):
        return {f"raise-{exc}-only-for-invalid-code": exc == "ValueError" and case.form == "invalid"}


@register
class DoAbsorb(DoAbsorbBase):
    target = f"{DEC}::_do_absorb"
    with_invalid = True


@register
class DoAbsorbNumba(DoAbsorbBase):
    target = f"{DEC}::_do_absorb_numba"


def absorbed_form(U, sval, VH, absorb):
    """callee summary of _do_absorb / _do_absorb_numba for an opaque absorb code: the result is a function of the four
    arguments (the functions are pure); the table itself is what the DoAbsorb contracts prove for every code"""
    return tuple(z3.Function(f"absorbed{k}", V, V, V, V, V)(U, sval, VH, absorb) for k in range(3))


# --------------------------------------------------------------------------------------------------------------
# trim / renorm / absorb: one functional spec for the accelerated and the generic implementation
# --------------------------------------------------------------------------------------------------------------

TRIM_RENORMS = (0, 1, 2, "p>=3")


class TrimBase(NumModel):
    """common inputs, pre-condition and post-condition (the functional spec of the relational obligation)"""

    floor = 60
    mode_cases = (None,)  # None: cutoff mode symbolic

    def cases(self):
        out = []
        for m in self.mode_cases:
            for r in TRIM_RENORMS:
                nm = f"renorm={r}" if m is None else f"mode={m},renorm={r}"
                out.append(NS(name=nm, mode=m, renorm=r))
        return out

    def common_inputs(self, cx, case):
        n = cx.Int("n")
        A, B = cx.Array("s", IntS, RealS), cx.Array("sabs", IntS, RealS)
        cx.ghost["n"] = n
        mode = cx.Int("cutoff_mode") if case.mode is None else mode_code(case.mode)
        return dict(U=cx.Val("U"), s=Vec(A, 0, n), VH=cx.Val("VH"), cutoff=cx.Real("cutoff"), cutoff_mode=mode,
                    max_bond=cx.Int("max_bond"), absorb=cx.Val("absorb"), renorm=renorm_value(cx, case.renorm),
                    use_abs=cx.Bool("use_abs"), _n=n, _A=A, _B=B)

    def spec_array(self, a):
        return z3.If(a.use_abs, a._B, a._A)

    def pre_instance(self, a, k):
        """definitions at index k: the ghost array |s| (leaf np.abs / xp.abs: elementwise), all_nonneg, sorted_desc"""
        n, A, B, SA = a._n, a._A, a._B, self.spec_array(a)
        k = Z(k)
        return And(B[k] == If(A[k] >= 0, A[k], -A[k]), inst_array_pre(SA, n, k))

    def requires(self, a, case):
        """pre-condition: len(s) >= 1; max_bond = -1 or >= 1; the spectrum the rule looks at (|s| if use_abs else s) is
        non-negative and sorted descending (predicates all_nonneg / sorted_desc, used through instances of their
        definitions only); non-zero (s_0 > 0) when renormalisation is requested; U has len(s) columns and VH len(s)
        rows."""
        n = a._n
        SA = self.spec_array(a)
        d = {"len>=1": n >= 1, "max_bond-domain": Or(a.max_bond == -1, a.max_bond >= 1),
             # shapes: U has len(s) columns, VH has len(s) rows; slicing up to the full extent is the identity
             "def-slice-full": And(colslice(a.U, n) == a.U, rowslice(a.VH, n) == a.VH),
             "nonneg": all_nonneg(SA, n), "sorted": sorted_desc(SA, n),
             "nonzero": Implies(P.num_cmp(">", a.renorm, 0), SA[0] > 0),
             "def@0": self.pre_instance(a, 0)}
        if not isinstance(a.renorm, int):
            d["renorm-domain"] = a.renorm >= 3
        if not isinstance(a.cutoff_mode, int):
            d["mode-valid"] = Or(*[a.cutoff_mode == mode_code(m) for m in MODE_NAMES])
        # tags so that a counterexample names its case (read by replay)
        tm, tr = z3.Int("case!mode"), z3.Int("case!renorm")
        d["case-tag"] = And(tm == a.cutoff_mode, tr == a.renorm)
        return d

    def m_abs(self, cx, x, node):
        o = cx.old
        if isinstance(x, Vec) and x.plain and is0(x.lo) and x.a.eq(o._A) and z3.eq(Z(x.hi), o._n):
            return Vec(o._B, 0, x.hi)  # |s| is the ghost array defined in requires (def-abs)
        raise Unsupported("abs of something else than the input spectrum")

    def record_absorb(self, cx, U, s, VH, absorb):
        sval = s.val() if isinstance(s, Vec) else (s if P.is_val(s) else NONE_V)
        absorb = absorb if P.is_val(absorb) else (NONE_V if absorb is None else P.as_val(absorb))
        out = absorbed_form(U, sval, VH, absorb)
        cx.ghost["absorb_call"] = NS(U=U, s=s, VH=VH, absorb=absorb, out=out)
        return out

    def trim_post(self, a, cx, case, triple, err, want_error):
        """the functional spec.  ``triple`` = returned factors, ``err`` = reported error (None: not reported)"""
        rec = cx.ghost.get("absorb_call")
        if rec is None:
            return {"absorb-step-reached": False}
        sv = rec.s
        if not isinstance(sv, Vec):
            return {"kept-values-are-a-vector": False}
        n, A, SA = a._n, a._A, self.spec_array(a)
        N = Z(sv.length())
        mb, renorm, cutoff, mode = a.max_bond, a.renorm, a.cutoff, a.cutoff_mode
        dyn = Or(cutoff > 0, P.num_cmp(">", renorm, 0))
        cap = lambda x: If(mb > 0, Min(x, mb), x)
        capped = And(mb > 0, N == mb)
        # ---- instances of the pre-condition, of definitions and of proved lemmas at the indices the clauses mention
        sum_powers = sorted({mode_power(m) for m in SUM_MODES if mode_is(mode, m) is not False})
        cx.assume(self.pre_instance(a, N))
        for name in ("abs", "rel"):
            if mode_is(mode, name) is not False:  # lemma count-boundary (premise: sorted): 0 <= count <= n
                cx.assume(Implies(mode_is(mode, name), lem_count_boundary(SA, rule_threshold(SA, cutoff, name), n, 0)))
        for p in sum_powers:
            for k in (N, N - 1):
                cx.assume(lem_split(SA, p, n, k))  # lemma split-sum
            cx.assume(lem_tail_nonneg(SA, p, n, N))  # lemma tail-monotone
        if not (isinstance(renorm, int) and renorm == 0):
            # sums of renorm-th powers are positive: definition at 0 (A_0 > 0) + lemma presum-monotone
            cx.assume(def_presum(SA, renorm, 0))
            for k in (N, n):
                cx.assume(lem_presum_mono(SA, renorm, n, 1, k))
        cum = cx.ghost.get("cum")
        if cum is not None:
            for k in (N, N - 1):
                cx.assume(lem_cumcount_boundary(cum.a, cum.p, cum.T, cum.n, k, cum.op))  # lemma count-boundary (cumulative mask)
        rule = cx.ghost.get("rule")
        if rule is not None:
            for p in sum_powers:
                cx.assume(lem_tail_mono(SA, p, n, N - 1, rule - 1))  # lemma tail-monotone
        d = {}
        # ---- factors: the returned triple is the absorb-form (for the absorb code passed in) of U[:, :N], f*s[:N], VH[:N]
        d["factors"] = And(And(*[Z(x) == y for x, y in zip(triple, rec.out)])
                           if len(triple) == 3 and all(P.is_val(x) for x in triple) else False,
                           Z(rec.absorb) == a.absorb, rec.U == colslice(a.U, N), rec.VH == rowslice(a.VH, N),
                           sv.a == A, Z(sv.lo) == 0, is1(sv.power))  # the values are a multiple of the prefix s[:N]
        # ---- kept number: 1 <= N <= len(s); capped; without dynamic truncation N = min(len(s), cap)
        d["n-bounds"] = And(1 <= N, N <= n, Implies(mb > 0, N <= mb), Implies(Not(dyn), N == cap(n)))
        cnt, within, least = [], [], []
        for name in MODE_NAMES:
            g = mode_is(mode, name)
            if g is False:
                continue
            if name in ("abs", "rel"):
                thr = rule_threshold(SA, cutoff, name)
                cnt.append(Implies(And(dyn, g), N == cap(Max(1, count_gt(SA, thr, n)))))
            else:
                p = mode_power(name)
                t = rule_target(SA, n, cutoff, name)
                within.append(Implies(And(dyn, g, Not(capped)), Or(tailsum(SA, pR(p), n, N) <= t, And(N == n, t < 0))))
                least.append(Implies(And(dyn, g, N > 1), tailsum(SA, pR(p), n, N - 1) >= t))
        if cnt:
            d["n-rule-count"] = And(*cnt)
        if within:
            # least k >= 1 whose discarded tail is within the target (ties open), then capped
            d["n-rule-sum"] = And(And(*within), And(*least))
        if rule is not None:
            d["n==min(rule,cap)"] = Implies(dyn, N == cap(rule))
        # ---- kept values = f * s[:N]
        f = sv.scale
        if isinstance(renorm, int) and renorm == 0:
            d["renorm-factor"] = True if is1(f) else R(f) == 1
        else:
            d["renorm-factor"] = And(Implies(N == n, R(f) == 1), Implies(N < n, renorm_spec(f, SA, renorm, N, n)))
        # ---- error
        spec_err = If(N < n, rsqrt(tailsum(SA, pR(2), n, N)), z3.RealVal(0))
        if err is None:
            d["error"] = Not(want_error)
        else:
            d["error"] = And(want_error, R(err) == spec_err) if P.is_num(err) else False
        return d

    def replay(self, model):
        return _replay_trim(self.target.split("::")[-1], model)


@register
class TrimNumba(TrimBase):
    target = f"{DEC}::_trim_and_renorm_svd_result_numba"

    def inputs(self, cx, case):
        d = self.common_inputs(cx, case)
        d["calc_error"] = cx.Bool("calc_error")
        return d

    def call(self, cx, name, args, kwargs, node):
        if name == "_do_absorb_numba":
            return self.record_absorb(cx, *args)
        if name == "_compute_number_svals_to_keep_numba":
            r = cx.call_contract(P.REGISTRY_BY_NAME[name], args, kwargs, node)
            cx.ghost["rule"] = r
            return r
        return super().call(cx, name, args, kwargs, node)

    def ensures(self, a, r, cx, case):
        if not (isinstance(r, tuple) and len(r) == 4):
            return {"returns-4-tuple": False}
        return self.trim_post(a, cx, case, r[:3], r[3], a.calc_error)


@register
class TrimGeneric(TrimBase):
    target = f"{DEC}::_trim_and_renorm_svd_result"
    mode_cases = MODE_NAMES

    def inputs(self, cx, case):
        d = self.common_inputs(cx, case)
        want = cx.Bool("want_error")
        cx.ghost["want_error"] = want
        d.update(info=Info(), xp=None, _want=want)
        return d

    def call(self, cx, name, args, kwargs, node):
        if name == "_do_absorb":
            return self.record_absorb(cx, args[0], args[1], args[2], kwargs.get("absorb", args[3] if len(args) > 3 else None))
        return super().call(cx, name, args, kwargs, node)

    def ensures(self, a, r, cx, case):
        if not (isinstance(r, tuple) and len(r) == 3):
            return {"returns-triple": False}
        info = cx.env.get("info")
        err = info.get("error") if isinstance(info, dict) and "error" in info else None
        return self.trim_post(a, cx, case, r, err, a._want)


# --------------------------------------------------------------------------------------------------------------
# native replays (run the real functions; the model only selects the case)
# --------------------------------------------------------------------------------------------------------------

_SPECTRA = ([3.0, 2.0, 1.0, 0.5], [1.0, 0.5, 0.25, 0.125, 0.0625], [2.0, 2.0, 1.0], [5.0])


def _ref_rule(s, cutoff, mode):
    """independent reading of the documented rule (exact arithmetic on the small replay spectra; ties avoided)"""
    import numpy as np
    s = np.asarray(s, float)
    name = {mode_code(m): m for m in MODE_NAMES}[mode]
    if name == "abs":
        return max(1, int((s > cutoff).sum()))
    if name == "rel":
        return max(1, int((s > cutoff * s[0]).sum()))
    p = mode_power(name)
    t = cutoff * (s**p).sum() if name in REL_SUM_MODES else cutoff
    for k in range(1, len(s) + 1):
        if (s[k:] ** p).sum() <= t:
            return k
    return len(s)


def _replay_keep(model):
    import numpy as np
    import quimb.tensor.decomp as D
    f = getattr(D._compute_number_svals_to_keep_numba, "py_func", D._compute_number_svals_to_keep_numba)
    bad = []
    for s in _SPECTRA:
        for mode in [mode_code(m) for m in MODE_NAMES]:
            for cutoff in (0.3, 0.07, 1e-3, 2.0, 0.0, -1.0):
                got = int(f(np.array(s), cutoff, mode))
                exp = _ref_rule(s, cutoff, mode)
                if got != exp:
                    bad.append(dict(s=s, cutoff=cutoff, mode=mode, got=got, expected=exp))
    return dict(call="_compute_number_svals_to_keep_numba.py_func over a small grid", observed=bad[:5],
                reproduced=bool(bad))


def _replay_renorm(model):
    import numpy as np
    import quimb.tensor.decomp as D
    f = getattr(D._compute_svals_renorm_factor_numba, "py_func", D._compute_svals_renorm_factor_numba)
    bad = []
    for s in _SPECTRA:
        s = np.array(s)
        for n_chi in range(1, len(s) + 1):
            for p in (1, 2, 3):
                g = f(s, n_chi, float(p))
                if abs(g**p * (s[:n_chi] ** p).sum() - (s**p).sum()) > 1e-9 * (s**p).sum():
                    bad.append(dict(s=s.tolist(), n_chi=n_chi, renorm=p, f=float(g)))
    return dict(call="_compute_svals_renorm_factor_numba.py_func over a small grid", observed=bad[:5], reproduced=bool(bad))


def _replay_trim(fname, model):
    """run the real trim function on small spectra for the (cutoff mode, renorm) case of the failed obligation and
    evaluate the functional spec numerically"""
    import numpy as np
    import quimb.tensor.decomp as D

    def num(k, default):
        try:
            return int(str((model or {}).get(k, default)))
        except ValueError:
            return default

    modes = [num("case!mode", 0)] if num("case!mode", 0) else [mode_code(m) for m in MODE_NAMES]
    renorm = num("case!renorm", 1)
    generic = fname == "_trim_and_renorm_svd_result"
    bad = []
    for mode in modes:
        for s in _SPECTRA[:2]:
            for cutoff, mb in ((0.3, -1), (0.07, -1), (0.07, 2), (-1.0, 3), (0.3, 1)):
                s = np.array(s)
                d = len(s)
                U, VH = np.eye(d), np.eye(d)
                call = f"{fname}(U=eye({d}), s={s.tolist()}, VH=eye({d}), cutoff={cutoff}, cutoff_mode={mode}, " \
                       f"max_bond={mb}, absorb=None, renorm={renorm})"
                try:
                    if generic:
                        info = {"error": None}
                        _, ks, _ = D._trim_and_renorm_svd_result(U, s.copy(), VH, cutoff=cutoff, cutoff_mode=mode,
                                                                 max_bond=mb, absorb=None, renorm=renorm, info=info)
                        err = info["error"]
                    else:
                        f = getattr(D._trim_and_renorm_svd_result_numba, "py_func", D._trim_and_renorm_svd_result_numba)
                        _, ks, _, err = f(U, s.copy(), VH, cutoff, mode, mb, None, renorm, False, True)
                except Exception as e:  # noqa
                    bad.append(dict(call=call, observed=f"{type(e).__name__}: {e}"))
                    continue
                dyn = cutoff > 0 or renorm > 0
                N = (min(_ref_rule(s, cutoff, mode), mb) if mb > 0 else _ref_rule(s, cutoff, mode)) if dyn else \
                    (min(mb, d) if mb > 0 else d)
                f_exp = ((s**renorm).sum() / (s[:N] ** renorm).sum()) ** (1 / renorm) if (renorm > 0 and N < d) else 1.0
                exp = f_exp * s[:N]
                e_exp = float(np.sqrt((s[N:] ** 2).sum()))
                ok = len(ks) == N and np.allclose(ks, exp, rtol=1e-10) and abs(float(err) - e_exp) < 1e-10
                if not ok:
                    bad.append(dict(call=call, observed=dict(kept=np.asarray(ks).tolist(), error=float(err)),
                                    expected=dict(kept=exp.tolist(), error=e_exp)))
    return dict(call=bad[0]["call"] if bad else f"{fname} over a small grid", observed=bad[:4], reproduced=bool(bad))


# ==============================================================================================================
# Part 2 -- fdx: the option parsers, executed on their complete finite domains
# ==============================================================================================================
#
# Domain: every method spelling accepted by the API (the registered drivers of _SPLIT_FNS plus 'auto', the deprecated
# alias 'eig' and the 'lq' / 'lq:cholesky' spellings that parse_method_absorb rewrites) x every absorb alias (all
# keys of _ABSORB_MAP -- strings, numeric codes, None -- plus 'auto') x the truncation flag.  Obligations:
#   total        parse_method_absorb / parse_split_opts: each combination raises a quimb ValueError or yields a registered
#                method, an absorb code of the table and options that bind to the driver's signature
#   isometry     parse_split_left_right_isom: a factor flagged isometric for (method, absorb) is an isometry when the
#                real driver is run through array_split on fixed full-rank matrices (tall, wide, square; float64,
#                complex128), measured as min(|F^H F - 1|, |F F^H - 1|).  One obligation id per (method, absorb).
#   memo-key     each functools.cache'd parser: argument tuples equal under == / hash (True ~ 1 ~ 1.0, False ~ 0 ~ 0.0,
#                k ~ float(k)) give equal results of the *uncached* function (.__wrapped__).  One id per parameter.
#   tables       _do_absorb returns a left / right factor exactly for the codes in _RETURNS_LEFT/RIGHT_ABSORBS;
#                _ABSORB_TRANSPOSE_MAP is the form of the transposed problem; defaults of the drivers are accepted.

_F = DEC + "::"


def _ob(fn, label, status, t0, model=None, detail=None):
    from vf.framework import ObResult
    return ObResult(id=f"{_F}{fn}::{label}", kind="fdx", status=status, backend="exhaustive", solver_s=time.time() - t0,
                    function=_F + fn, model=model, detail=detail, engine="fdx")


def _clear_caches(D):
    for f in (D.parse_method_absorb, D.parse_split_opts, D.parse_split_left_right_isom):
        f.cache_clear()


def _method_spellings(D):
    return ["auto", "eig", "lq", "lq:cholesky"] + list(D._SPLIT_FNS)


def _absorb_spellings(D):
    return ["auto"] + list(D._ABSORB_MAP)


def _lab(x):
    return repr(x) if not isinstance(x, str) else x


def _fdx_total(D, out):
    import inspect
    import warnings
    import numpy as np

    codes = set(D._ABSORB_MAP.values())
    modes = set(D._CUTOFF_MODE_MAP.values())
    x = np.zeros((2, 2))
    pma, pso = D.parse_method_absorb.__wrapped__, D.parse_split_opts.__wrapped__
    trunc_settings = [(None, 0.0), (None, 1e-10), (4, 0.0), (4, 1e-10), (None, None)]
    mode_spellings = list(D._CUTOFF_MODE_MAP)
    renorms = [None, 0, 1, 2, 3, True, False]
    sigs = {m: inspect.signature(f) for m, f in D._SPLIT_FNS.items()}
    ncalls = 0
    for M in _method_spellings(D):
        for A in _absorb_spellings(D):
            # ---- parse_method_absorb
            t0 = time.time()
            bad = None
            for tr in (True, False):
                ncalls += 1
                try:
                    with warnings.catch_warnings():
                        warnings.simplefilter("ignore")
                        m2, a2 = pma(M, A, tr)
                    if m2 not in D._SPLIT_FNS or a2 not in codes:
                        bad = dict(call=f"parse_method_absorb({M!r}, {A!r}, {tr})", observed=repr((m2, a2)),
                                   expected="a registered method and an absorb code of the table")
                except ValueError:
                    pass
                except Exception as e:  # noqa
                    bad = dict(call=f"parse_method_absorb({M!r}, {A!r}, {tr})", observed=f"{type(e).__name__}: {e}",
                               expected="a result or a ValueError")
            out.append(_ob("parse_method_absorb", f"total[method={M},absorb={_lab(A)}]", "failed" if bad else "discharged",
                           t0, model=bad))
            # ---- parse_split_opts
            t0 = time.time()
            bad = None
            for (mb, co) in trunc_settings:
                for cm in mode_spellings:
                    for rn in renorms:
                        ncalls += 1
                        call = f"parse_split_opts({M!r}, {A!r}, max_bond={mb}, cutoff={co}, cutoff_mode={cm!r}, renorm={rn})"
                        try:
                            with warnings.catch_warnings():
                                warnings.simplefilter("ignore")
                                m2, opts = pso(M, A, mb, co, cm, rn)
                        except ValueError:
                            continue
                        except Exception as e:  # noqa
                            bad = bad or dict(call=call, observed=f"{type(e).__name__}: {e}", expected="a result or a ValueError")
                            continue
                        why = None
                        if m2 not in D._SPLIT_FNS:
                            why = f"method {m2!r} is not registered"
                        else:
                            try:
                                sigs[m2].bind(x, **opts)
                            except TypeError as e:
                                why = f"options do not bind to the driver's signature: {e}"
                            if "absorb" in opts and opts["absorb"] not in codes:
                                why = f"absorb {opts['absorb']!r} not a code of the table"
                            if "cutoff_mode" in opts and opts["cutoff_mode"] not in modes:
                                why = f"cutoff_mode {opts['cutoff_mode']!r} not a code"
                            if "renorm" in opts and not (isinstance(opts["renorm"], int) and opts["renorm"] is not True
                                                         and opts["renorm"] >= 0):
                                why = f"renorm {opts['renorm']!r} is not a resolved non-negative int power"
                            if "max_bond" in opts and not isinstance(opts["max_bond"], int):
                                why = f"max_bond {opts['max_bond']!r} not an int"
                            if "cutoff" in opts and not isinstance(opts["cutoff"], float):
                                why = f"cutoff {opts['cutoff']!r} not a float"
                        if why:
                            bad = bad or dict(call=call, observed=repr((m2, opts)), expected=why)
            out.append(_ob("parse_split_opts", f"total[method={M},absorb={_lab(A)}]", "failed" if bad else "discharged",
                           t0, model=bad))
    return ncalls


def _isometry_inputs(method, seed=7):
    """fixed full-rank inputs in the domain of the driver: (label, array, extra options)"""
    import numpy as np
    rng = np.random.default_rng(seed)
    out = []
    for dt in ("float64", "complex128"):
        def rnd(m, n):
            a = rng.normal(size=(m, n))
            if dt == "complex128":
                a = a + 1j * rng.normal(size=(m, n))
            return a.astype(dt)
        if method in ("eigh", "eigsh", "cholesky"):
            for d in (5, 4):
                a = rnd(d, d)
                h = a @ a.conj().T + d * np.eye(d)  # hermitian positive definite, well conditioned
                out.append((f"hpd{d}x{d}:{dt}", h))
        else:
            for (m, n) in ((6, 4), (4, 6), (5, 5)):
                out.append((f"{m}x{n}:{dt}", rnd(m, n)))
    return out


_LOOSE = {"svd:eig": 1e-6, "eig": 1e-6, "qr:cholesky": 1e-6, "lq:cholesky": 1e-6, "svd:rand": 1e-6, "svds": 1e-6,
          "isvd": 1e-6, "rsvd": 1e-6, "eigsh": 1e-6}
_ABSORB_REPR = ["auto", None, "both", "left", "right", "lorthog", "rorthog", "lfactor", "rfactor", "lsqrt", "rsqrt", "s"]


def _iso_defect(F):
    import numpy as np
    F = np.asarray(F)
    a = np.linalg.norm(F.conj().T @ F - np.eye(F.shape[1]))
    b = np.linalg.norm(F @ F.conj().T - np.eye(F.shape[0]))
    return float(min(a, b))


def _fdx_isometry(D, out, methods=None):
    import warnings
    import numpy as np

    runs = 0
    for M in _method_spellings(D):
        if methods is not None and M not in methods:
            continue
        inputs = _isometry_inputs(D.parse_method(M) if M != "eig" else "svd:eig")
        for A in _ABSORB_REPR:
            t0 = time.time()
            _clear_caches(D)
            with warnings.catch_warnings():
                warnings.simplefilter("ignore")
                try:
                    li, ri = D.parse_split_left_right_isom.__wrapped__(M, A)
                except Exception as e:  # noqa
                    out.append(_ob("parse_split_left_right_isom", f"isometry[method={M},absorb={_lab(A)}]", "failed", t0,
                                   model=dict(call=f"parse_split_left_right_isom({M!r}, {A!r})",
                                              observed=f"{type(e).__name__}: {e}")))
                    continue
            if not (li or ri):
                continue  # no claim
            worst, bad, rejected, errors = 0.0, None, 0, []
            for lab, x in inputs:
                m, n = x.shape
                opts = dict(max_bond=None, cutoff=0.0)
                if M == "svd:rand":
                    opts["max_bond"] = min(m, n)
                if M in ("svds", "isvd", "rsvd", "eigsh"):
                    opts["max_bond"] = 2  # static truncation (untruncated calls of the iterative drivers: finding C05-iter-none)
                call = f"array_split(<{lab}>, method={M!r}, absorb={A!r}, max_bond={opts['max_bond']}, cutoff=0.0)"
                runs += 1
                try:
                    with warnings.catch_warnings():
                        warnings.simplefilter("ignore")
                        L, s, Rt = D.array_split(x.copy(), method=M, absorb=A, **opts)
                except (ValueError, NotImplementedError):
                    rejected += 1  # combination rejected (by the parser, or by the driver: lu): no factor, claim vacuous
                    continue
                except Exception as e:  # noqa
                    errors.append(f"{call}: {type(e).__name__}: {str(e)[:120]}")
                    continue
                tol = _LOOSE.get(M, 1e-8)
                for flag, F, which in ((li, L, "left"), (ri, Rt, "right")):
                    if not flag or F is None:
                        continue
                    dfc = _iso_defect(F)
                    worst = max(worst, dfc)
                    if not (dfc <= tol) and bad is None:
                        bad = dict(replay=dict(kind="isometry", method=M, absorb=repr(A), input=lab, max_bond=opts["max_bond"],
                                               which=which, tol=tol),
                                   call=call, flagged=which, observed=f"isometry defect {dfc:.3g} of the {which} factor "
                                   f"(shape {np.asarray(F).shape})", expected=f"<= {tol:g}",
                                   flags=dict(left_isom=bool(li), right_isom=bool(ri)))
            label = f"isometry[method={M},absorb={_lab(A)}]"
            if bad:
                out.append(_ob("parse_split_left_right_isom", label, "failed", t0, model=bad))
            elif errors and rejected + len(errors) == len(inputs):
                out.append(_ob("parse_split_left_right_isom", label, "unknown", t0, detail="; ".join(errors[:2])))
            else:
                out.append(_ob("parse_split_left_right_isom", label, "discharged", t0,
                               detail=f"worst defect {worst:.2g}; rejected by the driver on {rejected}/{len(inputs)} inputs"
                               + (f"; errors: {errors[:1]}" if errors else "")))
    _clear_caches(D)
    return runs


_EQ_CLASSES = [[True, 1, 1.0], [False, 0, 0.0], [2, 2.0], [-1, -1.0], [3, 3.0], [4, 4.0], [5, 5.0], [6, 6.0], [10, 10.0],
               [11, 11.0], [12, 12.0], [-10, -10.0], [-11, -11.0], [-12, -12.0]]


def _key_equal_variants(v):
    for cl in _EQ_CLASSES:
        for w in cl:
            if type(w) is type(v) and w == v:
                return [u for u in cl if type(u) is not type(v)]
    return []


def _fdx_memo(D, out):
    import itertools
    import warnings

    grids = {
        "parse_method_absorb": dict(
            method=["auto", "svd", "qr", "lq", "eigh", "polar_right", "cholesky"],
            absorb=["auto", None, "both", "left", 0, 1, -1, 2, 10, 11, 12, -10, -11, -12],
            truncation=[True, False, 0, 1]),
        "parse_split_opts": dict(
            method=["auto", "svd", "qr", "eigh", "svds"],
            absorb=["auto", None, "left", 0, 1, -1],
            max_bond=[None, 1, 2, -1],
            cutoff=[0.0, 1e-10, 0, 1, 1.0, None],
            cutoff_mode=["rsum2", "sum1", "rel", 1, 3, 4],
            renorm=[None, 0, 1, 2, True, False, 3]),
        "parse_split_left_right_isom": dict(
            method=["auto", "svd", "qr", "lq", "eigh", "polar_right", "cholesky"],
            absorb=["auto", None, "both", "left", "right", 0, 1, -1, 2, 10, 11, -11]),
    }
    ncalls = 0
    for fname, grid in grids.items():
        f = getattr(D, fname).__wrapped__
        names = list(grid)
        memo = {}

        def run(args):
            k = tuple((type(a).__name__, a) for a in args)
            if k not in memo:
                _clear_caches(D)  # the inner (cached) parser must not carry history either
                try:
                    with warnings.catch_warnings():
                        warnings.simplefilter("ignore")
                        memo[k] = ("ok", f(*args))
                except Exception as e:  # noqa
                    memo[k] = ("raise", type(e).__name__)
            return memo[k]

        # the decorator actually in force is read from the function on every run: functools.cache /
        # lru_cache(typed=False) identify arguments that are == and hash-equal whatever their type; typed=True makes the
        # argument types part of the key.  Whether two argument tuples are identified is decided by the REAL cache:
        # after f(args) on an empty cache, f(args2) is a hit iff the miss counter does not move.
        cached = getattr(D, fname)
        params = cached.cache_parameters() if hasattr(cached, "cache_parameters") else {"typed": False}
        bad = {p: None for p in names}
        identified = {p: 0 for p in names}
        t0 = time.time()
        for args in itertools.product(*[grid[p] for p in names]):
            for i, p in enumerate(names):
                for w in _key_equal_variants(args[i]):
                    args2 = args[:i] + (w,) + args[i + 1:]
                    assert args2 == args and hash(args2) == hash(args)
                    ncalls += 1
                    r1, r2 = run(args), run(args2)
                    if r1 == r2:
                        continue  # equal results: identifying the two keys is harmless
                    if r1[0] != "ok":
                        continue  # the first call raises: nothing is stored
                    _clear_caches(D)
                    with warnings.catch_warnings():
                        warnings.simplefilter("ignore")
                        cached(*args)
                        m0 = cached.cache_info().misses
                        try:
                            c2 = ("ok", cached(*args2))
                        except Exception as e:  # noqa
                            c2 = ("raise", type(e).__name__)
                        hit = cached.cache_info().misses == m0
                    if hit:
                        identified[p] += 1
                    if (hit or c2 != r2) and bad[p] is None:
                        bad[p] = dict(replay=dict(kind="memo", fname=fname, args=repr(args), args2=repr(args2)),
                                      call=f"{fname}{args!r} then {fname}{args2!r}   (cache_parameters: {params})",
                                      observed=f"uncached results {r1!r} != {r2!r}, but the cache identifies the two argument "
                                               f"tuples: the second call returns {c2!r}",
                                      expected="key-equal argument tuples have equal uncached results (otherwise the cached "
                                               "result depends on call history)")
        for p in names:
            o = _ob(fname, f"memo-key[param={p}]", "failed" if bad[p] else "discharged", t0, model=bad[p])
            o.detail = f"cache_parameters={params}"
            out.append(o)
    _clear_caches(D)
    return ncalls


def _fdx_tables(D, out):
    import numpy as np
    rng = np.random.default_rng(3)
    U, _ = np.linalg.qr(rng.normal(size=(5, 3)))
    V, _ = np.linalg.qr(rng.normal(size=(4, 3)))
    VH = V.T
    s = np.array([3.0, 2.0, 0.5])
    codes = sorted(set(D._ABSORB_MAP.values()), key=lambda c: (c is None, c))
    for c in codes:
        t0 = time.time()
        L, sv, Rt = D._do_absorb(U, s, VH, c)
        bad = None
        if (L is not None) != (c in D._RETURNS_LEFT_ABSORBS) or (Rt is not None) != (c in D._RETURNS_RIGHT_ABSORBS):
            bad = dict(call=f"_do_absorb(U, s, VH, {c!r})", observed=f"left returned: {L is not None}, right returned: {Rt is not None}",
                       expected=f"left iff code in _RETURNS_LEFT_ABSORBS ({c in D._RETURNS_LEFT_ABSORBS}), right iff in "
                                f"_RETURNS_RIGHT_ABSORBS ({c in D._RETURNS_RIGHT_ABSORBS})")
        out.append(_ob("_do_absorb", f"returns-table[absorb={c!r}]", "failed" if bad else "discharged", t0, model=bad))
        # transposed problem: x^T = VH^T diag(s) U^T; the form of the transposed problem, transposed back, is the form itself
        t0 = time.time()
        ct = D._ABSORB_TRANSPOSE_MAP[c]
        Lt, st, Rtt = D._do_absorb(VH.T, s, U.T, ct)
        same = all((p is None and q is None) or (p is not None and q is not None and np.allclose(p, q))
                   for p, q in ((L, None if Rtt is None else Rtt.T), (Rt, None if Lt is None else Lt.T), (sv, st)))
        out.append(_ob("_do_absorb", f"transpose-table[absorb={c!r}]", "discharged" if same else "failed", t0,
                       model=None if same else dict(call=f"_ABSORB_TRANSPOSE_MAP[{c!r}] = {ct!r}",
                                                    observed="the transposed form of the transposed problem differs")))
    # numba twin agrees with the generic one on the whole table
    f = getattr(D._do_absorb_numba, "py_func", D._do_absorb_numba)
    for c in codes:
        t0 = time.time()
        g, h = D._do_absorb(U, s, VH, c), f(U, s, VH, c)
        same = all((p is None and q is None) or (p is not None and q is not None and np.allclose(p, q)) for p, q in zip(g, h))
        out.append(_ob("_do_absorb_numba", f"agrees-with-generic[absorb={c!r}]", "discharged" if same else "failed", t0,
                       model=None if same else dict(call=f"_do_absorb_numba.py_func(U, s, VH, {c!r})", observed="differs from _do_absorb")))


def provider_on(D, isometry_methods=None):
    """all fdx obligations evaluated on the module object D (quimb.tensor.decomp, or a mutated copy at selftest)"""
    out = []
    _clear_caches(D)
    _fdx_total(D, out)
    _fdx_memo(D, out)
    _fdx_tables(D, out)
    _fdx_isometry(D, out, isometry_methods)
    _clear_caches(D)
    return out


def provider(tier="quick"):
    """fdx provider of C05: finite-domain exhaustive execution of the real option parsers"""
    import quimb.tensor.decomp as D
    return provider_on(D)


def _replay_fdx(model):
    """native replay of a failed provider obligation: re-execute the recorded call on the real functions"""
    import warnings
    import quimb.tensor.decomp as D
    r = (model or {}).get("replay") or {}
    with warnings.catch_warnings():
        warnings.simplefilter("ignore")
        if r.get("kind") == "memo":
            f = getattr(D, r["fname"])
            a1, a2 = eval(r["args"]), eval(r["args2"])  # literals written by the provider itself
            _clear_caches(D)
            u1 = f.__wrapped__(*a1)
            _clear_caches(D)
            u2 = f.__wrapped__(*a2)
            # and the observable consequence through the cached entry point: the second call inherits the first result
            _clear_caches(D)
            c1 = f(*a1)
            c2 = f(*a2)
            _clear_caches(D)
            return dict(call=f"{r['fname']}{a1!r} then {r['fname']}{a2!r} (keys equal: {a1 == a2 and hash(a1) == hash(a2)})",
                        observed=dict(uncached_first=repr(u1), uncached_second=repr(u2), cached_second_after_first=repr(c2)),
                        reproduced=bool(u1 != u2 and c2 == c1 and c2 != u2))
        if r.get("kind") == "isometry":
            M, A = r["method"], eval(r["absorb"])
            x = dict(_isometry_inputs(D.parse_method(M) if M != "eig" else "svd:eig"))[r["input"]]
            _clear_caches(D)
            li, ri = D.parse_split_left_right_isom(M, A)
            L, s_, Rt = D.array_split(x.copy(), method=M, absorb=A, max_bond=r["max_bond"], cutoff=0.0)
            F = L if r["which"] == "left" else Rt
            dfc = _iso_defect(F)
            _clear_caches(D)
            return dict(call=f"parse_split_left_right_isom({M!r}, {A!r}) -> {(li, ri)}; array_split(<{r['input']}>, method={M!r}, "
                             f"absorb={A!r}, max_bond={r['max_bond']}, cutoff=0.0)",
                        observed=f"{r['which']} factor flagged isometric has isometry defect {dfc:.3g}",
                        reproduced=bool((li if r["which"] == "left" else ri) and dfc > r["tol"]))
    return dict(call="?", observed="no replay information in the model", reproduced=False)


class _ReplayOnly(Contract):
    """registry entries for the functions decided by the fdx provider: they only carry the native replay of a failed
    provider obligation (these functions have no E1 obligations: they are executed, not symbolically evaluated)"""
    property_ids = ("C05",)

    def inputs(self, cx, case):
        raise Unsupported("decided by the fdx provider (executed on its finite domain), not by symbolic execution")

    def replay(self, model):
        return _replay_fdx(model)


for _fn in ("parse_method_absorb", "parse_split_opts", "parse_split_left_right_isom"):
    _stub = _ReplayOnly()
    _stub.target = _F + _fn
    P.REGISTRY[_stub.target] = _stub
