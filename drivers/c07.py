"""C07 bounded stand-in: every circuit simulator against an own dense simulator, with interleaved queries.

Reference semantics (shares no code with quimb): a numpy state tensor of shape (2,)*N, qubit 0 on the first axis;
a gate is a matrix from an own table of textbook definitions (rows = output), applied with tensordot; controls are
expanded to the block matrix diag(1, ..., 1, U).
"""

import re

import numpy as np

from vf.rtc import driver

# ------------------------------------------------------------------------------------------------
# own gate table
# ------------------------------------------------------------------------------------------------

_I = np.eye(2, dtype=complex)
_X = np.array([[0, 1], [1, 0]], dtype=complex)
_Y = np.array([[0, -1j], [1j, 0]], dtype=complex)
_Z = np.diag([1.0 + 0j, -1.0])
_H = np.array([[1, 1], [1, -1]], dtype=complex) / np.sqrt(2)


def _kron(*ms):
    out = np.eye(1, dtype=complex)
    for m in ms:
        out = np.kron(out, m)
    return out


def _expi(Hm, t):
    """exp(-i t Hm) for Hermitian Hm"""
    w, v = np.linalg.eigh(Hm)
    return (v * np.exp(-1j * t * w)) @ v.conj().T


def _ctrl(U, n=1):
    U = np.asarray(U, dtype=complex)
    D = U.shape[0]
    out = np.eye(D * 2 ** n, dtype=complex)
    out[-D:, -D:] = U
    return out


def _u3(t, p, l):
    return np.array([[np.cos(t / 2), -np.exp(1j * l) * np.sin(t / 2)],
                     [np.exp(1j * p) * np.sin(t / 2), np.exp(1j * (p + l)) * np.cos(t / 2)]], dtype=complex)


def _u1(l):
    return np.diag([1.0 + 0j, np.exp(1j * l)])


def _rx(t):
    return _expi(_X, t / 2)


def _ry(t):
    return _expi(_Y, t / 2)


def _rz(t):
    return _expi(_Z, t / 2)


_SWAP = np.array([[1, 0, 0, 0], [0, 0, 1, 0], [0, 1, 0, 0], [0, 0, 0, 1]], dtype=complex)
_ISWAP = np.array([[1, 0, 0, 0], [0, 0, 1j, 0], [0, 1j, 0, 0], [0, 0, 0, 1]], dtype=complex)
_SX = np.array([[1 + 1j, 1 - 1j], [1 - 1j, 1 + 1j]]) / 2


def _fsim(t, p):
    return np.array([[1, 0, 0, 0], [0, np.cos(t), -1j * np.sin(t), 0], [0, -1j * np.sin(t), np.cos(t), 0],
                     [0, 0, 0, np.exp(-1j * p)]], dtype=complex)


def _fsimg(t, z, c, g, p):
    return np.array([[1, 0, 0, 0],
                     [0, np.exp(-1j * (g + z)) * np.cos(t), -1j * np.exp(-1j * (g - c)) * np.sin(t), 0],
                     [0, -1j * np.exp(-1j * (g + c)) * np.sin(t), np.exp(-1j * (g - z)) * np.cos(t), 0],
                     [0, 0, 0, np.exp(-1j * (2 * g + p))]], dtype=complex)


def _givens(t):
    return np.array([[1, 0, 0, 0], [0, np.cos(t), -np.sin(t), 0], [0, np.sin(t), np.cos(t), 0], [0, 0, 0, 1]], dtype=complex)


# label -> (number of qubits, number of parameters, matrix function or None when only weak facts are asserted)
TABLE = {
    "H": (1, 0, lambda: _H), "X": (1, 0, lambda: _X), "Y": (1, 0, lambda: _Y), "Z": (1, 0, lambda: _Z),
    "S": (1, 0, lambda: np.diag([1, 1j])), "SDG": (1, 0, lambda: np.diag([1, -1j])),
    "T": (1, 0, lambda: np.diag([1, np.exp(1j * np.pi / 4)])), "TDG": (1, 0, lambda: np.diag([1, np.exp(-1j * np.pi / 4)])),
    "SX": (1, 0, lambda: _SX), "SXDG": (1, 0, lambda: _SX.conj().T),
    "IDEN": (1, 0, lambda: _I),
    # square roots named after the qsim gate set: asserted weakly (unitary, squares to the target up to a phase)
    "X_1_2": (1, 0, None), "Y_1_2": (1, 0, None), "Z_1_2": (1, 0, None), "W_1_2": (1, 0, None), "HZ_1_2": (1, 0, None),
    "CX": (2, 0, lambda: _ctrl(_X)), "CNOT": (2, 0, lambda: _ctrl(_X)), "CY": (2, 0, lambda: _ctrl(_Y)),
    "CZ": (2, 0, lambda: _ctrl(_Z)), "ISWAP": (2, 0, lambda: _ISWAP), "IS": (2, 0, lambda: _ISWAP),
    "SWAP": (2, 0, lambda: _SWAP),
    "CCX": (3, 0, lambda: _ctrl(_X, 2)), "CCNOT": (3, 0, lambda: _ctrl(_X, 2)), "TOFFOLI": (3, 0, lambda: _ctrl(_X, 2)),
    "CCY": (3, 0, lambda: _ctrl(_Y, 2)), "CCZ": (3, 0, lambda: _ctrl(_Z, 2)),
    "CSWAP": (3, 0, lambda: _ctrl(_SWAP)), "FREDKIN": (3, 0, lambda: _ctrl(_SWAP)),
    "RX": (1, 1, _rx), "RY": (1, 1, _ry), "RZ": (1, 1, _rz),
    "U3": (1, 3, _u3), "U2": (1, 2, lambda p, l: _u3(np.pi / 2, p, l)), "U1": (1, 1, _u1), "PHASE": (1, 1, _u1),
    "CU3": (2, 3, lambda t, p, l: _ctrl(_u3(t, p, l))), "CU2": (2, 2, lambda p, l: _ctrl(_u3(np.pi / 2, p, l))),
    "CU1": (2, 1, lambda l: _ctrl(_u1(l))), "CPHASE": (2, 1, lambda l: _ctrl(_u1(l))),
    "CRX": (2, 1, lambda t: _ctrl(_rx(t))), "CRY": (2, 1, lambda t: _ctrl(_ry(t))), "CRZ": (2, 1, lambda t: _ctrl(_rz(t))),
    "FSIM": (2, 2, _fsim), "FS": (2, 2, _fsim), "FSIMG": (2, 5, _fsimg), "GIVENS": (2, 1, _givens),
    "RXX": (2, 1, lambda t: _expi(_kron(_X, _X), t / 2)), "RYY": (2, 1, lambda t: _expi(_kron(_Y, _Y), t / 2)),
    "RZZ": (2, 1, lambda t: _expi(_kron(_Z, _Z), t / 2)),
    # conventions differ between libraries for the phase argument: asserted weakly
    "GIVENS2": (2, 2, None), "XXPLUSYY": (2, 2, None), "XXMINUSYY": (2, 2, None),
    "SU4": (2, 15, None),
}

_SQRT_OF = {"X_1_2": _X, "Y_1_2": _Y, "Z_1_2": _Z, "W_1_2": (_X + _Y) / np.sqrt(2), "HZ_1_2": (_X + _Y) / np.sqrt(2)}


def _prop_to(A, B, tol=1e-10):
    """A = phase * B with |phase| = 1"""
    k = np.argmax(np.abs(B))
    ph = A.ravel()[k] / B.ravel()[k]
    return abs(abs(ph) - 1) < tol and np.abs(A - ph * B).max() < tol


def weak_facts(label, params, U):
    """facts asserted for gates whose full matrix is not in the table"""
    if label in _SQRT_OF:
        return None if _prop_to(U @ U, _SQRT_OF[label]) else f"{label} squared is not the target gate up to a phase"
    if label in ("XXPLUSYY", "XXMINUSYY"):
        t, b = params
        sgn = 1 if label == "XXPLUSYY" else -1
        core = _expi(_kron(_X, _X) + sgn * _kron(_Y, _Y), t / 4)
        for q in (0, 1):
            for s in (1, -1):
                D = _kron(_rz(s * b), _I) if q == 0 else _kron(_I, _rz(s * b))
                if np.abs(D.conj().T @ core @ D - U).max() < 1e-10:
                    return None
        return f"{label} is not exp(-i theta/4 (XX{'+' if sgn > 0 else '-'}YY)) conjugated by a Z rotation by beta on one qubit"
    if label == "GIVENS2":
        t, p = params
        core = _givens(t)
        for q in (0, 1):
            for s in (1, -1):
                D = _kron(_u1(s * p), _I) if q == 0 else _kron(_I, _u1(s * p))
                if np.abs(D.conj().T @ core @ D - U).max() < 1e-10:
                    return None
        return "GIVENS2 is not GIVENS(theta) conjugated by a phase gate on one qubit"
    return None


def table_matrix(label, params):
    nq, npar, fn = TABLE[label]
    if fn is None:
        return None
    return np.asarray(fn(*params), dtype=complex)


def rand_unitary(rng, D):
    Xm = rng.normal(size=(D, D)) + 1j * rng.normal(size=(D, D))
    Q, R = np.linalg.qr(Xm)
    return Q * (np.diag(R) / np.abs(np.diag(R)))


# ------------------------------------------------------------------------------------------------
# dense reference simulator
# ------------------------------------------------------------------------------------------------


def apply_dense(state, U, qubits, controls=()):
    """state: (2,)*N (+ optional trailing batch axis)"""
    qubits, controls = list(qubits), list(controls)
    if controls:
        U = _ctrl(U, len(controls))
        qubits = controls + qubits
    n = len(qubits)
    G = np.asarray(U, dtype=complex).reshape((2,) * (2 * n))
    out = np.tensordot(G, state, (list(range(n, 2 * n)), qubits))
    return np.moveaxis(out, list(range(n)), qubits)


def rdm(ref, where):
    where = list(where)
    rest = [k for k in range(ref.ndim) if k not in where]
    M = np.transpose(ref, where + rest).reshape(2 ** len(where), -1)
    return M @ M.conj().T


def marginal(prob, where, fix):
    """joint probability tensor over `where` (that order) with the qubits in `fix` fixed, the rest summed"""
    N = prob.ndim
    idx = [slice(None)] * N
    for q, b in fix.items():
        idx[q] = int(b)
    sub = prob[tuple(idx)]
    rem = [q for q in range(N) if q not in fix]
    axes_sum = tuple(k for k, q in enumerate(rem) if q not in where)
    sub = sub.sum(axis=axes_sum) if axes_sum else sub
    left = [q for q in rem if q in where]
    return np.transpose(sub, [left.index(q) for q in where])


def cdf_consistent(u, p, x, tol):
    p = np.asarray(p, dtype=float).ravel()
    c = np.cumsum(p) / p.sum()
    lo = c[x - 1] if x > 0 else 0.0
    return lo - tol <= u <= c[x] + tol


def close(a, b, atol, what):
    a, b = np.asarray(a), np.asarray(b)
    if a.shape != b.shape:
        return f"{what}: shape {a.shape} != reference {b.shape}"
    if a.size and not np.all(np.isfinite(a)):
        return f"{what}: non-finite"
    if a.size:
        d = float(np.abs(a - b).max())
        if d > atol:
            return f"{what}: max abs diff {d:.3e} (tol {atol:.0e})"
    return None


def _numpy_choice_assumption():
    g = np.random.default_rng(12345)
    for s in range(40):
        p = g.random(int(g.integers(2, 9)))
        p /= p.sum()
        a = np.random.default_rng(s).choice(len(p), p=p)
        u = np.random.default_rng(s).random()
        c = np.cumsum(p)
        c /= c[-1]
        if a != np.searchsorted(c, u, side="right"):
            return False
    return True


# ------------------------------------------------------------------------------------------------
# driver 1: the registered vocabulary
# ------------------------------------------------------------------------------------------------


@driver("C07", "gate-vocabulary", chunks=1, timeout=100,
        bound="every label registered in quimb.tensor.circuit.gates (constant, parametrized, special, aliases) x parameter "
              "draws (special angles 0, +-pi/2, +-pi, 2pi, 4pi, 50.0 and uniform in [-7,7]; 12 draws quick / 80 thorough): "
              "Gate(label, params).array is unitary to 1e-12 and equals the own textbook table (weak facts for the qsim "
              "square roots, GIVENS2, XXPLUSYY, XXMINUSYY; unitarity only for SU4); Gate.build_mpo with 0..2 controls "
              "equals the controlled matrix")
def vocabulary(cx):
    import warnings

    import quimb.tensor as qtn
    from quimb.tensor.circuit import gates as qg

    warnings.filterwarnings("ignore")
    rng = cx.rng
    labels = sorted(qg.ALL_GATES)
    cx.check("registered gate vocabulary is covered by the reference table", dict(labels=len(labels)),
             lambda: None if set(labels) <= set(TABLE) else f"labels without reference entry: {sorted(set(labels) - set(TABLE))}")
    specials = [0.0, np.pi / 2, -np.pi / 2, np.pi, -np.pi, 2 * np.pi, 4 * np.pi, 50.0]
    ndraw = 12 if cx.quick else 80
    for label in labels:
        if label not in TABLE:
            continue
        nq, npar, fn = TABLE[label]
        for k in range(ndraw if npar else 1):
            if npar and k < 3:
                params = [float(rng.choice(specials)) for _ in range(npar)]
            else:
                params = [float(x) for x in rng.uniform(-7, 7, size=npar)]
            p = dict(label=label, draw=k)
            qubits = list(range(nq))

            def arr(label=label, params=params, qubits=qubits):
                g = qtn.Gate(label, params, qubits=qubits)
                U = np.asarray(g.array, dtype=complex)
                return U.reshape(2 ** len(qubits), 2 ** len(qubits))

            def t_unitary():
                U = arr()
                if U.shape != (2 ** nq, 2 ** nq):
                    return f"shape {U.shape}"
                d = np.abs(U.conj().T @ U - np.eye(2 ** nq)).max()
                return None if d < 1e-12 else f"unitarity defect {d:.2e} at params {params}"

            cx.check("Gate.array is unitary", p, t_unitary)

            def t_table(label=label, params=params):
                U = arr()
                M = table_matrix(label, params)
                if M is None:
                    return weak_facts(label, params, U)
                return close(U, M, 1e-12, f"{label}{tuple(params)} vs textbook matrix")

            cx.check("Gate.array equals the textbook definition", p, t_table, nontrivial=label != "SU4")
            if nq > 2 or k >= 4:
                continue
            # sub-operator of the (multi-)controlled gate
            nctrl = int(rng.integers(0, 3))
            L = nq + nctrl + int(rng.integers(0, 2))
            sites = [int(x) for x in rng.choice(L, size=nq + nctrl, replace=False)]
            tq, cq = sites[:nq], sites[nq:]

            def t_mpo(label=label, params=params, tq=tq, cq=cq, L=L):
                g = qtn.Gate(label, params, qubits=tq, controls=cq if cq else None)
                mpo = g.build_mpo(L)
                U = arr()
                support = sorted(tq + cq)
                # dense of the MPO on its support, through the reference: apply to basis states
                D = 2 ** len(support)
                got = np.asarray(mpo.to_dense(), dtype=complex)
                if got.shape != (D, D):
                    return f"dense shape {got.shape} != {(D, D)} for support {support}"
                basis = np.eye(D, dtype=complex).reshape((2,) * len(support) + (D,))
                want = apply_dense(basis, U, [support.index(q) for q in tq], [support.index(q) for q in cq]).reshape(D, D)
                return close(got, want, 1e-10, "sub-MPO of the gate")

            cx.check("Gate.build_mpo equals the (controlled) gate matrix on its support", dict(p, targets=str(tq), controls=str(cq)),
                     t_mpo, allow_reject=label in ("SWAP", "IDEN"))


# ------------------------------------------------------------------------------------------------
# driver 2: random programs with interleaved queries
# ------------------------------------------------------------------------------------------------

_SPARSE_LABELS = ["X", "CX", "CNOT", "CCX", "SWAP", "CSWAP", "IDEN", "Z", "CZ", "Y", "TOFFOLI", "FREDKIN", "H", "S", "T", "ISWAP"]


def _fmt(w):
    return "-".join(map(str, w)) if isinstance(w, (tuple, list)) else str(w)


def _hist_from_key(key):
    m = re.search(r'"prog": (\d+)', key or "")
    return int(m.group(1)) if m else None


class Prog:
    """one simulator instance + the reference"""

    def __init__(self, qtn, rng, pid, quick):
        self.qtn, self.rng, self.pid = qtn, rng, pid
        kinds = ["Circuit"] * 5 + ["CircuitDense"] * 2 + ["CircuitMPS"] * 4 + ["CircuitPermMPS"] * 2 + ["CircuitMPSLazy"] * 2 + \
            ["PEPS", "PEPO"]
        self.kind = str(rng.choice(kinds))
        self.N = N = int(rng.integers(1, 7)) if self.kind in ("Circuit", "CircuitDense", "CircuitMPS") else int(rng.integers(2, 7))
        self.style = str(rng.choice(["generic", "generic", "sparse"]))
        self.opts = {}
        self.tight = True
        self.edges = None
        psi0 = None
        self.ref = np.zeros((2,) * N, dtype=complex)
        self.ref[(0,) * N] = 1.0
        self.has_psi0 = False
        if self.kind not in ("PEPS", "PEPO") and N >= 2 and rng.integers(0, 5) == 0:
            chi = int(rng.integers(1, 3))
            arrs = []
            for i in range(N):
                shp = ([chi] if i > 0 else []) + ([chi] if i < N - 1 else []) + [2]
                arrs.append(rng.normal(size=shp) + 1j * rng.normal(size=shp))
            d = arrs[0]
            for a in arrs[1:]:
                d = np.tensordot(d, a, ([-2 if d.ndim > 1 and a.ndim == 3 else -2], [0])) if False else _chain(d, a)
            nrm = np.linalg.norm(d)
            arrs[0] = arrs[0] / nrm
            self.ref = (d / nrm).astype(complex)
            psi0 = qtn.MatrixProductState(arrs)
            self.has_psi0 = True
        kw = {}
        if psi0 is not None:
            kw["psi0"] = psi0
        if self.kind == "Circuit":
            gc = str(rng.choice(["default", "default", "auto-split-gate", "split-gate", "swap-split-gate", "False", "True"]))
            if gc != "default":
                kw["gate_contract"] = {"False": False, "True": True}.get(gc, gc)
            self.opts["gate_contract"] = gc
            self.circ = qtn.Circuit(N, **kw)
        elif self.kind == "CircuitDense":
            self.circ = qtn.CircuitDense(N, **kw)
        elif self.kind == "CircuitMPS":
            gc = str(rng.choice(["auto-mps", "auto-mps", "swap+split", "nonlocal"]))
            kw["gate_contract"] = gc
            self.opts["gate_contract"] = gc
            if rng.integers(0, 2):
                kw["cutoff"] = 0.0
                self.opts["cutoff"] = 0.0
            else:
                self.tight = False
            if rng.integers(0, 6) == 0:
                kw["convert_eager"] = False
                self.opts["convert_eager"] = False
            self.circ = qtn.CircuitMPS(N, **kw)
        elif self.kind == "CircuitPermMPS":
            if rng.integers(0, 2):
                kw["cutoff"] = 0.0
                self.opts["cutoff"] = 0.0
            else:
                self.tight = False
            self.circ = qtn.CircuitPermMPS(N, **kw)
        elif self.kind == "CircuitMPSLazy":
            kw["method"] = str(rng.choice(["dm", "direct", "zipup"]))
            kw["compress_every"] = int(rng.integers(1, 4))
            if rng.integers(0, 2):
                kw["cutoff"] = 0.0
                self.opts["cutoff"] = 0.0
            else:
                self.tight = False
            if kw["method"] == "dm":
                self.tight = False
            self.opts.update(method=kw["method"], compress_every=kw["compress_every"])
            self.circ = qtn.CircuitMPSLazy(N, **kw)
        else:
            # small lattices: line, ring, 2x2 / 2x3 grid, star
            shapes = {2: [[(0, 1)]], 3: [[(0, 1), (1, 2)], [(0, 1), (1, 2), (0, 2)]],
                      4: [[(0, 1), (1, 3), (3, 2), (2, 0)], [(0, 1), (0, 2), (0, 3)], [(0, 1), (1, 2), (2, 3)]],
                      5: [[(0, 1), (1, 2), (2, 3), (3, 4)], [(0, 1), (0, 2), (0, 3), (0, 4)], [(0, 1), (1, 2), (2, 3), (3, 4), (4, 0)]],
                      6: [[(0, 1), (1, 2), (3, 4), (4, 5), (0, 3), (1, 4), (2, 5)], [(0, 1), (1, 2), (2, 3), (3, 4), (4, 5)]]}
            self.edges = shapes[N][int(rng.integers(0, len(shapes[N])))]
            self.tight = False
            cls = qtn.CircuitPEPSSimpleUpdate if self.kind == "PEPS" else qtn.CircuitPEPOSimpleUpdate
            self.circ = cls(edges=self.edges, cutoff=0.0) if rng.integers(0, 2) else cls(edges=self.edges)
        self.U = None
        if not self.has_psi0 and N <= 4 and self.kind == "Circuit":
            self.U = np.eye(2 ** N, dtype=complex).reshape((2,) * N + (2 ** N,))
        self.glist = []  # recorded gates: (U matrix, qubits, controls, label, params, parametrized)
        self.psi0_ref = self.ref.copy()
        self.flags = dict(copied_since_gate=False, mps_record_risk="none", rejected=False)
        self.n2q = 0

    # -- tolerances
    def tol(self, single=False):
        if single:
            return 2e-4
        if self.tight:
            return 1e-8
        return 1e-4  # documented default cutoff 1e-10 on the discarded weight: up to 1e-5 per split

    def recompute(self):
        ref = self.psi0_ref.copy()
        U = None if self.U is None else np.eye(2 ** self.N, dtype=complex).reshape((2,) * self.N + (2 ** self.N,))
        for (M, qs, cs, _, _, _) in self.glist:
            ref = apply_dense(ref, M, qs, cs)
            if U is not None:
                U = apply_dense(U, M, qs, cs)
        self.ref, self.U = ref, U


def _chain(d, a):
    """contract the last-but-one axis structure of an MPS chain: d (..., r, p) with a (l, r, p) or (l, p)"""
    # d has axes (p0, ..., p_{k-1}, r) after normalising the order below
    if d.ndim == 2 and not hasattr(_chain, "_started"):
        pass
    return _chain_impl(d, a)


def _chain_impl(d, a):
    # convention: arrays are given as (r, p) first, (l, r, p) middle, (l, p) last; keep d as (phys..., bond)
    if not isinstance(d, tuple):
        d = ("raw", d)
    tag, arr = d
    if tag == "raw":
        arr = np.moveaxis(arr, 0, -1)  # (r, p) -> (p, r)
    if a.ndim == 3:
        out = np.tensordot(arr, a, ([-1], [0]))  # (..., r, p)
        out = np.moveaxis(out, -2, -1)  # (..., p, r)
        return ("acc", out)
    out = np.tensordot(arr, a, ([-1], [0]))  # (..., p)
    return out
