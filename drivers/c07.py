"""C07 bounded stand-in: every circuit simulator against an own dense simulator, with interleaved queries.

Reference semantics (shares no code with quimb): a numpy state tensor of shape (2,)*N, qubit 0 on the first axis;
a gate is a matrix from an own table of textbook definitions (rows = output), applied with tensordot; controls are
expanded to the block matrix diag(1, ..., 1, U).
"""

import re

import numpy as np

from vf.rtc import driver

# ------------------------------------------------------------------------------------------------
# own gate table
# ------------------------------------------------------------------------------------------------

_I = np.eye(2, dtype=complex)
_X = np.array([[0, 1], [1, 0]], dtype=complex)
_Y = np.array([[0, -1j], [1j, 0]], dtype=complex)
_Z = np.diag([1.0 + 0j, -1.0])
_H = np.array([[1, 1], [1, -1]], dtype=complex) / np.sqrt(2)


def _kron(*ms):
    out = np.eye(1, dtype=complex)
    for m in ms:
        out = np.kron(out, m)
    return out


def _expi(Hm, t):
    """exp(-i t Hm) for Hermitian Hm"""
    w, v = np.linalg.eigh(Hm)
    return (v * np.exp(-1j * t * w)) @ v.conj().T


def _ctrl(U, n=1):
    U = np.asarray(U, dtype=complex)
    D = U.shape[0]
    out = np.eye(D * 2 ** n, dtype=complex)
    out[-D:, -D:] = U
    return out


def _u3(t, p, l):
    return np.array([[np.cos(t / 2), -np.exp(1j * l) * np.sin(t / 2)],
                     [np.exp(1j * p) * np.sin(t / 2), np.exp(1j * (p + l)) * np.cos(t / 2)]], dtype=complex)


def _u1(l):
    return np.diag([1.0 + 0j, np.exp(1j * l)])


def _rx(t):
    return _expi(_X, t / 2)


def _ry(t):
    return _expi(_Y, t / 2)


def _rz(t):
    return _expi(_Z, t / 2)


_SWAP = np.array([[1, 0, 0, 0], [0, 0, 1, 0], [0, 1, 0, 0], [0, 0, 0, 1]], dtype=complex)
_ISWAP = np.array([[1, 0, 0, 0], [0, 0, 1j, 0], [0, 1j, 0, 0], [0, 0, 0, 1]], dtype=complex)
_SX = np.array([[1 + 1j, 1 - 1j], [1 - 1j, 1 + 1j]]) / 2


def _fsim(t, p):
    return np.array([[1, 0, 0, 0], [0, np.cos(t), -1j * np.sin(t), 0], [0, -1j * np.sin(t), np.cos(t), 0],
                     [0, 0, 0, np.exp(-1j * p)]], dtype=complex)


def _fsimg(t, z, c, g, p):
    return np.array([[1, 0, 0, 0],
                     [0, np.exp(-1j * (g + z)) * np.cos(t), -1j * np.exp(-1j * (g - c)) * np.sin(t), 0],
                     [0, -1j * np.exp(-1j * (g + c)) * np.sin(t), np.exp(-1j * (g - z)) * np.cos(t), 0],
                     [0, 0, 0, np.exp(-1j * (2 * g + p))]], dtype=complex)


def _givens(t):
    return np.array([[1, 0, 0, 0], [0, np.cos(t), -np.sin(t), 0], [0, np.sin(t), np.cos(t), 0], [0, 0, 0, 1]], dtype=complex)


# label -> (number of qubits, number of parameters, matrix function or None when only weak facts are asserted)
TABLE = {
    "H": (1, 0, lambda: _H), "X": (1, 0, lambda: _X), "Y": (1, 0, lambda: _Y), "Z": (1, 0, lambda: _Z),
    "S": (1, 0, lambda: np.diag([1, 1j])), "SDG": (1, 0, lambda: np.diag([1, -1j])),
    "T": (1, 0, lambda: np.diag([1, np.exp(1j * np.pi / 4)])), "TDG": (1, 0, lambda: np.diag([1, np.exp(-1j * np.pi / 4)])),
    "SX": (1, 0, lambda: _SX), "SXDG": (1, 0, lambda: _SX.conj().T),
    "IDEN": (1, 0, lambda: _I),
    # square roots named after the qsim gate set: asserted weakly (unitary, squares to the target up to a phase)
    "X_1_2": (1, 0, None), "Y_1_2": (1, 0, None), "Z_1_2": (1, 0, None), "W_1_2": (1, 0, None), "HZ_1_2": (1, 0, None),
    "CX": (2, 0, lambda: _ctrl(_X)), "CNOT": (2, 0, lambda: _ctrl(_X)), "CY": (2, 0, lambda: _ctrl(_Y)),
    "CZ": (2, 0, lambda: _ctrl(_Z)), "ISWAP": (2, 0, lambda: _ISWAP), "IS": (2, 0, lambda: _ISWAP),
    "SWAP": (2, 0, lambda: _SWAP),
    "CCX": (3, 0, lambda: _ctrl(_X, 2)), "CCNOT": (3, 0, lambda: _ctrl(_X, 2)), "TOFFOLI": (3, 0, lambda: _ctrl(_X, 2)),
    "CCY": (3, 0, lambda: _ctrl(_Y, 2)), "CCZ": (3, 0, lambda: _ctrl(_Z, 2)),
    "CSWAP": (3, 0, lambda: _ctrl(_SWAP)), "FREDKIN": (3, 0, lambda: _ctrl(_SWAP)),
    "RX": (1, 1, _rx), "RY": (1, 1, _ry), "RZ": (1, 1, _rz),
    "U3": (1, 3, _u3), "U2": (1, 2, lambda p, l: _u3(np.pi / 2, p, l)), "U1": (1, 1, _u1), "PHASE": (1, 1, _u1),
    "CU3": (2, 3, lambda t, p, l: _ctrl(_u3(t, p, l))), "CU2": (2, 2, lambda p, l: _ctrl(_u3(np.pi / 2, p, l))),
    "CU1": (2, 1, lambda l: _ctrl(_u1(l))), "CPHASE": (2, 1, lambda l: _ctrl(_u1(l))),
    "CRX": (2, 1, lambda t: _ctrl(_rx(t))), "CRY": (2, 1, lambda t: _ctrl(_ry(t))), "CRZ": (2, 1, lambda t: _ctrl(_rz(t))),
    "FSIM": (2, 2, _fsim), "FS": (2, 2, _fsim), "FSIMG": (2, 5, _fsimg), "GIVENS": (2, 1, _givens),
    "RXX": (2, 1, lambda t: _expi(_kron(_X, _X), t / 2)), "RYY": (2, 1, lambda t: _expi(_kron(_Y, _Y), t / 2)),
    "RZZ": (2, 1, lambda t: _expi(_kron(_Z, _Z), t / 2)),
    # conventions differ between libraries for the phase argument: asserted weakly
    "GIVENS2": (2, 2, None), "XXPLUSYY": (2, 2, None), "XXMINUSYY": (2, 2, None),
    "SU4": (2, 15, None),
}

_SQRT_OF = {"X_1_2": _X, "Y_1_2": _Y, "Z_1_2": _Z, "W_1_2": (_X + _Y) / np.sqrt(2), "HZ_1_2": (_X + _Y) / np.sqrt(2)}


def _prop_to(A, B, tol=1e-10):
    """A = phase * B with |phase| = 1"""
    k = np.argmax(np.abs(B))
    ph = A.ravel()[k] / B.ravel()[k]
    return abs(abs(ph) - 1) < tol and np.abs(A - ph * B).max() < tol


def weak_facts(label, params, U):
    """facts asserted for gates whose full matrix is not in the table"""
    if label in _SQRT_OF:
        return None if _prop_to(U @ U, _SQRT_OF[label]) else f"{label} squared is not the target gate up to a phase"
    if label in ("XXPLUSYY", "XXMINUSYY"):
        t, b = params
        sgn = 1 if label == "XXPLUSYY" else -1
        core = _expi(_kron(_X, _X) + sgn * _kron(_Y, _Y), t / 4)
        for q in (0, 1):
            for s in (1, -1):
                D = _kron(_rz(s * b), _I) if q == 0 else _kron(_I, _rz(s * b))
                if np.abs(D.conj().T @ core @ D - U).max() < 1e-10:
                    return None
        return f"{label} is not exp(-i theta/4 (XX{'+' if sgn > 0 else '-'}YY)) conjugated by a Z rotation by beta on one qubit"
    if label == "GIVENS2":
        t, p = params
        core = _givens(t)
        for q in (0, 1):
            for s in (1, -1):
                D = _kron(_u1(s * p), _I) if q == 0 else _kron(_I, _u1(s * p))
                if np.abs(D.conj().T @ core @ D - U).max() < 1e-10:
                    return None
        return "GIVENS2 is not GIVENS(theta) conjugated by a phase gate on one qubit"
    return None


def table_matrix(label, params):
    nq, npar, fn = TABLE[label]
    if fn is None:
        return None
    return np.asarray(fn(*params), dtype=complex)


def rand_unitary(rng, D):
    Xm = rng.normal(size=(D, D)) + 1j * rng.normal(size=(D, D))
    Q, R = np.linalg.qr(Xm)
    return Q * (np.diag(R) / np.abs(np.diag(R)))


# ------------------------------------------------------------------------------------------------
# dense reference simulator
# ------------------------------------------------------------------------------------------------


def apply_dense(state, U, qubits, controls=()):
    """state: (2,)*N (+ optional trailing batch axis)"""
    qubits, controls = list(qubits), list(controls)
    if controls:
        U = _ctrl(U, len(controls))
        qubits = controls + qubits
    n = len(qubits)
    G = np.asarray(U, dtype=complex).reshape((2,) * (2 * n))
    out = np.tensordot(G, state, (list(range(n, 2 * n)), qubits))
    return np.moveaxis(out, list(range(n)), qubits)


def rdm(ref, where):
    where = list(where)
    rest = [k for k in range(ref.ndim) if k not in where]
    M = np.transpose(ref, where + rest).reshape(2 ** len(where), -1)
    return M @ M.conj().T


def marginal(prob, where, fix):
    """joint probability tensor over `where` (that order) with the qubits in `fix` fixed, the rest summed"""
    N = prob.ndim
    idx = [slice(None)] * N
    for q, b in fix.items():
        idx[q] = int(b)
    sub = prob[tuple(idx)]
    rem = [q for q in range(N) if q not in fix]
    axes_sum = tuple(k for k, q in enumerate(rem) if q not in where)
    sub = sub.sum(axis=axes_sum) if axes_sum else sub
    left = [q for q in rem if q in where]
    return np.transpose(sub, [left.index(q) for q in where])


def cdf_consistent(u, p, x, tol):
    p = np.asarray(p, dtype=float).ravel()
    c = np.cumsum(p) / p.sum()
    lo = c[x - 1] if x > 0 else 0.0
    return lo - tol <= u <= c[x] + tol


def close(a, b, atol, what):
    a, b = np.asarray(a), np.asarray(b)
    if a.shape != b.shape:
        return f"{what}: shape {a.shape} != reference {b.shape}"
    if a.size and not np.all(np.isfinite(a)):
        return f"{what}: non-finite"
    if a.size:
        d = float(np.abs(a - b).max())
        if d > atol:
            return f"{what}: max abs diff {d:.3e} (tol {atol:.0e})"
    return None


def _numpy_choice_assumption():
    g = np.random.default_rng(12345)
    for s in range(40):
        p = g.random(int(g.integers(2, 9)))
        p /= p.sum()
        a = np.random.default_rng(s).choice(len(p), p=p)
        u = np.random.default_rng(s).random()
        c = np.cumsum(p)
        c /= c[-1]
        if a != np.searchsorted(c, u, side="right"):
            return False
    return True


# ------------------------------------------------------------------------------------------------
# driver 1: the registered vocabulary
# ------------------------------------------------------------------------------------------------


@driver("C07", "gate-vocabulary", chunks=1, timeout=100,
        bound="every label registered in quimb.tensor.circuit.gates (constant, parametrized, special, aliases) x parameter "
              "draws (special angles 0, +-pi/2, +-pi, 2pi, 4pi, 50.0 and uniform in [-7,7]; 12 draws quick / 80 thorough): "
              "Gate(label, params).array is unitary to 1e-12 and equals the own textbook table (weak facts for the qsim "
              "square roots, GIVENS2, XXPLUSYY, XXMINUSYY; unitarity only for SU4); Gate.build_mpo with 0..2 controls "
              "equals the controlled matrix")
def vocabulary(cx):
    import warnings

    import quimb.tensor as qtn
    from quimb.tensor.circuit import gates as qg

    warnings.filterwarnings("ignore")
    rng = cx.rng
    labels = sorted(qg.ALL_GATES)
    cx.check("registered gate vocabulary is covered by the reference table", dict(labels=len(labels)),
             lambda: None if set(labels) <= set(TABLE) else f"labels without reference entry: {sorted(set(labels) - set(TABLE))}")
    specials = [0.0, np.pi / 2, -np.pi / 2, np.pi, -np.pi, 2 * np.pi, 4 * np.pi, 50.0]
    ndraw = 12 if cx.quick else 80
    for label in labels:
        if label not in TABLE:
            continue
        nq, npar, fn = TABLE[label]
        for k in range(ndraw if npar else 1):
            if npar and k < 3:
                params = [float(rng.choice(specials)) for _ in range(npar)]
            else:
                params = [float(x) for x in rng.uniform(-7, 7, size=npar)]
            p = dict(label=label, draw=k)
            qubits = list(range(nq))

            def arr(label=label, params=params, qubits=qubits):
                g = qtn.Gate(label, params, qubits=qubits)
                U = np.asarray(g.array, dtype=complex)
                return U.reshape(2 ** len(qubits), 2 ** len(qubits))

            def t_unitary():
                U = arr()
                if U.shape != (2 ** nq, 2 ** nq):
                    return f"shape {U.shape}"
                d = np.abs(U.conj().T @ U - np.eye(2 ** nq)).max()
                return None if d < 1e-12 else f"unitarity defect {d:.2e} at params {params}"

            cx.check("Gate.array is unitary", p, t_unitary)

            def t_table(label=label, params=params):
                U = arr()
                M = table_matrix(label, params)
                if M is None:
                    return weak_facts(label, params, U)
                return close(U, M, 1e-12, f"{label}{tuple(params)} vs textbook matrix")

            cx.check("Gate.array equals the textbook definition", p, t_table, nontrivial=label != "SU4")
            if nq > 2 or k >= 4:
                continue
            # sub-operator of the (multi-)controlled gate
            nctrl = int(rng.integers(0, 3))
            L = nq + nctrl + int(rng.integers(0, 2))
            sites = [int(x) for x in rng.choice(L, size=nq + nctrl, replace=False)]
            tq, cq = sites[:nq], sites[nq:]

            def t_mpo(label=label, params=params, tq=tq, cq=cq, L=L):
                g = qtn.Gate(label, params, qubits=tq, controls=cq if cq else None)
                # from_dense splits with the default cutoff 1e-10 (relative squared weight): its result is only promised to
                # sqrt(1e-10) ~ 1e-5 of the operator norm; the exactness claim (1e-10) is checked with cutoff=0
                mpo = g.build_mpo(L, cutoff=0.0)
                mpo_default = g.build_mpo(L)
                U = arr()
                support = sorted(tq + cq)
                # dense of the MPO on its support, through the reference: apply to basis states
                D = 2 ** len(support)
                got = np.asarray(mpo.to_dense(), dtype=complex)
                if got.shape != (D, D):
                    return f"dense shape {got.shape} != {(D, D)} for support {support}"
                basis = np.eye(D, dtype=complex).reshape((2,) * len(support) + (D,))
                want = apply_dense(basis, U, [support.index(q) for q in tq], [support.index(q) for q in cq]).reshape(D, D)
                e = close(got, want, 1e-10, "sub-MPO of the gate (cutoff=0)")
                if e:
                    return e
                got_d = np.asarray(mpo_default.to_dense(), dtype=complex)
                if got_d.shape != (D, D):
                    return f"dense shape {got_d.shape} != {(D, D)} for support {support} (default cutoff)"
                return close(got_d, want, 3e-5 * max(1.0, float(np.linalg.norm(want))), "sub-MPO of the gate (default cutoff 1e-10)")

            cx.check("Gate.build_mpo equals the (controlled) gate matrix on its support", dict(p, targets=str(tq), controls=str(cq)),
                     t_mpo, allow_reject=label in ("SWAP", "IDEN"))


# ------------------------------------------------------------------------------------------------
# driver 2: random programs with interleaved queries
# ------------------------------------------------------------------------------------------------

_SPARSE_LABELS = ["X", "CX", "CNOT", "CCX", "SWAP", "CSWAP", "IDEN", "Z", "CZ", "Y", "TOFFOLI", "FREDKIN", "H", "S", "T", "ISWAP"]


def _fmt(w):
    return "-".join(map(str, w)) if isinstance(w, (tuple, list)) else str(w)


def _hist_from_key(key):
    m = re.search(r'"prog": (\d+)', key or "")
    return int(m.group(1)) if m else None


def mps_dense(arrs):
    """dense tensor of an open MPS given as (r,p) / (l,r,p) / (l,p) arrays (or a single (p,) array)"""
    if len(arrs) == 1:
        return np.asarray(arrs[0])
    cur = np.moveaxis(arrs[0], 0, -1)
    for a in arrs[1:-1]:
        cur = np.moveaxis(np.tensordot(cur, a, ([-1], [0])), -2, -1)
    return np.tensordot(cur, arrs[-1], ([-1], [0]))


_SHAPES = {2: [[(0, 1)]], 3: [[(0, 1), (1, 2)], [(0, 1), (1, 2), (0, 2)]],
           4: [[(0, 1), (1, 3), (3, 2), (2, 0)], [(0, 1), (0, 2), (0, 3)], [(0, 1), (1, 2), (2, 3)]],
           5: [[(0, 1), (1, 2), (2, 3), (3, 4)], [(0, 1), (0, 2), (0, 3), (0, 4)], [(0, 1), (1, 2), (2, 3), (3, 4), (4, 0)]],
           6: [[(0, 1), (1, 2), (3, 4), (4, 5), (0, 3), (1, 4), (2, 5)], [(0, 1), (1, 2), (2, 3), (3, 4), (4, 5)]]}

MPS_KINDS = ("CircuitMPS", "CircuitPermMPS", "CircuitMPSLazy")


class Prog:
    """one simulator instance + the reference state of the gates recorded so far"""

    def __init__(self, qtn, rng, pid):
        self.qtn, self.rng, self.pid = qtn, rng, pid
        kinds = ["Circuit"] * 6 + ["CircuitDense"] * 2 + ["CircuitMPS"] * 4 + ["CircuitPermMPS"] * 2 + ["CircuitMPSLazy"] * 2 + \
            ["PEPS", "PEPO"]
        self.kind = str(rng.choice(kinds))
        lowN = 1 if self.kind in ("Circuit", "CircuitDense", "CircuitMPS") else 2
        self.N = N = int(rng.integers(lowN, 7))
        self.style = str(rng.choice(["generic", "generic", "sparse"]))
        self.opts = {}
        self.tight = True
        self.edges = None
        psi0 = None
        self.ref = np.zeros((2,) * N, dtype=complex)
        self.ref[(0,) * N] = 1.0
        self.has_psi0 = False
        self.psi0_kind = "none"
        self.psi0_cls = "none"
        if self.kind not in ("PEPS", "PEPO") and N >= 2 and rng.integers(0, 5) == 0:
            # an entangled MPS (bond 2), a product state with normalised factors, or (rarely) a product state whose
            # factors are only normalised as a whole
            self.psi0_kind = str(rng.choice(["chi2", "chi2", "chi2", "chi1n", "chi1n", "chi1"]))
            chi = 2 if self.psi0_kind == "chi2" else 1
            arrs = []
            for i in range(N):
                shp = ([chi] if i > 0 else []) + ([chi] if i < N - 1 else []) + [2]
                a = rng.normal(size=shp) + 1j * rng.normal(size=shp)
                if self.psi0_kind == "chi1n":
                    a = a / np.linalg.norm(a)
                arrs.append(a)
            nrm = np.linalg.norm(mps_dense(arrs))
            arrs[0] = arrs[0] / nrm
            self.ref = mps_dense(arrs).astype(complex)
            psi0 = qtn.MatrixProductState(arrs)
            self.has_psi0 = True
            self.psi0_cls = "mps"
            if self.kind in ("Circuit", "CircuitDense") and rng.integers(0, 2):
                # the same state as a plain 1D vector network (no MatrixProductState methods)
                from quimb.tensor.tn1d.core import TensorNetwork1DVector

                psi0 = psi0.view_as(TensorNetwork1DVector, like=psi0)
                self.psi0_cls = "tn1d"
        kw = {}
        if psi0 is not None:
            kw["psi0"] = psi0
        self.single = False
        if self.kind in ("Circuit", "CircuitDense", "CircuitMPS", "CircuitMPSLazy") and rng.integers(0, 8) == 0:
            kw["dtype"] = str(rng.choice(["complex64", "complex128"]))
            self.opts["dtype"] = kw["dtype"]
            self.single = kw["dtype"] == "complex64"
            if self.kind in ("Circuit", "CircuitDense") and rng.integers(0, 2):
                kw["convert_eager"] = bool(rng.integers(0, 2))
                self.opts["convert_eager"] = kw["convert_eager"]
        if self.kind == "Circuit":
            gc = str(rng.choice(["default", "default", "auto-split-gate", "split-gate", "swap-split-gate", "False", "True"]))
            if gc != "default":
                kw["gate_contract"] = {"False": False, "True": True}.get(gc, gc)
            self.opts["gate_contract"] = gc
            self.circ = qtn.Circuit(N, **kw)
        elif self.kind == "CircuitDense":
            self.circ = qtn.CircuitDense(N, **kw)
        elif self.kind == "CircuitMPS":
            gc = str(rng.choice(["auto-mps", "auto-mps", "swap+split", "nonlocal"]))
            kw["gate_contract"] = gc
            self.opts["gate_contract"] = gc
            if rng.integers(0, 2):
                kw["cutoff"] = 0.0
                self.opts["cutoff"] = 0.0
            else:
                self.tight = False
            if rng.integers(0, 6) == 0:
                kw["convert_eager"] = False
                self.opts["convert_eager"] = False
            self.circ = qtn.CircuitMPS(N, **kw)
        elif self.kind == "CircuitPermMPS":
            if rng.integers(0, 2):
                kw["cutoff"] = 0.0
                self.opts["cutoff"] = 0.0
            else:
                self.tight = False
            self.circ = qtn.CircuitPermMPS(N, **kw)
        elif self.kind == "CircuitMPSLazy":
            kw["method"] = str(rng.choice(["dm", "direct", "zipup"]))
            kw["compress_every"] = int(rng.integers(1, 4))
            if rng.integers(0, 2):
                kw["cutoff"] = 0.0
                self.opts["cutoff"] = 0.0
            else:
                self.tight = False
            self.opts.update(method=kw["method"], compress_every=kw["compress_every"])
            self.circ = qtn.CircuitMPSLazy(N, **kw)
        else:
            self.edges = _SHAPES[N][int(rng.integers(0, len(_SHAPES[N])))]
            self.tight = False
            cls = qtn.CircuitPEPSSimpleUpdate if self.kind == "PEPS" else qtn.CircuitPEPOSimpleUpdate
            if rng.integers(0, 2):
                self.circ = cls(edges=self.edges, cutoff=0.0)
                self.opts["cutoff"] = 0.0
            else:
                self.circ = cls(edges=self.edges)
            self.opts["edges"] = len(self.edges)
        self.track_U = (not self.has_psi0) and N <= 4 and self.kind == "Circuit"
        self.glist = []  # recorded gates: [matrix, qubits, controls, label, params, parametrized]
        self.psi0_ref = self.ref.copy()
        self.U = None
        self.recompute()
        self.flags = dict(copied_since_gate=False, mps_record_risk="none", rejected_before=False, contract_true_gate=False)
        self.last = {}
        self.quirks = set()
        self.idle = [True] * N  # wires whose initial-state tensor still carries the output label

    def base(self):
        d = dict(prog=self.pid, cls=self.kind, N=self.N, style=self.style, psi0=self.psi0_kind, psi0cls=self.psi0_cls,
                 quirks="+".join(sorted(self.quirks)))
        d.update({k: str(v) for k, v in self.opts.items()})
        return d

    def tol(self, single=False):
        if single or self.single:
            return 2e-4
        if self.kind == "CircuitMPSLazy" or (self.kind == "CircuitMPS" and self.opts.get("gate_contract") != "swap+split"):
            # gates routed through gate_nonlocal / gate_with_submpo are first decomposed into an MPO with the default
            # cutoff 1e-10 (relative discarded weight), whatever the circuit's own cutoff
            return 1e-4
        if self.kind == "CircuitMPSLazy" and self.opts.get("method") == "dm":
            return 1e-6 if self.tight else 1e-4
        if self.tight:
            return 1e-8
        return 1e-4  # documented default cutoff 1e-10 on the discarded weight: up to 1e-5 per split

    def recompute(self):
        ref = self.psi0_ref.copy()
        U = np.eye(2 ** self.N, dtype=complex).reshape((2,) * self.N + (2 ** self.N,)) if self.track_U else None
        for g in self.glist:
            ref = apply_dense(ref, g[0], g[1], g[2])
            if U is not None:
                U = apply_dense(U, g[0], g[1], g[2])
        self.ref, self.U = ref, U

    def record(self, g):
        self.glist.append(g)
        self.ref = apply_dense(self.ref, g[0], g[1], g[2])
        if self.U is not None:
            self.U = apply_dense(self.U, g[0], g[1], g[2])

    @property
    def prob(self):
        p = np.abs(self.ref) ** 2
        return p / p.sum()


def _pick_qubits(rng, N, n):
    return [int(x) for x in rng.choice(N, size=n, replace=False)]


def make_gate(P):
    """draw a gate (outside any thunk): returns dict(label, params, qubits, controls, U, call, desc)"""
    rng, N, qtn = P.rng, P.N, P.qtn
    from quimb.tensor.circuit import gates as qg

    labels_all = sorted(l for l in qg.ALL_GATES if l in TABLE)
    raw = False
    if P.style == "sparse" and rng.integers(0, 5):
        label = str(rng.choice(_SPARSE_LABELS))
    else:
        k = int(rng.integers(0, 10))
        if k == 0:
            raw = True
            label = "RAW"
        else:
            label = str(rng.choice(labels_all))
    if raw:
        nq = int(rng.choice([1, 1, 2, 2, 3]))
    else:
        nq = TABLE[label][0]
    if nq > N:
        label, nq, raw = "H", 1, False
    nctrl = 0
    if rng.integers(0, 6) == 0 and N - nq >= 1 and nq <= 2:
        nctrl = int(rng.integers(1, min(2, N - nq) + 1))
    if P.kind in ("PEPS", "PEPO") and nq == 2 and rng.integers(0, 4):
        e = P.edges[int(rng.integers(0, len(P.edges)))]
        qs = list(e) if rng.integers(0, 2) else list(e)[::-1]
        nctrl = 0
    else:
        qs = _pick_qubits(rng, N, nq + nctrl)
    qubits, controls = qs[:nq], qs[nq:]
    if raw:
        params = []
        M = rand_unitary(rng, 2 ** nq)
        Uin = M
    else:
        npar = TABLE[label][1]
        if P.style == "sparse":
            params = [float(rng.choice([0.0, np.pi, np.pi / 2, -np.pi / 2, 2 * np.pi])) for _ in range(npar)]
        else:
            params = [float(x) for x in rng.uniform(-3.5, 3.5, size=npar)]
        M = table_matrix(label, params)
        if M is None:
            # weakly specified gate: the registry's own array defines it (checked by driver gate-vocabulary)
            M = np.asarray(qtn.Gate(label, params, qubits=list(range(nq))).array, dtype=complex).reshape(2 ** nq, 2 ** nq)
        Uin = None
    parametrize = (not raw) and TABLE[label][1] > 0 and P.kind == "Circuit" and not controls and \
        P.opts.get("gate_contract") in ("default", "False", "auto-split-gate") and rng.integers(0, 2) == 0
    spelling = int(rng.integers(0, 5))
    tensor_form = bool(rng.integers(0, 2))
    gopts = {}
    if P.kind == "Circuit" and rng.integers(0, 8) == 0 and not parametrize:
        c = str(rng.choice(["auto-split-gate", "auto-split-gate", "split-gate", "split-gate", "swap-split-gate", "swap-split-gate",
                            "False", "False", "False", "True"]))
        gopts["contract"] = {"False": False, "True": True}.get(c, c)
    g = dict(label=label, params=params, qubits=qubits, controls=controls, M=M, parametrize=parametrize)

    def call(circ):
        kw = dict(gopts)
        if controls:
            kw["controls"] = controls
        if raw:
            A = Uin.reshape((2,) * (2 * nq)) if tensor_form else Uin
            if spelling % 2:
                circ.apply_gate_raw(A, qubits, **kw)
            else:
                circ.apply_gate(A, *qubits, **kw)
            return
        if parametrize:
            kw["parametrize"] = True
        if spelling == 4 and not controls and not parametrize and not gopts and hasattr(circ, label.lower()):
            getattr(circ, label.lower())(*params, *qubits)  # circ.h(i), circ.rzz(theta, i, j), ...
        elif spelling in (0, 4):
            circ.apply_gate(label, *params, *qubits, **kw)
        elif spelling == 1:
            circ.apply_gate(label.lower(), params=params, qubits=qubits, **kw)
        elif spelling == 2:
            gate = qtn.Gate(label, params, qubits=qubits, controls=controls if controls else None, parametrize=parametrize)
            kw.pop("controls", None)
            kw.pop("parametrize", None)
            circ.apply_gate(gate, **kw)
        else:
            kw.pop("controls", None)
            if controls or parametrize:
                circ.apply_gate(label, *params, *qubits, controls=controls if controls else None,
                                **{k: v for k, v in kw.items()})
            else:
                circ.apply_gates([(label, *params, *qubits)], **kw)

    g["call"] = call
    eff = str(gopts["contract"]) if "contract" in gopts else str(P.opts.get("gate_contract", ""))
    g["desc"] = dict(label=label, qubits=_fmt(qubits), controls=_fmt(controls), nq=nq, parametrize=bool(parametrize),
                     spelling=spelling, gate_opt=str(gopts.get("contract", "")), eff_contract=eff)
    return g


def _state_now(P):
    """the state the simulator holds, read without going through the query caches"""
    circ = P.circ
    if P.kind in ("Circuit", "CircuitDense"):
        return np.asarray(circ.psi.to_dense([f"k{i}" for i in range(P.N)])).reshape(-1, 1)
    return np.asarray(circ.to_dense())


def do_gate(cx, P, g, tag="gate"):
    """apply a gate under the accept-or-reject contract; updates the reference iff the gate was recorded"""
    circ = P.circ
    n0 = circ.num_gates
    box = {}
    silent_iden = g["label"] == "IDEN" and not g["controls"]

    def thunk():
        box["ran"] = True
        try:
            g["call"](circ)
        finally:
            box["n1"] = circ.num_gates
        if box["n1"] != n0 + 1 and not (silent_iden and box["n1"] == n0):
            return f"accepted without exception but num_gates went {n0} -> {box['n1']}"
        return None

    params = dict(P.base(), action=tag, step=P.step, **g["desc"])
    r = cx.check("apply_gate: the gate is recorded once, or rejected by an exception", params, thunk,
                 allow_reject=True, crash_is_violation=False)
    if "ran" not in box:
        try:
            g["call"](circ)
        except Exception:  # noqa
            pass
        box["n1"] = circ.num_gates
    recorded = box["n1"] == n0 + 1
    if not recorded and box["n1"] != n0:
        P.broken = f"num_gates went {n0} -> {box['n1']}"
        return False
    if recorded:
        P.record([g["M"], g["qubits"], g["controls"], g["label"], list(g["params"]), g["parametrize"]])
        P.flags["copied_since_gate"] = False
        if g["desc"]["gate_opt"] == "True":
            P.flags["contract_true_gate"] = True
            if P.opts.get("gate_contract") != "True":
                P.quirks.add("mixed-contract-true")  # a gate merged into tensors of an otherwise lazy circuit
        if g["label"] == "IDEN" and g["controls"]:
            P.quirks.add("ctrl-iden")
        if P.kind == "Circuit" and len(g["controls"]) >= 2 and g["desc"]["eff_contract"] != "True":
            P.quirks.add("lazy-multictrl")  # a hyper-index (COPY) network now sits in the circuit
        if g["label"] == "SWAP" and not g["controls"]:
            i, j = g["qubits"]
            if P.idle[i] or P.idle[j]:
                P.quirks.add("swap-idle")
            P.idle[i], P.idle[j] = P.idle[j], P.idle[i]
        elif g["label"] != "IDEN" or g["controls"]:
            for q in list(g["qubits"]) + list(g["controls"]):
                P.idle[q] = False
    # accepted or rejected: the simulator must hold the state of the gates actually recorded
    res = {}

    def intact():
        res["ran"] = True
        if P.kind == "PEPO":
            return None
        return close(_state_now(P), P.ref.reshape(-1, 1), P.tol(), "state held by the simulator")

    name = ("apply_gate accepted: the simulator holds the state of the gates recorded" if recorded else
            "apply_gate rejected: the simulator still holds the state of the gates recorded")
    r2 = cx.check(name, params, intact, nontrivial=P.kind != "PEPO")
    if "ran" not in res:
        try:
            r2 = "ok" if intact() is None else "violation"
        except Exception:  # noqa
            r2 = "violation"
    if r2 == "violation":
        P.broken = "the state held by the simulator is not the state of the recorded gates"
    return recorded


# ---- queries: each returns (name, extra params, thunk) with all random choices drawn before


def _simp_opts(rng, P, allow_single=True):
    """query options for the exact simulators; returns (kwargs, single precision?)"""
    kw = {}
    single = False
    if P.kind in ("Circuit", "CircuitDense"):
        k = int(rng.integers(0, 6))
        if k == 0:
            kw["simplify_sequence"] = str(rng.choice(["", "R", "ADCRS", "RL", "C", "AD"]))
        if k == 1:
            kw["simplify_equalize_norms"] = bool(rng.integers(0, 2))
        if k == 2:
            kw["simplify_atol"] = float(rng.choice([1e-12, 1e-10, 0.0]))
        if rng.integers(0, 4):
            kw["optimize"] = str(rng.choice(["greedy", "auto"]))
        if allow_single and rng.integers(0, 5) == 0:
            kw["dtype"] = str(rng.choice(["complex64", "complex128"]))
            single = kw["dtype"] == "complex64"
    return kw, single


def q_to_dense(P):
    rng = P.rng
    reverse = bool(rng.integers(0, 4) == 0) and P.kind != "PEPS"
    kw, single = _simp_opts(rng, P) if P.kind in ("Circuit", "CircuitDense") else ({}, False)
    if P.kind in MPS_KINDS and rng.integers(0, 5) == 0:
        kw["dtype"] = "complex64"
        single = True
    if reverse:
        kw["reverse"] = True

    def thunk():
        got = np.asarray(P.circ.to_dense(**kw))
        ref = P.ref
        if reverse:
            ref = np.transpose(ref, list(range(P.N))[::-1])
        return close(got, ref.reshape(-1, 1), P.tol(single), "to_dense")

    return "to_dense", dict(opts=str(sorted(kw.items()))), thunk


def q_amplitude(P):
    rng, N = P.rng, P.N
    nb = int(rng.integers(1, 4))
    bs = []
    flat = np.abs(P.ref).ravel()
    for k in range(nb):
        if k == 0 and flat.max() > 0:
            x = int(np.argmax(flat))  # a string in the support
        else:
            x = int(rng.integers(0, 2 ** N))
        bs.append(format(x, f"0{N}b"))
    as_ints = bool(rng.integers(0, 4) == 0)
    kw, single = _simp_opts(rng, P) if P.kind in ("Circuit", "CircuitDense") else ({}, False)

    def thunk():
        for b in bs:
            arg = [int(c) for c in b] if as_ints else b
            got = P.circ.amplitude(arg, **kw)
            if np.ndim(got) != 0:
                return f"amplitude returned shape {np.shape(got)}"
            m = close(complex(got), complex(P.ref[tuple(int(c) for c in b)]), P.tol(single), f"amplitude({b})")
            if m:
                return m
        return None

    zero = any(abs(P.ref[tuple(int(c) for c in b)]) < 1e-12 for b in bs)
    return "amplitude", dict(bits=",".join(bs), as_ints=as_ints, has_zero_amplitude=zero,
                             seq=str(kw.get("simplify_sequence", "default")), equalize=str(kw.get("simplify_equalize_norms", "default")),
                             opts=str(sorted(kw.items()))), thunk


def q_uni(P):
    transposed = bool(P.rng.integers(0, 3) == 0)

    def thunk():
        Uop = P.circ.get_uni(transposed=True) if transposed else P.circ.uni
        outer = set(Uop.outer_inds())
        up = [i for i in range(P.N) if f"k{i}" in outer]
        lo = [i for i in range(P.N) if f"b{i}" in outer]
        want = P.U.reshape(2 ** P.N, 2 ** P.N)
        want = want.T if transposed else want
        if up != lo:
            return f"operator network has upper wires {up} but lower wires {lo}"
        extra = outer - {f"k{i}" for i in up} - {f"b{i}" for i in lo}
        if extra:
            return f"operator network has dangling labels {sorted(extra)}"
        # wires that carry no tensor are the identity
        if up:
            got = np.asarray(Uop.to_dense([f"k{i}" for i in up], [f"b{i}" for i in lo]))
        else:
            got = np.ones((1, 1))
        full = np.eye(2 ** P.N, dtype=complex).reshape((2,) * P.N + (2 ** P.N,))
        full = apply_dense(full, got, up).reshape(2 ** P.N, 2 ** P.N)
        return close(full, want, P.tol(), "unitary of the circuit (idle wires read as identity)")

    contracted = P.opts.get("gate_contract") == "True" or P.flags.get("contract_true_gate", False)
    return "uni", dict(transposed=transposed, gate_contracted_into_state=contracted), thunk


def _where(P, key, nmax=2):
    rng, N = P.rng, P.N
    if key in P.last and (getattr(P, "force_last", False) or rng.integers(0, 2)):
        return P.last[key]
    n = int(rng.integers(1, min(nmax, N) + 1))
    w = tuple(_pick_qubits(rng, N, n))
    P.last[key] = w
    return w


def q_partial_trace(P):
    rng = P.rng
    keep = _where(P, "keep", 3)
    as_int = len(keep) == 1 and bool(rng.integers(0, 2))
    kw, single = _simp_opts(rng, P) if P.kind in ("Circuit", "CircuitDense") else ({}, False)

    def thunk():
        got = np.asarray(P.circ.partial_trace(keep[0] if as_int else keep, **kw))
        return close(got, rdm(P.ref, keep), P.tol(single), f"partial_trace{keep}")

    return "partial_trace", dict(keep=_fmt(keep), as_int=as_int, opts=str(sorted(kw.items()))), thunk


def q_local_expectation(P):
    rng = P.rng
    if P.kind == "PEPO":
        if rng.integers(0, 2):
            where = (int(rng.integers(0, P.N)),)
        else:
            e = P.edges[int(rng.integers(0, len(P.edges)))]
            where = tuple(e) if rng.integers(0, 2) else tuple(e)[::-1]
    else:
        where = _where(P, "where", 2)
    n = len(where)
    G = rng.normal(size=(2 ** n, 2 ** n)) + 1j * rng.normal(size=(2 ** n, 2 ** n))
    G2 = rng.normal(size=(2 ** n, 2 ** n)) + 1j * rng.normal(size=(2 ** n, 2 ** n))
    as_int = n == 1 and bool(rng.integers(0, 2))
    many = P.kind in ("Circuit", "CircuitDense") and bool(rng.integers(0, 4) == 0)
    kw, single = ({}, False)
    on_copy = False
    if P.kind in ("Circuit", "CircuitDense"):
        kw, single = _simp_opts(rng, P)
    elif P.kind in MPS_KINDS:
        if rng.integers(0, 3) == 0:
            kw["normalized"] = bool(rng.integers(0, 2))
        if rng.integers(0, 8) == 0:
            kw["dtype"] = str(rng.choice(["complex64", "complex128"]))
            single = kw["dtype"] == "complex64"
        on_copy = "dtype" in kw or P.opts.get("convert_eager") is False
    risk = P.flags["mps_record_risk"]

    def thunk():
        w = where[0] if as_int else where
        rho = rdm(P.ref, where)
        if many:
            got = P.circ.local_expectation([G, G2], w, **kw)
            if not isinstance(got, tuple) or len(got) != 2:
                return f"returned {type(got).__name__}"
            want = [np.trace(G @ rho), np.trace(G2 @ rho)]
            return close(np.array([complex(x) for x in got]), np.array(want), P.tol(single) * 10, f"local_expectation{where}")
        got = P.circ.local_expectation(G, w, **kw)
        if np.ndim(got) != 0:
            return f"returned shape {np.shape(got)}"
        return close(complex(got), complex(np.trace(G @ rho)), P.tol(single) * 10, f"local_expectation{where}")

    def after():
        if on_copy and P.kind in MPS_KINDS:
            P.flags["mps_record_risk"] = "copy_le"

    return "local_expectation", dict(where=_fmt(where), as_int=as_int, many=many, on_copy=on_copy, record_risk=risk,
                                     opts=str(sorted(kw.items()))), thunk, after


def _pick_fix(P, where, want_zero=False):
    """fixed outcomes on some other qubits, by default with non-zero probability"""
    rng, N = P.rng, P.N
    others = [q for q in range(N) if q not in where]
    nf = int(rng.integers(0, len(others) + 1))
    fq = [int(x) for x in rng.choice(others, size=nf, replace=False)] if nf else []
    # take the bits of a likely basis string
    flat = P.prob.ravel()
    x = int(rng.choice(len(flat), p=flat))
    bits = format(x, f"0{N}b")
    fix = {q: bits[q] for q in fq}
    return fix


def q_compute_marginal(P):
    rng = P.rng
    where = _where(P, "mwhere", 3)
    fix = _pick_fix(P, where)
    use_fix = bool(fix) or bool(rng.integers(0, 2))
    kw = {}
    single = P.kind in ("Circuit", "CircuitDense")
    if P.kind in ("Circuit", "CircuitDense"):
        if rng.integers(0, 3) == 0:
            kw["dtype"] = "complex128"
            kw["simplify_atol"] = 1e-12
            single = False
        if rng.integers(0, 4):
            kw["optimize"] = str(rng.choice(["greedy", "auto"]))
    fix_ints = bool(rng.integers(0, 4) == 0)

    def thunk():
        f = ({q: int(b) for q, b in fix.items()} if fix_ints else dict(fix)) if use_fix else None
        got = np.asarray(P.circ.compute_marginal(where, fix=f, **kw))
        want = marginal(P.prob, list(where), fix)
        return close(got, want, P.tol(single), f"compute_marginal{where} fix={fix}")

    return "compute_marginal", dict(where=_fmt(where), fix=str(sorted(fix.items())), fix_given=use_fix, fix_ints=fix_ints,
                                    opts=str(sorted(kw.items()))), thunk


def _sample_plan(P, exact_opts=True):
    """arguments of a sample() call and the groups of qubits whose joint conditional is inverted at one uniform draw"""
    rng, N = P.rng, P.N
    kw = {}
    if P.kind in ("Circuit", "CircuitDense"):
        qubits = list(range(N))
        if rng.integers(0, 4) == 0:
            qubits = _pick_qubits(rng, N, int(rng.integers(1, N + 1)))
            kw["qubits"] = qubits
        if rng.integers(0, 2):
            order = [int(x) for x in rng.permutation(qubits)]
            gs = int(rng.choice([1, 2, 3, 10]))
            kw["order"] = order
            kw["group_size"] = gs
            groups = [sorted(order[k:k + gs]) for k in range(0, len(order), gs)]
        else:
            groups = [sorted(qubits)]
        single = True
        if rng.integers(0, 3) == 0:
            kw["dtype"] = "complex128"
            kw["simplify_atol"] = 1e-12
            single = False
        if rng.integers(0, 4):
            kw["optimize"] = str(rng.choice(["greedy", "auto"]))
        return kw, qubits, groups, single
    return kw, list(range(N)), None, False


def _mps_groups(P):
    circ = P.circ
    order = list(getattr(circ, "qubits", range(P.N)))  # physical site s holds logical qubit order[s]
    return [[q] for q in order]


def _check_samples(samples, probs, qubits_out, groups, seed, tol):
    """samples[k] drawn while the reference distribution was probs[k]; one uniform per group"""
    r2 = np.random.default_rng(seed)
    for b, prob in zip(samples, probs):
        if not isinstance(b, str) or len(b) != len(qubits_out) or any(c not in "01" for c in b):
            return f"sample {b!r} is not a bit string over {qubits_out}"
        bit = {q: b[k] for k, q in enumerate(qubits_out)}
        result = {}
        for grp in groups:
            p = marginal(prob, grp, result)
            u = r2.random()
            x = int("".join(bit[q] for q in grp), 2)
            if p.sum() <= 0 or not cdf_consistent(u, p, x, tol):
                pc = (p / p.sum()).ravel().round(5).tolist() if p.sum() > 0 else None
                return (f"sample {b}: outcome {format(x, f'0{len(grp)}b')} of qubits {grp} given {result} is inconsistent with "
                        f"the reference conditional {pc} at the uniform draw {u:.6f}")
            for q in grp:
                result[q] = bit[q]
    return None


def q_sample(P):
    rng = P.rng
    kw, qubits_out, groups, single = _sample_plan(P)
    C = int(rng.integers(1, 4))
    seed = int(rng.integers(0, 1 << 30))
    copied = P.flags["copied_since_gate"]

    def thunk():
        grp = groups if groups is not None else _mps_groups(P)
        got = list(P.circ.sample(C, seed=seed, **kw))
        if len(got) != C:
            return f"{len(got)} samples != {C}"
        return _check_samples(got, [P.prob] * C, qubits_out, grp, seed, 2e-3 if (single or P.single or not P.tight) else 1e-6)

    return "sample", dict(C=C, copied_since_gate=copied, opts=str(sorted((k, str(v)) for k, v in kw.items()))), thunk


def q_sample_interleaved(cx, P):
    """advance a sample generator, apply a gate, continue: later samples must describe the gates applied so far"""
    rng = P.rng
    kw, qubits_out, groups, single = _sample_plan(P)
    seed = int(rng.integers(0, 1 << 30))
    g = make_gate(P)
    copied = P.flags["copied_since_gate"]
    box = {}
    params = dict(P.base(), action="sample_interleaved", step=P.step, copied_since_gate=copied,
                  opts=str(sorted((k, str(v)) for k, v in kw.items())), gate=g["desc"]["label"])

    def first():
        box["it"] = P.circ.sample(3, seed=seed, **kw)
        box["grp"] = groups if groups is not None else _mps_groups(P)
        b = next(box["it"])
        box["b1"] = b
        return _check_samples([b], [P.prob], qubits_out, box["grp"], seed, 2e-3 if (single or P.single or not P.tight) else 1e-6)

    r = cx.check("sample: first sample of a generator agrees with the state", dict(params, phase="before-gate"), first)
    if "it" not in box:
        try:
            first()
        except Exception:  # noqa
            return
    if "b1" not in box:
        return
    prob1 = P.prob
    ok = do_gate(cx, P, g, tag="gate-during-sampling")
    changed = bool(np.abs(P.prob - prob1).max() > 1e-6)

    def second():
        b2 = next(box["it"])
        grp2 = groups if groups is not None else _mps_groups(P)
        # replay the uniform stream: the first sample consumed len(groups) draws
        r2 = np.random.default_rng(seed)
        for _ in box["grp"]:
            r2.random()
        bit = {q: b2[k] for k, q in enumerate(qubits_out)}
        result = {}
        prob = P.prob
        for grp in grp2:
            p = marginal(prob, grp, result)
            u = r2.random()
            x = int("".join(bit[q] for q in grp), 2)
            if p.sum() <= 0 or not cdf_consistent(u, p, x, 2e-3 if (single or P.single or not P.tight) else 1e-6):
                return (f"second sample {b2} (after the gate): qubits {grp} given {result} inconsistent with the conditional of "
                        f"the state of the gates applied so far at the uniform draw {u:.6f}")
            for q in grp:
                result[q] = bit[q]
        return None

    # the program-level flags (quirks) may have changed with the gate just applied
    params2 = dict(params, **P.base())
    cx.check("sample: a generator advanced after apply_gate samples the state of the gates applied so far",
             dict(params2, phase="after-gate", gate_recorded=ok, distribution_changed=changed), second, nontrivial=changed)


def q_sample_chaotic(P):
    rng, N = P.rng, P.N
    m = int(rng.integers(1, N + 1))
    mq = tuple(sorted(_pick_qubits(rng, N, m)))
    flat = P.prob.ravel()
    x = int(rng.choice(len(flat), p=flat))
    bits = format(x, f"0{N}b")
    fix = {q: bits[q] for q in range(N) if q not in mq}
    seed = int(rng.integers(0, 1 << 30))
    C = int(rng.integers(1, 3))
    kw = {}
    if P.kind in ("Circuit", "CircuitDense") and rng.integers(0, 4):
        kw["optimize"] = str(rng.choice(["greedy", "auto"]))
    copied = P.flags["copied_since_gate"]

    def thunk():
        got = list(P.circ.sample_chaotic(C, mq, fix=fix if fix else None, seed=seed, **kw))
        if len(got) != C:
            return f"{len(got)} samples != {C}"
        prob = P.prob
        for b in got:
            if len(b) != N or any(c not in "01" for c in b):
                return f"sample {b!r}"
            if any(b[q] != v for q, v in fix.items()):
                return f"sample {b} does not carry the fixed outcomes {fix}"
            if prob[tuple(int(c) for c in b)] < 1e-7:
                return f"sample {b} has probability {prob[tuple(int(c) for c in b)]:.2e} in the reference state"
        return None

    return "sample_chaotic", dict(marginal=_fmt(mq), fixed=len(fix), C=C, copied_since_gate=copied,
                                  opts=str(sorted(kw.items()))), thunk


def q_sample_gate_by_gate(P):
    rng, N = P.rng, P.N
    C = int(rng.integers(1, 3))
    seed = int(rng.integers(0, 1 << 30))
    kw = {"group_size": int(rng.choice([1, 2, 3, 10]))}
    if rng.integers(0, 4):
        kw["optimize"] = str(rng.choice(["greedy", "auto"]))
    copied = P.flags["copied_since_gate"]
    has_raw = any(g[3] == "RAW" for g in P.glist)
    has_ctrl = any(g[2] for g in P.glist)
    ngates0 = len(P.glist) == 0
    group_lt_gate = any(len(g[1]) > kw["group_size"] for g in P.glist)

    def thunk():
        got = list(P.circ.sample_gate_by_gate(C, seed=seed, **kw))
        if len(got) != C:
            return f"{len(got)} samples != {C}"
        prob = P.prob
        for b in got:
            if len(b) != N or any(c not in "01" for c in b):
                return f"sample {b!r}"
            if prob[tuple(int(c) for c in b)] < 1e-7:
                return f"sample {b} has probability {prob[tuple(int(c) for c in b)]:.2e} in the reference state"
        return None

    return "sample_gate_by_gate", dict(C=C, copied_since_gate=copied, has_raw=has_raw, has_controls=has_ctrl, no_gates=ngates0,
                                       group_smaller_than_a_gate=group_lt_gate, opts=str(sorted(kw.items()))), thunk


def q_simulate_counts(P):
    rng, N = P.rng, P.N
    C = int(rng.integers(1, 30))
    seed = int(rng.integers(0, 1 << 30))

    def thunk():
        got = P.circ.simulate_counts(C, seed=seed)
        if sum(got.values()) != C:
            return f"counts sum to {sum(got.values())} != {C}"
        prob = P.prob
        for b in got:
            if len(b) != N or prob[tuple(int(c) for c in b)] < 1e-9:
                return f"counted string {b!r} has zero probability"
        return None

    return "simulate_counts", dict(C=C), thunk


def q_psi_dense(P):
    def thunk():
        psi = P.circ.psi
        got = np.asarray(psi.to_dense([f"k{i}" for i in range(P.N)]))
        return close(got.reshape(-1), P.ref.reshape(-1), P.tol(), "circ.psi contracted")

    return "psi.to_dense", {}, thunk


def a_copy(P):
    keep_copy = bool(P.rng.integers(0, 2))

    def thunk():
        new = P.circ.copy()
        if new.num_gates != P.circ.num_gates:
            return "copy has a different gate record"
        got = np.asarray(new.to_dense()) if P.kind != "PEPO" else None
        if keep_copy:
            P.circ = new
        if got is not None:
            return close(got, P.ref.reshape(-1, 1), P.tol(), "to_dense of the copy")
        return None

    def after():
        if keep_copy:
            P.flags["copied_since_gate"] = True

    return "copy", dict(keep_copy=keep_copy), thunk, after


def a_set_params(P):
    """change the parameters of parametrized gates (Circuit only)"""
    rng = P.rng
    idx = [k for k, g in enumerate(P.glist) if g[5]]
    if not idx:
        return None
    chosen = [int(x) for x in rng.choice(idx, size=int(rng.integers(1, len(idx) + 1)), replace=False)]
    new = {k: [float(x) for x in rng.uniform(-3.5, 3.5, size=len(P.glist[k][4]))] for k in chosen}
    how = str(rng.choice(["set_params", "update_params_from_psi", "update_params_from_uni"]))
    if how == "update_params_from_uni" and P.has_psi0:
        how = "set_params"

    def thunk():
        circ = P.circ
        if how == "set_params":
            params = circ.get_params()
            if sorted(params) != idx:
                return f"get_params keys {sorted(params)} != parametrized gates {idx}"
            for k, g in enumerate(P.glist):
                if g[5] and not np.allclose(np.asarray(params[k], dtype=float), g[4]):
                    return f"get_params[{k}] = {params[k]} != {g[4]}"
            circ.set_params({k: np.array(v) for k, v in new.items()})
        else:
            tn = circ.psi if how.endswith("psi") else circ.uni
            for k, v in new.items():
                tn[f"GATE_{k}"].params = np.array(v)
            circ.update_params_from(tn)
        return None

    def after():
        for k, v in new.items():
            g = P.glist[k]
            g[4] = v
            M = table_matrix(g[3], v)
            if M is None:
                M = np.asarray(P.qtn.Gate(g[3], v, qubits=list(range(len(g[1])))).array, dtype=complex).reshape(2 ** len(g[1]), -1)
            g[0] = M
        P.recompute()

    has_special = any(g[3] in ("SWAP", "IDEN") for g in P.glist)
    has_raw = any(g[3] == "RAW" for g in P.glist)
    return how, dict(gates=_fmt(chosen), has_special=has_special, has_raw=has_raw,
                     contract_true_gate=P.flags["contract_true_gate"]), thunk, after


@driver("C07", "programs-vs-dense-reference", chunks=8, timeout=110,
        bound="random programs on 1..6 qubits with <= 14 recorded gates over the whole registered vocabulary (random parameters in "
              "[-3.5,3.5], or a sparse style of permutation / Clifford gates with special angles), raw 1-,2-,3-qubit unitaries "
              "(matrix or tensor form, apply_gate / apply_gate_raw), 1..2 controls on 1- and 2-qubit gates, four spellings of "
              "apply_gate(s), per-gate contract overrides, optional random MPS initial state; simulators Circuit (gate_contract "
              "default / auto-split-gate / split-gate / swap-split-gate / False / True), CircuitDense, CircuitMPS (auto-mps / "
              "swap+split / nonlocal; cutoff default or 0), CircuitPermMPS, CircuitMPSLazy (dm / direct / zipup, compress_every "
              "1..3), CircuitPEPSSimpleUpdate and CircuitPEPOSimpleUpdate on line / ring / star / 2x2 / 2x3 graphs; queries "
              "to_dense, amplitude, uni / get_uni(transposed), partial_trace, local_expectation (complex non-symmetric 1-/2-qubit "
              "operators, operator lists, simplification / dtype / optimizer options), compute_marginal (fix), sample (qubits, "
              "order, group_size), sample advanced across an apply_gate, sample_chaotic, sample_gate_by_gate, simulate_counts, "
              "psi.to_dense, copy, set_params / update_params_from, interleaved with the gates; tolerances 1e-8 (exact / cutoff "
              "0), 1e-4 (default cutoff 1e-10, simple update), 2e-4 (complex64)")
def programs(cx):
    import warnings

    import quimb.tensor as qtn

    warnings.filterwarnings("ignore")
    if not _numpy_choice_assumption():
        cx.inconclusive.append("numpy Generator.choice no longer inverts the cdf at one uniform draw")
        return
    try:
        # the harness runs drivers in daemonic worker processes, which may not start the process pool that cotengra's
        # 'auto' path optimizers create for larger networks: mark this process as a worker (serial path search)
        import cotengra.parallel as _ctp

        _ctp._IS_WORKER = True
    except Exception:  # noqa
        pass
    nprog = 2400 if cx.quick else 24000
    only_h = _hist_from_key(cx.only_key) if cx.only_key is not None else None
    skip_to = _hist_from_key(cx.resume_after) if cx.resume_after is not None else None
    for pid in range(nprog):
        if not cx.mine():
            continue
        if only_h is not None and pid != only_h:
            continue
        if skip_to is not None and pid <= skip_to:
            continue
        if cx.out_of_time():
            cx.inconclusive.append(f"programs-vs-dense-reference: time budget exhausted at program {pid} of {nprog}")
            return
        rng = np.random.default_rng([cx.seed, 707, pid])
        P = Prog(qtn, rng, pid)
        P.step = 0
        P.broken = None
        ngates_max = int(rng.integers(2, 15))
        nsteps = ngates_max + int(rng.integers(3, 12))
        for step in range(nsteps):
            P.step = step
            if P.broken:
                break
            if len(P.glist) < ngates_max and rng.integers(0, 2):
                do_gate(cx, P, make_gate(P))
                continue
            if not run_query(cx, P):
                break


def run_query(cx, P):
    rng, kind = P.rng, P.kind
    if kind in ("Circuit", "CircuitDense"):
        menu = ["to_dense", "amplitude", "partial_trace", "local_expectation", "local_expectation", "compute_marginal", "sample",
                "sample_interleaved", "sample_chaotic", "sample_gate_by_gate", "simulate_counts", "copy", "psi"]
        if kind == "Circuit":
            menu += ["set_params", "set_params"]
            if P.U is not None:
                menu += ["uni"]
    elif kind in MPS_KINDS:
        menu = ["to_dense", "amplitude", "partial_trace", "local_expectation", "local_expectation", "compute_marginal", "sample",
                "sample_interleaved", "sample_chaotic", "copy"]
    elif kind == "PEPS":
        menu = ["to_dense", "to_dense", "copy"]
    else:
        menu = ["local_expectation", "local_expectation", "copy"]
    act = str(rng.choice(menu))
    if act == "sample_interleaved":
        q_sample_interleaved(cx, P)
        return True
    if act == "set_params":
        # the same (cached) query before and after the parameter update
        qf = [q_to_dense, q_amplitude, q_partial_trace, q_local_expectation, q_compute_marginal][int(rng.integers(0, 5))]
        for k in ("keep", "where", "mwhere"):
            P.last.pop(k, None)
        if not _run_made(cx, P, qf(P)):
            return False
        made = a_set_params(P)
        if made is None:
            return True
        if not _run_made(cx, P, made):
            return False
        P.force_last = True  # same qubits as before the update
        try:
            post = qf(P)
        finally:
            P.force_last = False
        return _run_made(cx, P, post, suffix=" (repeated after a parameter update)")
    made = {"to_dense": q_to_dense, "amplitude": q_amplitude, "partial_trace": q_partial_trace,
            "local_expectation": q_local_expectation, "compute_marginal": q_compute_marginal, "sample": q_sample,
            "sample_chaotic": q_sample_chaotic, "sample_gate_by_gate": q_sample_gate_by_gate,
            "simulate_counts": q_simulate_counts, "copy": a_copy, "psi": q_psi_dense, "set_params": a_set_params,
            "uni": q_uni}[act](P)
    return _run_made(cx, P, made)


def _run_made(cx, P, made, suffix=""):
    if made is None:
        return True
    name, extra, thunk = made[:3]
    after = made[3] if len(made) > 3 else None
    params = dict(P.base(), action=name + suffix, step=P.step, **extra)
    params.setdefault("rejected_before", P.flags["rejected_before"])
    box = {}

    def run():
        box["ran"] = True
        return thunk()

    r = cx.check(f"{name}: equals the same query on the dense reference state of the gates applied so far", params, run)
    if "ran" not in box:
        try:
            thunk()
        except Exception:  # noqa
            return False
    if r == "violation" and name in ("copy", "set_params", "update_params_from_psi", "update_params_from_uni"):
        # the object may be half-updated: stop this program
        for v in cx.violations[-1:]:
            if "crash" in str(v.get("detail", "")) or "rejected" in str(v.get("detail", "")):
                return False
    if after is not None:
        after()
    return True


# ------------------------------------------------------------------------------------------------------------------
# named parameters (register_named_params / set_params with string keys): every cached query after an update
# ------------------------------------------------------------------------------------------------------------------

def _np_rot(axis, t):
    c, s = np.cos(t / 2), np.sin(t / 2)
    if axis == "rx":
        return np.array([[c, -1j * s], [-1j * s, c]], dtype=complex)
    if axis == "ry":
        return np.array([[c, -s], [s, c]], dtype=complex)
    return np.diag([np.exp(-0.5j * t), np.exp(0.5j * t)])


def _np_apply(psi, U, qubits, n):
    k = len(qubits)
    psi = psi.reshape((2,) * n)
    U = np.asarray(U, dtype=complex).reshape((2,) * (2 * k))
    psi = np.tensordot(U, psi, axes=(list(range(k, 2 * k)), list(qubits)))
    psi = np.moveaxis(psi, list(range(k)), list(qubits))
    return psi.reshape(-1)


_NP_H = np.array([[1, 1], [1, -1]], dtype=complex) / np.sqrt(2)
_NP_CX = np.array([[1, 0, 0, 0], [0, 1, 0, 0], [0, 0, 0, 1], [0, 0, 1, 0]], dtype=complex)
# expression text -> python function of the named values
_NP_EXPRS = [("{a}", lambda v, a, b: v[a]), ("{a} / 2", lambda v, a, b: v[a] / 2), ("2 * {a}", lambda v, a, b: 2 * v[a]),
             ("{a} + {b}", lambda v, a, b: v[a] + v[b]), ("-{a}", lambda v, a, b: -v[a]),
             ("{a} - {b} / 2", lambda v, a, b: v[a] - v[b] / 2)]


@driver("C07", "named-parameters", chunks=4, timeout=110,
        bound="Circuit (gate_contract default / False / split-gate / swap-split-gate) on 2..4 qubits, 4..9 gates (rx, ry, rz parametrized, h, cx), 1..3 registered named "
              "parameters driving 1..4 gates through 6 expression shapes, the other parametrized gates set by index; 3..5 "
              "set_params updates (named only, index only, mixed, a single name of several, an empty update), each followed by "
              "cached queries (to_dense, amplitude, local_expectation, partial_trace, compute_marginal, sample, get_params) "
              "against a numpy state-vector reference; queries are also made BEFORE the update so that caches are warm")
def named_parameters(cx):
    import quimb.tensor as qtn

    rng = cx.rng
    nprog = 24 if cx.quick else 120
    for prog in range(nprog):
        n = int(rng.integers(2, 5))
        # parametrized gates need lazily kept gate tensors: Circuit with a non-contracting gate_contract
        # (contract=True + parametrized gates is the recorded finding C07-j)
        kind = "Circuit"
        gate_contract = [None, False, "split-gate", "swap-split-gate"][int(rng.integers(0, 4))]
        ng = int(rng.integers(4, 10))
        gl = []  # (name, qubits, angle or None)
        for _ in range(ng):
            g = str(rng.choice(["rx", "ry", "rz", "rx", "ry", "h", "cx"]))
            if g == "cx":
                a, b = (int(x) for x in rng.choice(n, size=2, replace=False))
                gl.append(["cx", (a, b), None])
            elif g == "h":
                gl.append(["h", (int(rng.integers(n)),), None])
            else:
                gl.append([g, (int(rng.integers(n)),), float(rng.uniform(-3, 3))])
        par = [k for k, g in enumerate(gl) if g[2] is not None]
        if not par:
            gl.append(["rx", (0,), 0.3])
            par = [len(gl) - 1]
        names = ["theta", "phi", "lam"][: int(rng.integers(1, 4))]
        nman = int(rng.integers(1, min(4, len(par)) + 1))
        managed = sorted(int(x) for x in rng.choice(par, size=nman, replace=False))
        exprs = {}
        for k in managed:
            e = _NP_EXPRS[int(rng.integers(len(_NP_EXPRS)))]
            a = str(rng.choice(names))
            b = str(rng.choice(names))
            exprs[k] = (e[0].format(a=a, b=b), e[1], a, b)
        values = {nm: float(rng.uniform(-3, 3)) for nm in names}
        free = [k for k in par if k not in managed]
        # the update schedule is drawn up-front (deterministic replay)
        nupd = int(rng.integers(3, 6))
        updates = []
        for _ in range(nupd):
            how = str(rng.choice(["named-one", "named-all", "index", "mixed", "empty"], p=[0.35, 0.2, 0.15, 0.25, 0.05]))
            u = {}
            if how in ("named-one", "mixed"):
                u[str(rng.choice(names))] = float(rng.uniform(-3, 3))
            if how == "named-all":
                u.update({nm: float(rng.uniform(-3, 3)) for nm in names})
            if how in ("index", "mixed") and free:
                u[int(rng.choice(free))] = float(rng.uniform(-3, 3))
            qsel = [int(x) for x in rng.permutation(5)[: int(rng.integers(2, 5))]]
            updates.append((how, u, qsel, int(rng.integers(1 << 30))))
        if not cx.mine():
            continue
        if cx.out_of_time():
            cx.inconclusive.append("named-parameters: time budget exhausted")
            return
        state = dict(circ=None, values=dict(values), angles={k: gl[k][2] for k in par})

        def ref_state(state=state, gl=gl, exprs=exprs, n=n):
            psi = np.zeros(2 ** n, dtype=complex)
            psi[0] = 1
            for k, (g, qs, _) in enumerate(gl):
                if g == "cx":
                    psi = _np_apply(psi, _NP_CX, qs, n)
                elif g == "h":
                    psi = _np_apply(psi, _NP_H, qs, n)
                else:
                    t = exprs[k][1](state["values"], exprs[k][2], exprs[k][3]) if k in exprs else state["angles"][k]
                    psi = _np_apply(psi, _np_rot(g, t), qs, n)
            return psi

        def queries(which, seed, state=state, n=n):
            circ = state["circ"]
            ref = ref_state()
            r = np.random.default_rng(seed)
            for q in which:
                if q == 0:
                    got = np.asarray(circ.to_dense()).reshape(-1)
                    if got.shape != ref.shape or np.abs(got - ref).max() > 1e-8:
                        return f"to_dense differs from the reference by {np.abs(got - ref).max():.3g}"
                elif q == 1:
                    b = "".join(str(int(x)) for x in r.integers(0, 2, size=n))
                    d = abs(complex(circ.amplitude(b)) - ref[int(b, 2)])
                    if d > 1e-8:
                        return f"amplitude({b}) differs by {d:.3g}"
                elif q == 2:
                    w = int(r.integers(n))
                    G = r.normal(size=(2, 2)) + 1j * r.normal(size=(2, 2))
                    rho = _np_rdm(ref, (w,), n)
                    d = abs(complex(circ.local_expectation(G, w)) - np.trace(G @ rho))
                    if d > 1e-8:
                        return f"local_expectation(G, {w}) differs by {d:.3g}"
                elif q == 3:
                    keep = tuple(int(x) for x in r.choice(n, size=min(2, n), replace=False))
                    rho = np.asarray(circ.partial_trace(keep))
                    want = _np_rdm(ref, keep, n)
                    if rho.shape != want.shape or np.abs(rho - want).max() > 1e-8:
                        return f"partial_trace({keep}) differs by {np.abs(rho - want).max():.3g}"
                elif q == 4:
                    where = tuple(sorted(int(x) for x in r.choice(n, size=min(2, n), replace=False)))
                    p = np.asarray(circ.compute_marginal(where, dtype="complex128")).real
                    pr = np.abs(ref.reshape((2,) * n)) ** 2
                    want = pr.sum(axis=tuple(i for i in range(n) if i not in where))
                    if p.shape != want.shape or np.abs(p - want).max() > 1e-8:
                        return f"compute_marginal({where}) differs by {np.abs(p - want).max():.3g}"
            # sampling only produces configurations of non-zero probability
            pr = np.abs(ref) ** 2
            for s in circ.sample(4, seed=int(seed % 1000)):
                if pr[int(s, 2)] < 1e-12:
                    return f"sample produced {s}, which has probability {pr[int(s, 2)]:.2g} in the reference state"
            return None

        base = dict(kind=kind, gate_contract=str(gate_contract), n=n, program=prog, gates="".join(g[0][-1] for g in gl),
                    managed=_fmt(managed),
                    exprs=[exprs[k][0] for k in managed])

        def t_build(state=state, kind=kind, n=n, gl=gl, exprs=exprs, values=values, managed=managed, gate_contract=gate_contract):
            circ = getattr(qtn, kind)(n, **({} if gate_contract is None else dict(gate_contract=gate_contract)))
            for g, qs, ang in gl:
                if g in ("cx", "h"):
                    getattr(circ, g)(*qs)
                else:
                    getattr(circ, g)(ang, *qs, parametrize=True)
            circ.register_named_params(dict(values), {k: (exprs[k][0],) for k in managed})
            state["circ"] = circ
            got = circ.get_params()
            for nm, v in values.items():
                if abs(float(np.asarray(got[nm])) - v) > 1e-12:
                    return f"get_params()[{nm!r}] = {got[nm]} != {v}"
            return queries([0, 1, 2, 3, 4], 11)

        r = cx.check("register_named_params: every query equals the dense reference with the gate angles given by the "
                     "named expressions", base, t_build)
        if state["circ"] is None or r == "violation":
            continue
        for step, (how, u, qsel, seed) in enumerate(updates):
            def t_upd(u=u, qsel=qsel, seed=seed, state=state):
                circ = state["circ"]
                e = queries(qsel, seed)  # warm the caches in the state BEFORE the update
                if e:
                    return "before the update: " + e
                circ.set_params({k: (np.array([v]) if isinstance(k, int) else v) for k, v in u.items()})
                for k, v in u.items():
                    if isinstance(k, int):
                        state["angles"][k] = v
                    else:
                        state["values"][k] = v
                got = circ.get_params()
                for nm, v in state["values"].items():
                    if abs(float(np.asarray(got[nm])) - v) > 1e-12:
                        return f"get_params()[{nm!r}] = {got[nm]} != {v} after the update"
                return queries(qsel, seed)  # the SAME queries again

            r = cx.check("set_params (named / indexed / mixed): the same cached queries repeated after the update equal the "
                         "dense reference of the updated parameters",
                         dict(base, step=step, update=how, keys=_fmt(sorted(map(str, u)))), t_upd)
            if r == "violation":
                break


def _np_rdm(psi, keep, n):
    t = psi.reshape((2,) * n)
    rest = [i for i in range(n) if i not in keep]
    t = np.transpose(t, list(keep) + rest).reshape(2 ** len(keep), -1)
    return t @ t.conj().T
