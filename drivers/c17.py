"""C17 bounded stand-in: eigen / singular / exponential solvers vs dense numpy references.

Test matrices are built from a *prescribed* spectrum (A = Q diag(lam) Q^+ with Q unitary, or S diag(lam) S^-1 with a
well-conditioned S), so the correct selection is known exactly and independent of any solver; numpy.linalg.eigvalsh /
eigvals / svd and scipy.linalg.expm of the dense matrix are used as a second reference.  The selection boundary (k-th vs
(k+1)-th value under the requested rule) is kept separated by >= max(0.05, 0.04 R) for a spectrum in [-R, R] (iterative
solvers with their default subspace size miss levels otherwise; that is a property of ARPACK, not of quimb), degeneracies are only placed strictly inside or
outside the selection.
"""

import itertools

import numpy as np

from vf.rtc import driver

SPFMT = ["csr", "csc", "coo", "bsr"]


# ------------------------------------------------------------------------------------------------
# helpers
# ------------------------------------------------------------------------------------------------

def _unitary(rng, d, real=False):
    x = rng.normal(size=(d, d))
    if not real:
        x = x + 1j * rng.normal(size=(d, d))
    q, r = np.linalg.qr(x)
    return q * (np.diag(r) / np.abs(np.diag(r)))


def _herm_from(rng, lam, real=False):
    q = _unitary(rng, len(lam), real)
    A = (q * lam) @ q.conj().T
    return (A + A.conj().T) / 2


def _general_from(rng, lam, real=False):
    d = len(lam)
    x = rng.normal(size=(d, d))
    if not real:
        x = x + 1j * rng.normal(size=(d, d))
    S = np.eye(d) + 0.3 * x / np.sqrt(d)
    return S @ np.diag(lam) @ np.linalg.inv(S), S


def _key(lam, which, sigma):
    """smaller key = selected first, per the documented meaning of the rule"""
    which = which.upper()
    return {
        "SA": lambda: lam.real if np.iscomplexobj(lam) else lam, "LA": lambda: -(lam.real if np.iscomplexobj(lam) else lam),
        "LM": lambda: -np.abs(lam), "SM": lambda: np.abs(lam),
        "SR": lambda: lam.real, "LR": lambda: -lam.real, "SI": lambda: lam.imag, "LI": lambda: -lam.imag,
        "TR": lambda: np.abs(lam.real - sigma), "TM": lambda: np.abs(np.abs(lam) - sigma),
        "TI": lambda: np.abs(lam.imag - sigma), "NEAREST": lambda: np.abs(lam - sigma),
    }[which]()


def _selection(lam, which, k, sigma=None):
    key = _key(lam, which, sigma)
    order = np.argsort(key, kind="stable")
    gap = key[order[k]] - key[order[k - 1]] if k < len(lam) else np.inf
    return lam[order[:k]], gap


def _spectrum(rng, d, which, k, sigma, cplx_vals=False, degenerate=False, lobpcg=False, exact_inside=True):
    """d prescribed eigenvalues whose selection boundary under (which, k, sigma) is separated by >= max(0.05, 0.04 R)"""
    R = max(3.0, d / 15.0)       # keep the level density moderate for the larger matrices
    gap_min = max(0.05, 0.04 * R)

    def draw(n):
        if cplx_vals:
            return rng.uniform(-R, R, size=n) + 1j * rng.uniform(-R, R, size=n)
        return rng.uniform(-R, R, size=n)

    for _ in range(200):
        if lobpcg:
            # well separated extremal part so that 30 default iterations converge
            lam = np.concatenate([-10.0 + 1.5 * np.arange(k + 1) + 0.2 * rng.random(k + 1), rng.uniform(0, 1, size=d - k - 1)])
            if which == "LA":
                lam = -lam
        else:
            lam = draw(d)
            if which.upper() == "SM":
                lam = np.where(np.abs(lam) < 0.05, lam + 0.1, lam)
            # push the unselected levels that crowd the boundary away from it (redraw them individually)
            key = _key(lam, which, sigma)
            order = np.argsort(key, kind="stable")
            kth = key[order[k - 1]]
            for i in order[k:]:
                if key[i] < kth + 1.5 * gap_min:
                    for _t in range(500):
                        x = draw(1)
                        if _key(x, which, sigma)[0] >= kth + 1.5 * gap_min:
                            lam[i] = x[0]
                            break
        if degenerate and d >= 6:
            o = np.argsort(_key(lam, which, sigma), kind="stable")
            if k >= 2 and exact_inside:
                lam[o[1]] = lam[o[0]]            # a degenerate pair strictly inside the selection
            lam[o[-1]] = lam[o[-2]]              # and pairs strictly outside
            if k + 3 < d:
                lam[o[k + 2]] = lam[o[k + 1]]
        if which.upper() == "SM" and np.min(np.abs(lam)) < 1e-2:
            continue
        sel, gap = _selection(lam, which, k, sigma)
        if gap >= gap_min:
            return lam
    raise AssertionError("driver: could not draw a separated spectrum")


def _dense(x):
    if hasattr(x, "toarray"):
        return np.asarray(x.toarray())
    return np.asarray(x)


def _rep(A, rep):
    import scipy.sparse as sp
    import scipy.sparse.linalg as spla

    import quimb as qu

    if rep == "qarray":
        return qu.qarray(A)
    if rep == "ndarray":
        return np.array(A)
    if rep in SPFMT:
        return getattr(sp, rep + "_matrix")(A)
    if rep == "linop":
        return spla.aslinearoperator(np.array(A))
    if rep == "lazy":
        return qu.Lazy(lambda: qu.qarray(A), shape=A.shape)
    raise AssertionError(rep)


def _eff_backend(backend, d, k, sigma, linop):
    """which solver family answers (read off choose_backend: dense numpy iff d^2/k < 2000, 10000 with a target)"""
    b = (backend or "auto").lower()
    if b != "auto":
        return b
    if linop:
        return "scipy"
    return "numpy" if d * d / k < (10000 if sigma is not None else 2000) else "scipy"


_TOLS = {"numpy": (1e-9, 1e-8), "scipy": (1e-7, 1e-6), "lobpcg": (2e-3, 5e-2)}


def _check_pairs(A, B, l, v, expect, k, eff, herm, sort, ordered_expect=None, part="all"):
    """values == expected selection, sortedness, shape, residual, (B-)orthonormality
    part: "all" | "main" (everything but orthonormality) | "orth" (orthonormality only)"""
    tv, tr = _TOLS[eff]
    l = np.asarray(l)
    d = A.shape[0]
    if part == "orth":
        if v is None or not herm:
            return None
        v = _dense(v)
        if v.shape != (d, k):
            return f"eigenvector array shape {v.shape}, expected ({d}, {k})"
        G = v.conj().T @ (v if B is None else B @ v)
        off = float(np.max(np.abs(G - np.eye(k))))
        if off > (1e-2 if eff == "lobpcg" else 1e-6):
            return f"eigenvectors not {'B-' if B is not None else ''}orthonormal: |V^+ {'B ' if B is not None else ''}V - 1| = {off:.2e}"
        return None
    scale = max(1.0, float(np.max(np.abs(expect))))
    if l.shape != (k,):
        return f"eigenvalue array shape {l.shape}, expected ({k},)"
    if herm and np.iscomplexobj(l) and np.max(np.abs(l.imag)) > tv:
        return "complex eigenvalues returned for a Hermitian problem"

    def srt(x):
        x = np.asarray(x)
        return x[np.lexsort((x.imag, x.real))] if np.iscomplexobj(x) else np.sort(x)

    err = float(np.max(np.abs(srt(l) - srt(expect))))
    if err > tv * scale:
        return f"returned values are not the requested part of the spectrum: got {np.round(srt(l), 6).tolist()}, expected " \
               f"{np.round(srt(expect), 6).tolist()} (max diff {err:.2e})"
    if sort:
        if np.max(np.abs(np.asarray(l) - srt(l))) > 0:
            return f"sort=True but values not ascending: {np.round(l, 6).tolist()}"
    elif ordered_expect is not None:
        if np.max(np.abs(l - ordered_expect)) > tv * scale:
            return f"sort=False: values not in the order of the selection rule: {np.round(l, 5).tolist()} vs " \
                   f"{np.round(ordered_expect, 5).tolist()}"
    if v is None:
        return None
    v = _dense(v)
    if v.shape != (d, k):
        return f"eigenvector array shape {v.shape}, expected ({d}, {k})"
    Bv = v if B is None else B @ v
    res = float(np.max(np.linalg.norm(A @ v - Bv * l[None, :], axis=0)))
    nrmA = max(1.0, float(np.linalg.norm(A, 2)))
    if res > tr * nrmA:
        return f"residual max_j |A v_j - l_j {'B ' if B is not None else ''}v_j| = {res:.2e} > {tr * nrmA:.1e}"
    if part == "orth" and not herm:
        return None
    if herm and part != "main":
        G = v.conj().T @ Bv
        off = float(np.max(np.abs(G - np.eye(k))))
        if off > (1e-2 if eff == "lobpcg" else 1e-6):
            return f"eigenvectors not {'B-' if B is not None else ''}orthonormal: |V^+ {'B ' if B is not None else ''}V - 1| = {off:.2e}"
    return None


def _sizes(quick):
    return [6, 44, 45, 100] if quick else [6, 20, 44, 45, 63, 64, 99, 100, 141, 142]


# ------------------------------------------------------------------------------------------------
# 1. partial Hermitian eigenproblems
# ------------------------------------------------------------------------------------------------

@driver("C17", "partial-hermitian", chunks=8, timeout=240,
        bound="Hermitian (complex and real symmetric) matrices with prescribed spectrum in [-R,R], R = max(3, d/15), d in {6,20,44,45,63,64,99,100,"
              "141,142} (both sides of the auto-selection thresholds d^2/k = 2000 / 10000), k in {1,2,5}; representations qarray / "
              "ndarray / csr / csc / coo / bsr / LinearOperator / Lazy; backends AUTO / numpy / scipy / lobpcg; rules default, SA, LA, "
              "LM, SM (dense backend only: ARPACK's SM mode does not converge reliably), TR and TM with a target, default with a "
              "target; exactly degenerate pairs strictly inside (dense and lobpcg backends only: a single-vector Krylov method cannot "
              "reliably resolve exact multiplicities) and outside the selection; start vector v0 given or not (scipy); boundary gap >= max(0.05, 0.04 R); return_vecs and sort both "
              "ways; lobpcg on spectra with well separated extremal values (tolerance 2e-3); LinearOperator with a target only "
              "for d <= 20")
def partial_hermitian(cx):
    import quimb as qu
    from quimb.linalg.base_linalg import eigensystem_partial

    rng = cx.rng
    rules = [(None, None), ("SA", None), ("LA", None), ("LM", None), ("SM", None), ("TR", "s"), (None, "s"), ("TM", "m")]
    reps = ["qarray", "ndarray", "csr", "linop", "lazy", "other-sparse"]
    for d, backend, (which, sg), k in itertools.product(_sizes(cx.quick), (None, "numpy", "scipy", "lobpcg", "AUTO"), rules, (1, 2, 5)):
        if k >= d - 1:
            continue
        for rep in reps:
            real = bool(rng.integers(0, 2))
            degenerate = bool(rng.integers(0, 3) == 0)
            return_vecs = bool(rng.integers(0, 4) != 0)
            sort = bool(rng.integers(0, 4) != 0)
            sigma = None if sg is None else (float(rng.uniform(-2, 2)) if sg == "s" else float(rng.uniform(0.5, 2.5)))
            sub = SPFMT[1 + int(rng.integers(0, 3))]
            via = ("partial", "eigh", "eigvalsh", "eigvecsh")[int(rng.integers(0, 4))]
            if cx.quick and rng.integers(0, 3) != 0:
                continue
            if not cx.mine():
                continue
            if cx.out_of_time():
                cx.inconclusive.append("partial-hermitian: time budget exhausted")
                return
            r = sub if rep == "other-sparse" else rep
            linop = r == "linop"
            eff = _eff_backend(backend, d, k, sigma, linop)
            rule = (which or ("SA" if sigma is None else "TR")).upper()
            if linop and sigma is not None and d > 20:
                continue  # shift-invert through an iterative inner solve: seconds per call
            if rule == "SM" and eff == "scipy":
                continue  # ARPACK 'SM' without shift-invert: unreliable convergence (scipy documents this)
            supported = True
            incidental = False
            if eff == "numpy" and linop:
                supported, incidental = False, True
            if eff == "lobpcg" and (sigma is not None or rule not in ("SA", "LA")):
                supported, incidental = False, True
            # a single-vector Krylov method (ARPACK) cannot reliably resolve an exact multiplicity: for that backend exact
            # degeneracies are only placed outside the selection
            lam = _spectrum(rng, d, rule, k, sigma, degenerate=degenerate, lobpcg=(eff == "lobpcg" and supported),
                            exact_inside=(eff != "scipy"))
            v0 = rng.normal(size=d) if (eff == "scipy" and rng.integers(0, 2)) else None
            qseed = int(rng.integers(1 << 30))
            A = _herm_from(rng, lam, real)
            expect, _ = _selection(lam, rule, k, sigma)
            params = dict(d=d, k=k, backend=backend, eff=eff, which=which, sigma=None if sigma is None else round(sigma, 4),
                          rep=r, real=real, degenerate=degenerate, return_vecs=return_vecs, sort=sort, via=via, herm=True,
                          v0=v0 is not None)

            def t(part, A=A, r=r, k=k, backend=backend, which=which, sigma=sigma, return_vecs=return_vecs, sort=sort, via=via,
                  expect=expect, eff=eff, v0=v0, qseed=qseed):
                qu.seed_rand(qseed)
                Ar = _rep(A, r)
                kw = dict(k=k, which=which, sigma=sigma, sort=sort)
                if v0 is not None:
                    kw["v0"] = v0.astype(A.dtype)
                if backend is not None:
                    kw["backend"] = backend
                if via == "partial":
                    out = eigensystem_partial(Ar, isherm=True, return_vecs=return_vecs, **kw)
                    l, v = out if return_vecs else (out, None)
                elif via == "eigh":
                    l, v = qu.eigh(Ar, **kw)
                elif via == "eigvalsh":
                    l, v = qu.eigvalsh(Ar, **kw), None
                else:
                    v = qu.eigvecsh(Ar, **kw)
                    # eigenvalues recomputed from the returned vectors (Rayleigh quotients)
                    vd = _dense(v)
                    if vd.shape != (A.shape[0], k):
                        return f"eigenvector array shape {vd.shape}"
                    l = np.real(np.einsum("ij,ij->j", vd.conj(), A @ vd) / np.einsum("ij,ij->j", vd.conj(), vd))
                    if sort and np.any(np.diff(l) < -1e-6):
                        return "eigvecsh(sort=True): vectors not ordered by ascending eigenvalue"
                    return _check_pairs(A, None, np.sort(l), vd[:, np.argsort(l)], expect, k, eff, True, True, part=part)
                ordered = expect if (eff == "numpy" and not sort) else None
                return _check_pairs(A, None, l, v, expect, k, eff, True, sort, ordered, part=part)

            cx.check("partial Hermitian eigensolve returns exactly the requested part of the spectrum (values, order, residual)",
                     params, lambda t=t: t("main"), allow_reject=not supported, crash_is_violation=not incidental)
            if supported and via != "eigvalsh" and (return_vecs or via != "partial"):
                cx.check("partial Hermitian eigensolve returns orthonormal eigenvectors", params, lambda t=t: t("orth"))


# ------------------------------------------------------------------------------------------------
# 2. partial non-Hermitian eigenproblems
# ------------------------------------------------------------------------------------------------

@driver("C17", "partial-general", chunks=6, timeout=240,
        bound="diagonalisable complex matrices S diag(lam) S^-1 (cond(S) ~ 2) with prescribed complex spectrum in the square "
              "[-R,R]^2 (R = max(3, d/15)) and real matrices with real spectrum, d in {6,20,44,45,63,64,99,100}, k in {1,2,5}; qarray / ndarray / csr / "
              "LinearOperator / Lazy; backends AUTO / numpy / scipy; rules LM, LR, SR, LI, SI, SM (dense only), TR / TM / TI with a "
              "real target (documented meaning: real part / magnitude / imaginary part nearest the target), default rule with a "
              "real target; isherm=False; boundary gap >= max(0.05, 0.04 R)")
def partial_general(cx):
    import quimb as qu
    from quimb.linalg.base_linalg import eigensystem_partial

    rng = cx.rng
    rules = [("LM", None), ("LR", None), ("SR", None), ("LI", None), ("SI", None), ("SM", None), ("TR", "s"), ("TM", "m"), ("TI", "s"),
             (None, "s")]
    sizes = [6, 44, 45, 100] if cx.quick else [6, 20, 44, 45, 63, 64, 99, 100]
    for d, backend, (which, sg), k, rep in itertools.product(sizes, (None, "numpy", "scipy"), rules, (1, 2, 5),
                                                             ("qarray", "ndarray", "csr", "linop", "lazy")):
        if k >= d - 2:
            continue
        real = bool(rng.integers(0, 4) == 0)
        return_vecs = bool(rng.integers(0, 4) != 0)
        sort = bool(rng.integers(0, 4) != 0)
        sigma = None if sg is None else (float(rng.uniform(-2, 2)) if sg == "s" else float(rng.uniform(0.5, 2.5)))
        via = ("partial", "eig", "eigvals", "eigvecs")[int(rng.integers(0, 4))]
        if cx.quick and rng.integers(0, 3) != 0:
            continue
        if not cx.mine():
            continue
        if cx.out_of_time():
            cx.inconclusive.append("partial-general: time budget exhausted")
            return
        linop = rep == "linop"
        eff = _eff_backend(backend, d, k, sigma, linop)
        rule = (which or "TR").upper()
        if linop and sigma is not None and d > 20:
            continue
        if rule == "SM" and eff == "scipy":
            continue
        if real and rule in ("LI", "SI", "TI"):
            rule_real_skip = True
        else:
            rule_real_skip = False
        if rule_real_skip:
            continue
        supported, incidental = True, False
        if eff == "numpy" and linop:
            supported, incidental = False, True
        lam = _spectrum(rng, d, rule, k, sigma, cplx_vals=not real)
        A, S = _general_from(rng, lam, real)
        expect, _ = _selection(lam, rule, k, sigma)
        params = dict(d=d, k=k, backend=backend, eff=eff, which=which, sigma=None if sigma is None else round(sigma, 4), rep=rep,
                      real=real, return_vecs=return_vecs, sort=sort, via=via, herm=False)

        def t(A=A, rep=rep, k=k, backend=backend, which=which, sigma=sigma, return_vecs=return_vecs, sort=sort, via=via,
              expect=expect, eff=eff):
            Ar = _rep(A, rep)
            kw = dict(k=k, which=which, sigma=sigma, sort=sort)
            if backend is not None:
                kw["backend"] = backend
            if via == "partial":
                out = eigensystem_partial(Ar, isherm=False, return_vecs=return_vecs, **kw)
                l, v = out if return_vecs else (out, None)
            elif via == "eig":
                l, v = qu.eig(Ar, **kw)
            elif via == "eigvals":
                l, v = qu.eigvals(Ar, **kw), None
            else:
                v = qu.eigvecs(Ar, **kw)
                vd = _dense(v)
                if vd.shape != (A.shape[0], k):
                    return f"eigenvector array shape {vd.shape}"
                l = np.einsum("ij,ij->j", vd.conj(), A @ vd) / np.einsum("ij,ij->j", vd.conj(), vd)
                return _check_pairs(A, None, l, vd, expect, k, eff, False, False)
            return _check_pairs(A, None, np.asarray(l).astype(complex), v, expect.astype(complex), k, eff, False, sort)

        cx.check("partial non-Hermitian eigensolve returns exactly the requested part of the spectrum (values, order, residual)",
                 params, t, allow_reject=not supported, crash_is_violation=not incidental)


# ------------------------------------------------------------------------------------------------
# 3. generalized problems A v = l B v
# ------------------------------------------------------------------------------------------------

@driver("C17", "generalized", chunks=6, timeout=240,
        bound="Hermitian A and positive definite B (cond <= ~20) with prescribed generalized spectrum (A = L diag(lam) L^+, "
              "B = L L^+), d in {6,20,44,45,64,100}, k in {1,2,5}; A and B both qarray / ndarray / csr / LinearOperator / Lazy; "
              "backends AUTO / numpy / scipy / lobpcg; rules default, SA, LA, TR with target (not with LinearOperator: the inner "
              "iterative solve does not converge); contracts: values, A v = l B v, V^+ B V = 1")
def generalized(cx):
    import quimb as qu
    from quimb.linalg.base_linalg import eigensystem_partial

    rng = cx.rng
    sizes = [6, 44, 45] if cx.quick else [6, 20, 44, 45, 64, 100]
    for d, backend, (which, sg), k, rep in itertools.product(sizes, (None, "numpy", "scipy", "lobpcg"),
                                                             ((None, None), ("SA", None), ("LA", None), ("TR", "s"), (None, "s")),
                                                             (1, 2, 5), ("qarray", "ndarray", "csr", "linop", "lazy")):
        if k >= d - 1:
            continue
        real = bool(rng.integers(0, 2))
        return_vecs = bool(rng.integers(0, 4) != 0)
        sigma = None if sg is None else float(rng.uniform(-2, 2))
        if cx.quick and rng.integers(0, 2) != 0:
            continue
        if not cx.mine():
            continue
        if cx.out_of_time():
            cx.inconclusive.append("generalized: time budget exhausted")
            return
        linop = rep == "linop"
        eff = _eff_backend(backend, d, k, sigma, linop)
        rule = (which or ("SA" if sigma is None else "TR")).upper()
        if linop and sigma is not None:
            continue
        supported, incidental = True, False
        if eff == "numpy" and linop:
            supported, incidental = False, True
        if eff == "lobpcg" and sigma is not None:
            supported, incidental = False, True
        lam = _spectrum(rng, d, rule, k, sigma, lobpcg=(eff == "lobpcg" and supported))
        Q = _unitary(rng, d, real)
        L = Q * rng.uniform(0.7, 2.0, size=d)            # L = Q diag(s): B = Q s^2 Q^+, A = L diag(lam) L^+
        Lm = L @ _unitary(rng, d, real)
        B = Lm @ Lm.conj().T
        A = (Lm * lam) @ Lm.conj().T
        A, B = (A + A.conj().T) / 2, (B + B.conj().T) / 2
        expect, _ = _selection(lam, rule, k, sigma)
        params = dict(d=d, k=k, backend=backend, eff=eff, which=which, sigma=None if sigma is None else round(sigma, 4), rep=rep,
                      real=real, return_vecs=return_vecs, generalized=True, sparse_B=rep in SPFMT)

        def t(A=A, B=B, rep=rep, k=k, backend=backend, which=which, sigma=sigma, return_vecs=return_vecs, expect=expect, eff=eff):
            kw = dict(k=k, which=which, sigma=sigma, B=_rep(B, rep))
            if backend is not None:
                kw["backend"] = backend
            if return_vecs:
                l, v = qu.eigh(_rep(A, rep), **kw)
            else:
                l, v = eigensystem_partial(_rep(A, rep), isherm=True, return_vecs=False, **kw), None
            return _check_pairs(A, B, l, v, expect, k, eff, True, True)

        cx.check("generalized Hermitian eigensolve A v = l B v returns the requested pairs (values, residual, B-orthonormality)",
                 params, t, allow_reject=not supported, crash_is_violation=not incidental)


# ------------------------------------------------------------------------------------------------
# 4. full decompositions, convenience wrappers, relative windows
# ------------------------------------------------------------------------------------------------

@driver("C17", "full-and-wrappers", chunks=6, timeout=240,
        bound="full eig / eigh / eigvals / eigvalsh / eigvecs / eigvecsh (k = -1, sort both ways) on dense Hermitian and general "
              "matrices d in {1,2,3,7,20,50} (qarray / ndarray; sparse input is not documented for the dense full solver: "
              "'accepted => right'); groundstate / groundenergy / bound_spectrum on qarray / csr / LinearOperator / Lazy across "
              "the backend thresholds; eigh_window / eigvalsh_window / eigvecsh_window with relative centre in [0.1,0.9], width "
              "in {None,0.2,0.5}, k in {1,3,6}, dense / csr / LinearOperator, backends AUTO / numpy / scipy: returned values are "
              "true eigenvalues inside the window, contain the min(k, #inside) nearest to the centre, ascending, residual small")
def full_and_wrappers(cx):
    import quimb as qu

    rng = cx.rng
    for d, herm, rep, sort, real, rpt in itertools.product([1, 2, 3, 7, 20, 50], (True, False), ("qarray", "ndarray", "csr"),
                                                           (True, False), (False, True), range(1 if cx.quick else 3)):
        degenerate = bool(rng.integers(0, 3) == 0) and d >= 6
        lam = rng.uniform(-3, 3, size=d) if (herm or real) else rng.uniform(-3, 3, size=d) + 1j * rng.uniform(-3, 3, size=d)
        if degenerate:
            lam[1] = lam[0]
            lam[-1] = lam[-2]
        A = _herm_from(rng, lam, real) if herm else _general_from(rng, lam, real)[0]
        if not cx.mine():
            continue
        params = dict(d=d, herm=herm, rep=rep, sort=sort, real=real, degenerate=degenerate, rpt=rpt)

        def t(A=A, lam=lam, herm=herm, rep=rep, sort=sort, d=d):
            Ar = _rep(A, rep)
            f_pair, f_vals, f_vecs = (qu.eigh, qu.eigvalsh, qu.eigvecsh) if herm else (qu.eig, qu.eigvals, qu.eigvecs)
            l, v = f_pair(Ar, sort=sort)
            lam_c = lam if herm else lam.astype(complex)
            e = _check_pairs(A, None, l if herm else np.asarray(l).astype(complex), v, lam_c, d, "numpy", herm, sort)
            if e:
                return "eig(h): " + e
            if not herm:
                # vectors must be a full basis
                if np.linalg.matrix_rank(_dense(v)) != d:
                    return "eig: eigenvectors do not span the space"
            l2 = f_vals(Ar, sort=sort)
            e = _check_pairs(A, None, l2 if herm else np.asarray(l2).astype(complex), None, lam_c, d, "numpy", herm, sort)
            if e:
                return "eigvals(h): " + e
            v3 = _dense(f_vecs(Ar, sort=sort))
            if v3.shape != (d, d):
                return f"eigvecs(h): shape {v3.shape}"
            l3 = np.einsum("ij,ij->j", v3.conj(), A @ v3) / np.einsum("ij,ij->j", v3.conj(), v3)
            e = _check_pairs(A, None, np.real(l3) if herm else l3, v3, lam_c, d, "numpy", herm, False)
            if e:
                return "eigvecs(h): " + e
            if sort and herm and np.any(np.diff(np.real(l3)) < -1e-9):
                return "eigvecsh(sort=True): columns not in ascending eigenvalue order"

        sparse = rep in SPFMT
        cx.check("full eig / eigh / eigvals(h) / eigvecs(h): all eigenpairs, sorted as requested", params, t,
                 allow_reject=sparse, crash_is_violation=not sparse, nontrivial=d > 1)

    # groundstate / groundenergy / bound_spectrum
    for d, rep, backend in itertools.product([5, 44, 45, 70] if cx.quick else [5, 20, 44, 45, 70, 120],
                                             ("qarray", "csr", "coo", "linop", "lazy"), (None, "numpy", "scipy", "lobpcg")):
        real = bool(rng.integers(0, 2))
        lob = backend == "lobpcg"
        lam = _spectrum(rng, d, "SA", 1, None, lobpcg=lob)
        if lob:
            lam = np.concatenate([lam, [lam.max() + 7.0]])[:d] if False else lam
            lam[-1] = 12.0  # well separated top value for the 'LA' half of bound_spectrum
        else:
            lam = lam.copy()
            o = np.argsort(lam)
            lam[o[-1]] = lam[o[-2]] + 0.3
        A = _herm_from(rng, lam, real)
        if not cx.mine():
            continue
        eff = _eff_backend(backend, d, 1, None, rep == "linop")
        unsupported = eff == "numpy" and rep == "linop"
        params = dict(d=d, rep=rep, backend=backend, eff=eff, real=real)

        def t(A=A, lam=lam, rep=rep, backend=backend, eff=eff):
            kw = {} if backend is None else dict(backend=backend)
            tv = _TOLS[eff][0] * max(1.0, float(np.max(np.abs(lam))))
            e0 = qu.groundenergy(_rep(A, rep), **kw)
            if np.ndim(e0) != 0 or abs(e0 - lam.min()) > tv:
                return f"groundenergy {e0} != {lam.min()}"
            g = _dense(qu.groundstate(_rep(A, rep), **kw))
            if g.shape != (A.shape[0], 1):
                return f"groundstate shape {g.shape}"
            e = _check_pairs(A, None, np.array([lam.min()]), g, np.array([lam.min()]), 1, eff, True, True)
            if e:
                return "groundstate: " + e
            lo, hi = qu.bound_spectrum(_rep(A, rep), **(kw if backend is not None else {}))
            if abs(lo - lam.min()) > tv or abs(hi - lam.max()) > tv:
                return f"bound_spectrum ({lo}, {hi}) != ({lam.min()}, {lam.max()})"

        cx.check("groundenergy / groundstate / bound_spectrum == extreme eigenpairs", params, t, allow_reject=unsupported,
                 crash_is_violation=not unsupported)

    # relative windows
    for d, rep, backend, w_sz, k in itertools.product([12, 40] if cx.quick else [12, 40, 70], ("qarray", "ndarray", "csr", "linop"),
                                                      ("AUTO", "numpy", "scipy", None), (None, 0.2, 0.5), (1, 3, 6)):
        real = bool(rng.integers(0, 2))
        w0 = float(rng.uniform(0.1, 0.9))
        if rep == "linop" and d > 20:
            continue
        if cx.quick and rng.integers(0, 2):
            continue
        fn = ("eigh_window", "eigvalsh_window", "eigvecsh_window")[int(rng.integers(0, 3))]
        # spectrum: keep the window edges and the k-th nearest boundary away from eigenvalues
        for _ in range(300):
            w0 = float(rng.uniform(0.1, 0.9))
            lam = np.sort(rng.uniform(-3, 3, size=d))
            rngw = lam[-1] - lam[0]
            c = lam[0] + w0 * rngw
            wz = 1.1 if w_sz is None else w_sz
            lo, hi = c - wz * rngw / 2, c + wz * rngw / 2
            inside = lam[(lam > lo) & (lam < hi)]
            dist = np.sort(np.abs(lam - c))
            ok = np.min(np.abs(lam - lo)) > 0.02 and np.min(np.abs(lam - hi)) > 0.02 and dist[0] > 0.02
            if k < d:
                ok = ok and dist[k] - dist[k - 1] > 0.05
            if ok and len(inside) >= 1:
                break
        else:
            raise AssertionError("driver: window spectrum")
        A = _herm_from(rng, lam, real)
        if not cx.mine():
            continue
        if cx.out_of_time():
            cx.inconclusive.append("full-and-wrappers: time budget exhausted")
            return
        unsupported = rep == "linop" and (backend or "").lower() == "numpy"
        params = dict(d=d, rep=rep, backend=backend, w_0=round(w0, 4), w_sz=w_sz, k=k, fn=fn, real=real)

        def t(A=A, lam=lam, rep=rep, backend=backend, w0=w0, w_sz=w_sz, k=k, fn=fn, inside=inside, c=c):
            kw = dict(w_sz=w_sz)
            if backend is not None:
                kw["backend"] = backend
            out = getattr(qu, fn)(_rep(A, rep), w0, k, **kw)
            if fn == "eigh_window":
                l, v = out
            elif fn == "eigvalsh_window":
                l, v = out, None
            else:
                v = _dense(out)
                l = np.real(np.einsum("ij,ij->j", v.conj(), A @ v) / np.einsum("ij,ij->j", v.conj(), v)) if v.size else np.zeros(0)
            l = np.asarray(l)
            if l.ndim != 1:
                return f"values shape {l.shape}"
            if np.any(np.diff(l) < 0):
                return f"window eigenvalues not ascending: {l.tolist()}"
            for x in l:
                if np.min(np.abs(inside - x)) > 1e-6:
                    return f"returned value {x} is not an eigenvalue inside the window ({inside.min():.4f}..{inside.max():.4f})"
            if len(np.unique(np.round(l, 7))) != len(l):
                return "an eigenvalue is returned twice"
            need = inside[np.argsort(np.abs(inside - c))[:min(k, len(inside))]]
            for x in need:
                if l.size == 0 or np.min(np.abs(l - x)) > 1e-6:
                    return f"eigenvalue {x:.6f} (among the {min(k, len(inside))} nearest the centre {c:.4f} inside the window) missing " \
                           f"from {np.round(l, 5).tolist()}"
            if v is not None:
                v = _dense(v)
                if v.shape != (A.shape[0], len(l)):
                    return f"vector array shape {v.shape} for {len(l)} values"
                if l.size and np.max(np.linalg.norm(A @ v - v * l[None, :], axis=0)) > 1e-6 * max(1.0, np.abs(lam).max()):
                    return "window eigenvectors: residual too large"

        cx.check("eigh_window family: true eigenpairs inside the relative window, incl. the k nearest the centre, ascending", params, t,
                 allow_reject=unsupported, crash_is_violation=not unsupported)


# ------------------------------------------------------------------------------------------------
# 5. singular values, norms, matrix functions
# ------------------------------------------------------------------------------------------------

def _rect_from(rng, m, n, s, real=False):
    r = len(s)
    U = _unitary(rng, m, real)[:, :r]
    V = _unitary(rng, n, real)[:, :r]
    return (U * s) @ V.conj().T


@driver("C17", "svd-norm-matfun", chunks=6, timeout=240,
        bound="svd (full, dense m x n with m,n in 1..12) and svds (k in {1,2,5}; backends AUTO / numpy / scipy; qarray / ndarray / csr "
              "/ LinearOperator; shapes up to 60x50 and 50x60, across the auto threshold) on matrices with prescribed, separated "
              "singular values; norm for every documented alias (2, '2', spectral, f, fro, t, trace, nuc, tr; isherm option) on "
              "dense and sparse; expm (herm True/False, dense and every sparse format), expm_multiply (dense / sparse / "
              "LinearOperator x vector / column / block), sqrtm (herm True on PSD and indefinite Hermitian, herm False on "
              "matrices with spectrum in the right half plane; sparse must be rejected), d <= 40, spectra within radius 3")
def svd_norm_matfun(cx):
    import scipy.linalg as sla
    import scipy.sparse as sp

    import quimb as qu

    rng = cx.rng
    # full svd
    for m, n, real, rv in itertools.product([1, 2, 5, 12], [1, 3, 12], (False, True), (True, False)):
        r = min(m, n)
        s = np.sort(rng.uniform(0.2, 3, size=r))[::-1] + np.arange(r)[::-1] * 0.05
        A = _rect_from(rng, m, n, s, real)
        cont = ("qarray", "ndarray")[int(rng.integers(0, 2))]
        if not cx.mine():
            continue

        def t(A=A, s=s, rv=rv, cont=cont, m=m, n=n, r=r):
            out = qu.svd(_rep(A, cont), return_vecs=rv)
            if not rv:
                sv = np.asarray(out)
                return None if sv.shape == (r,) and np.max(np.abs(sv - s)) < 1e-9 else f"singular values {sv} != {s}"
            U, sv, VH = (_dense(x) for x in out)
            if U.shape != (m, r) or sv.shape != (r,) or VH.shape != (r, n):
                return f"shapes {U.shape} {sv.shape} {VH.shape}"
            if np.max(np.abs(sv - s)) > 1e-9:
                return "singular values wrong / not descending"
            if np.max(np.abs((U * sv) @ VH - A)) > 1e-9:
                return "U s VH != A"
            if np.max(np.abs(U.conj().T @ U - np.eye(r))) > 1e-9 or np.max(np.abs(VH @ VH.conj().T - np.eye(r))) > 1e-9:
                return "singular vectors not orthonormal"

        cx.check("svd(A): A = U s VH, s descending and == prescribed singular values, orthonormal vectors",
                 dict(m=m, n=n, real=real, return_vecs=rv, rep=cont), t, nontrivial=r > 1)
    # svds
    shapes = [(9, 6), (6, 9), (45, 45), (60, 50), (50, 60)] if not cx.quick else [(9, 6), (6, 9), (50, 60)]
    for (m, n), backend, rep, k, rv in itertools.product(shapes, ("AUTO", "numpy", "scipy", "auto"), ("qarray", "ndarray", "csr", "linop"),
                                                         (1, 2, 5), (True, False)):
        if k >= min(m, n) - 1:
            continue
        real = bool(rng.integers(0, 2))
        r = min(m, n)
        s = np.sort(rng.uniform(0.1, 1.0, size=r))[::-1]
        s[:k + 1] = 3.0 - 0.4 * np.arange(k + 1) + 0.1 * rng.random(k + 1)   # separated leading part
        A = _rect_from(rng, m, n, s, real)
        if not cx.mine():
            continue
        if cx.out_of_time():
            cx.inconclusive.append("svd-norm-matfun: time budget exhausted")
            return
        eff = "numpy" if backend.lower() == "numpy" else "scipy" if backend.lower() == "scipy" else \
            ("numpy" if (m * m / k < 2000 and rep != "linop") else "scipy")
        unsupported = eff == "numpy" and rep == "linop"

        def t(A=A, s=s, k=k, rv=rv, rep=rep, backend=backend, m=m, n=n):
            out = qu.svds(_rep(A, rep), k, backend=backend, return_vecs=rv)
            if not rv:
                sv = np.asarray(out)
                return None if sv.shape == (k,) and np.max(np.abs(sv - s[:k])) < 1e-7 else f"singular values {sv} != {s[:k]}"
            U, sv, VH = (_dense(x) for x in out)
            if U.shape != (m, k) or sv.shape != (k,) or VH.shape != (k, n):
                return f"shapes {U.shape} {sv.shape} {VH.shape}"
            if np.max(np.abs(sv - s[:k])) > 1e-7:
                return f"singular values {sv} != leading {s[:k]} (descending)"
            if np.max(np.abs(A @ VH.conj().T - U * sv)) > 1e-6 or np.max(np.abs(A.conj().T @ U - VH.conj().T * sv)) > 1e-6:
                return "A v != s u or A^+ u != s v"
            if np.max(np.abs(U.conj().T @ U - np.eye(k))) > 1e-6 or np.max(np.abs(VH @ VH.conj().T - np.eye(k))) > 1e-6:
                return "singular vectors not orthonormal"

        cx.check("svds(A, k): the k largest singular triplets, descending, A v = s u, A^+ u = s v",
                 dict(m=m, n=n, k=k, backend=backend, eff=eff, rep=rep, real=real, return_vecs=rv), t,
                 allow_reject=unsupported, crash_is_violation=not unsupported)
    # norms
    for (m, n), nt, rep in itertools.product([(1, 1), (5, 5), (9, 6), (6, 9), (50, 50)], (2, "2", "spectral", "f", "fro", "t", "trace", "nuc", "tr"),
                                             ("qarray", "ndarray", "csr", "coo", "csc", "bsr")):
        real = bool(rng.integers(0, 2))
        r = min(m, n)
        s = np.sort(rng.uniform(0.1, 2.0, size=r))[::-1]
        if r > 1:
            s[0] = s[1] + 0.5
        A = _rect_from(rng, m, n, s, real)
        if rep in SPFMT:
            A = A * (rng.random(size=A.shape) < 0.7) if r > 1 else A
            s = np.linalg.svd(A, compute_uv=False)
        if not cx.mine():
            continue
        kind = "2" if nt in (2, "2", "spectral") else "f" if nt in ("f", "fro") else "t"
        unsupported = kind == "t" and rep in SPFMT     # no sparse trace norm implemented

        def t(A=A, s=s, nt=nt, rep=rep, kind=kind):
            got = qu.norm(_rep(A, rep), nt)
            ref = {"2": s[0], "f": np.sqrt(np.sum(s ** 2)), "t": np.sum(s)}[kind]
            if np.ndim(got) != 0 or abs(got - ref) > 1e-7 * max(1.0, ref):
                return f"norm {got} != {ref}"

        cx.check("norm(A, ntype) == largest singular value / Frobenius norm / sum of singular values",
                 dict(m=m, n=n, ntype=str(nt), rep=rep, real=real), t, allow_reject=unsupported, crash_is_violation=not unsupported)
    for d in (2, 7, 30):
        lam = rng.uniform(-2, 2, size=d)
        A = _herm_from(rng, lam)
        if not cx.mine():
            continue
        cx.check("norm(A, 'tr', isherm=True) == sum |eigenvalues|", dict(d=d),
                 lambda A=A, lam=lam: None if abs(qu.norm(qu.qarray(A), "tr", isherm=True) - np.abs(lam).sum()) < 1e-9 * d else "wrong")
    # expm / expm_multiply / sqrtm
    for d, kind, rep, rpt in itertools.product([1, 2, 5, 16, 40], ("herm", "general", "real-general", "antiherm"),
                                               ("qarray", "ndarray", "csr", "csc", "coo", "bsr", "linop"), range(1 if cx.quick else 2)):
        if kind == "herm":
            lam = rng.uniform(-3, 3, size=d)
            A = _herm_from(rng, lam)
            S = None
        elif kind == "antiherm":
            lam = 1j * rng.uniform(-3, 3, size=d)
            A = 1j * _herm_from(rng, lam.imag)
            S = None
        else:
            real = kind == "real-general"
            lam = rng.uniform(-3, 1, size=d) if real else rng.uniform(-3, 1, size=d) + 1j * rng.uniform(-3, 3, size=d)
            A, S = _general_from(rng, lam, real)
        vec_kind = ("1d", "col", "block", "qcol")[int(rng.integers(0, 4))]
        vec = rng.normal(size=(d, 3)) + 1j * rng.normal(size=(d, 3))
        herm_flag = bool(rng.integers(0, 2))
        if not cx.mine():
            continue
        if cx.out_of_time():
            cx.inconclusive.append("svd-norm-matfun: time budget exhausted")
            return
        # exact exponential from the construction; scipy.linalg.expm as a second opinion
        if S is None:
            w, q = np.linalg.eigh(A if kind == "herm" else -1j * A)
            E = (q * np.exp(w if kind == "herm" else 1j * w)) @ q.conj().T
        else:
            E = S @ np.diag(np.exp(lam)) @ np.linalg.inv(S)
        E2 = sla.expm(A)
        if np.max(np.abs(E - E2)) > 1e-8 * max(1.0, np.max(np.abs(E))):
            raise AssertionError("driver: the two reference exponentials disagree")
        tol = 1e-8 * max(1.0, float(np.max(np.abs(E))))
        if rep != "linop":
            def t(A=A, E=E, rep=rep, kind=kind, herm_flag=herm_flag, tol=tol):
                h = herm_flag and kind == "herm"
                got = qu.expm(_rep(A, rep), herm=h)
                if rep in SPFMT and not sp.issparse(got):
                    return "sparse input gave a dense exponential"
                g = _dense(got)
                if g.shape != E.shape:
                    return f"shape {g.shape}"
                if np.max(np.abs(g - E)) > tol:
                    return f"expm: max deviation {np.max(np.abs(g - E)):.2e}"

            cx.check("expm(A, herm) == S exp(diag lam) S^-1", dict(d=d, kind=kind, rep=rep, herm=herm_flag and kind == "herm", rpt=rpt), t)

        def t2(A=A, E=E, rep=rep, vec=vec, vec_kind=vec_kind, tol=tol, d=d):
            v = {"1d": vec[:, 0], "col": vec[:, :1], "block": vec, "qcol": qu.qarray(vec[:, :1])}[vec_kind]
            for backend in ("AUTO", "scipy"):
                got = np.asarray(qu.expm_multiply(_rep(A, rep), v, backend=backend))
                ref = E @ np.asarray(v)
                if got.shape != ref.shape:
                    return f"shape {got.shape} != {ref.shape}"
                if np.max(np.abs(got - ref)) > 10 * tol * max(1.0, np.max(np.abs(vec))):
                    return f"expm_multiply: max deviation {np.max(np.abs(got - ref)):.2e}"

        cx.check("expm_multiply(A, v) == expm(A) @ v", dict(d=d, kind=kind, rep=rep, vec=vec_kind, rpt=rpt), t2)
    for d, kind, rep in itertools.product([1, 2, 5, 16, 40], ("psd", "psd-rank-deficient", "herm-indefinite", "general"),
                                          ("qarray", "ndarray", "csr")):
        if kind == "psd":
            lam = rng.uniform(0.1, 3, size=d)
        elif kind == "psd-rank-deficient":
            lam = rng.uniform(0.1, 3, size=d)
            lam[: d // 2] = 0.0
        elif kind == "herm-indefinite":
            lam = rng.uniform(-3, 3, size=d)
        else:
            lam = rng.uniform(0.3, 3, size=d) + 1j * rng.uniform(-2, 2, size=d)
        A = _general_from(rng, lam)[0] if kind == "general" else _herm_from(rng, lam)
        if not cx.mine():
            continue

        def t(A=A, lam=lam, kind=kind, rep=rep):
            R = _dense(qu.sqrtm(_rep(A, rep), herm=(kind != "general")))
            if R.shape != A.shape:
                return f"shape {R.shape}"
            if np.max(np.abs(R @ R - A)) > 1e-8 * max(1.0, np.max(np.abs(A))):
                return f"sqrtm(A)^2 != A: {np.max(np.abs(R @ R - A)):.2e}"
            if kind.startswith("psd"):
                if np.max(np.abs(R - R.conj().T)) > 1e-7 or np.min(np.linalg.eigvalsh((R + R.conj().T) / 2)) < -1e-7:
                    return "square root of a PSD matrix is not the PSD root"
            if kind == "general":
                # principal branch: eigenvalues of R in the right half plane
                if np.min(np.linalg.eigvals(R).real) < -1e-8:
                    return "not the principal square root"

        cx.check("sqrtm(A, herm): R @ R == A (PSD root for PSD input, principal root otherwise); sparse rejected",
                 dict(d=d, kind=kind, rep=rep), t, allow_reject=(rep == "csr"))


# ------------------------------------------------------------------------------------------------
# 6. automatic block diagonalisation
# ------------------------------------------------------------------------------------------------

@driver("C17", "autoblock", chunks=4, timeout=300,
        bound="Hermitian matrices that are block diagonal after a hidden random permutation: block-size lists with 1x1 blocks, zero "
              "rows (kernel), a single full block, purely diagonal, up to d = 24; blocks dense or sparsely but connectedly coupled "
              "(chain, star, random tree; some zero diagonal entries); real and complex, float64 / float32 / complex128; "
              "eigh / eigvalsh / eigvecsh with autoblock=True, sort both ways: spectrum == numpy.linalg.eigvalsh of the dense "
              "matrix, residual, orthonormality; non-Hermitian request must be rejected")
def autoblock(cx):
    import quimb as qu

    rng = cx.rng
    size_lists = [[1], [2], [3, 1, 4, 2, 1], [1, 1, 1, 1], [6], [2, 2, 2], [5, 0, 0, 3], [1, 7, 1], [4, 4, 4, 4, 4, 4], [0, 0, 0], [10, 1, 0, 2]]
    if cx.quick:
        size_lists = size_lists[:8]
    for sizes, cplx, fn, sort, cont in itertools.product(size_lists, (False, True), ("eigh", "eigvalsh", "eigvecsh"), (True, False),
                                                         ("qarray", "ndarray")):
        structure = ("dense", "chain", "sparse-connected", "star")[int(rng.integers(0, 4))]
        # a 0 in the list stands for a basis state that is not connected to anything and has a zero diagonal entry
        d = sum(max(s, 1) for s in sizes)
        A = np.zeros((d, d), dtype=complex if cplx else float)
        o = 0
        for s_ in sizes:
            if s_ == 0:
                o += 1
                continue
            x = rng.normal(size=(s_, s_)) + (1j * rng.normal(size=(s_, s_)) if cplx else 0)
            blk = (x + x.conj().T) / 2
            # sparse but connected coupling patterns: the sectors then have to be found by merging partial groups
            mask = np.eye(s_, dtype=bool)
            q_ = rng.permutation(s_)
            if structure == "dense":
                mask[:] = True
            elif structure == "chain":
                for a_ in range(s_ - 1):
                    mask[q_[a_], q_[a_ + 1]] = mask[q_[a_ + 1], q_[a_]] = True
            elif structure == "star":
                mask[q_[0], :] = mask[:, q_[0]] = True
            else:
                for a_ in range(1, s_):
                    b_ = q_[int(rng.integers(0, a_))]
                    mask[q_[a_], b_] = mask[b_, q_[a_]] = True
            blk = np.where(mask, blk, 0)
            blk[np.diag_indices(s_)] = np.where(rng.random(s_) < 0.3, 0.0, np.real(np.diag(blk)))
            A[o:o + s_, o:o + s_] = blk
            o += s_
        p = rng.permutation(d)
        A = A[np.ix_(p, p)]
        dt = ("float64", "float32")[int(rng.integers(0, 2))] if not cplx else "complex128"
        A = A.astype(dt)
        if not cx.mine():
            continue
        if cx.out_of_time():
            cx.inconclusive.append("autoblock: time budget exhausted")
            return
        tol = 1e-4 if dt == "float32" else 1e-9

        def t(A=A, fn=fn, sort=sort, cont=cont, d=d, tol=tol):
            Ad = A.astype(complex if np.iscomplexobj(A) else float)
            ref = np.linalg.eigvalsh(Ad)
            out = getattr(qu, fn)(_rep(A, cont), autoblock=True, sort=sort)
            if fn == "eigh":
                l, v = out
            elif fn == "eigvalsh":
                l, v = out, None
            else:
                v = _dense(out)
                if v.shape != (d, d):
                    return f"vector shape {v.shape}"
                l = np.real(np.einsum("ij,ij->j", v.conj(), Ad @ v))
            l = np.asarray(l)
            if l.shape != (d,):
                return f"values shape {l.shape}"
            if np.max(np.abs(np.sort(l) - ref)) > tol * max(1.0, np.abs(ref).max()):
                return f"spectrum differs from the direct computation by {np.max(np.abs(np.sort(l) - ref)):.2e}"
            if sort and np.any(np.diff(l) < -tol):
                return "sort=True: not ascending"
            if v is not None:
                v = _dense(v)
                if np.max(np.abs(Ad @ v - v * l[None, :])) > 10 * tol * max(1.0, np.abs(ref).max()):
                    return "residual too large"
                if np.max(np.abs(v.conj().T @ v - np.eye(d))) > 10 * tol:
                    return "eigenvectors not orthonormal"

        cx.check("autoblock=True gives the same spectrum / eigenpairs as the direct dense computation",
                 dict(sizes=sizes, complex=cplx, fn=fn, return_vecs=fn != "eigvalsh", sort=sort, rep=cont, dtype=dt,
                      structure=structure), t,
                 nontrivial=d > 1)
    for cplx in (False, True):
        if not cx.mine():
            continue

        def t(cplx=cplx):
            x = np.random.default_rng(3).normal(size=(4, 4)) + (1j if cplx else 0)
            try:
                qu.eig(qu.qarray(x), autoblock=True)
            except NotImplementedError:
                return None
            return "non-Hermitian autoblock accepted"

        cx.check("eig(A, autoblock=True) (non-Hermitian) is rejected", dict(complex=cplx), t)


# ------------------------------------------------------------------------------------------------
# 7. randomized SVD, rank estimation, stochastic spectral functions
# ------------------------------------------------------------------------------------------------

@driver("C17", "rand-approx", chunks=6, timeout=300,
        bound="rsvd / estimate_rank on exactly rank-r matrices (r in {1,3,7}, shapes 30x20, 20x30, 25x25, 60x60; float64 / complex128 / "
              "complex64; dense, csr), singular values in [0.5,2]: fixed k == r, and eps in {1e-3,1e-6} with modes adapt / adapt+block, "
              "q in {0,2}, p in {0,5}, compute_uv both ways: leading r values == prescribed, extra values <= eps*s0, U s VH == A, "
              "orthonormal factors; estimate_rank: r <= estimate (<= r+2 for quimb's own estimator); approx_spectral_function: "
              "exact Gauss-quadrature case (given start vector, full Krylov space, d <= 24) to 1e-7, multiples of the identity "
              "exactly, stochastic estimates of Tr|A|, Tr exp A, Tr sqrt A, Tr A log2 A (d in {30,50}, numpy seed fixed) and the "
              "subsystem entropy / sqrt / logneg helpers on 8 qubits within 10 %")
def rand_approx(cx):
    import scipy.linalg as sla
    import scipy.sparse as sp

    import quimb as qu
    from quimb.linalg.approx_spectral import (approx_spectral_function, entropy_subsys_approx, logneg_subsys_approx,
                                              tr_abs_approx, tr_exp_approx, tr_sqrt_approx, tr_sqrt_subsys_approx, tr_xlogx_approx)
    from quimb.linalg.rand_linalg import estimate_rank, rsvd

    rng = cx.rng
    for (m, n), r, dt, rep in itertools.product([(30, 20), (20, 30), (25, 25), (60, 60)], (1, 3, 7), ("complex128", "float64", "complex64"),
                                                ("ndarray", "qarray", "csr")):
        s = np.sort(rng.uniform(0.5, 2.0, size=r))[::-1] + 0.1 * np.arange(r)[::-1]
        A = _rect_from(rng, m, n, s, real=(dt == "float64")).astype(dt)
        single = dt == "complex64"
        tol = 2e-4 if single else 1e-8
        for mode, eps, q, p, uv in [("k", None, 2, 0, True), ("k", None, 2, 5, False), ("k", None, 0, 5, True), ("adapt", 1e-3, 2, 0, True),
                                    ("adapt+block", 1e-6 if not single else 1e-3, 2, 0, True), ("adapt+block", 1e-3, 2, 5, False),
                                    ("adapt", 1e-6 if not single else 1e-3, 2, 0, False), ("adapt", 1e-3, 0, 5, True)]:
            if cx.quick and rng.integers(0, 3):
                continue
            if not cx.mine():
                continue
            seed = int(rng.integers(1 << 30))

            def t(A=A, s=s, r=r, mode=mode, eps=eps, q=q, p=p, uv=uv, rep=rep, tol=tol, seed=seed, m=m, n=n):
                qu.seed_rand(seed)
                np.random.seed(seed % (1 << 31))
                Ar = _rep(A, rep)
                Ad = A.astype(complex)
                if mode == "k":
                    out = rsvd(Ar, r, compute_uv=uv, q=q, p=p)
                else:
                    out = rsvd(Ar, eps, compute_uv=uv, mode=mode, q=q, p=p)
                if not uv:
                    if isinstance(out, tuple):
                        return f"compute_uv=False returned a tuple of {len(out)} objects instead of the singular values"
                    sv, U, VH = np.asarray(out), None, None
                else:
                    U, sv, VH = (_dense(x) for x in out)
                kk = len(sv)
                if kk < r:
                    return f"only {kk} singular values for a rank-{r} matrix"
                if np.max(np.abs(sv[:r] - s)) > tol * 10:
                    return f"leading singular values {sv[:r]} != {s}"
                if np.any(np.diff(sv) > tol):
                    return "singular values not descending"
                if kk > r and np.max(sv[r:]) > max(eps or 0, tol) * s[0] * 2:
                    return f"spurious singular values {sv[r:]}"
                if mode == "k" and kk != r:
                    return f"{kk} values returned for k={r}"
                if uv:
                    if U.shape != (m, kk) or VH.shape != (kk, n):
                        return f"shapes {U.shape} {VH.shape}"
                    if np.max(np.abs((U * sv) @ VH - Ad)) > tol * 20:
                        return f"U s VH != A ({np.max(np.abs((U * sv) @ VH - Ad)):.2e})"
                    if np.max(np.abs(U[:, :r].conj().T @ U[:, :r] - np.eye(r))) > tol * 20 or \
                            np.max(np.abs(VH[:r] @ VH[:r].conj().T - np.eye(r))) > tol * 20:
                        return "leading singular vectors not orthonormal"

            cx.check("rsvd on an exactly low-rank matrix: prescribed singular values, reconstruction, orthonormal factors",
                     dict(m=m, n=n, r=r, dtype=dt, rep=rep, mode=mode, eps=eps, q=q, p=p, compute_uv=uv), t)
        if rep == "csr" or not cx.mine():
            continue
        seed = int(rng.integers(1 << 30))

        def t_rank(A=A, r=r, seed=seed, single=single):
            qu.seed_rand(seed)
            np.random.seed(seed % (1 << 31))
            eps = 1e-3 if single else 1e-6
            own = estimate_rank(A, eps, use_sli=False)
            if not (r <= own <= r + 2):
                return f"estimate_rank(use_sli=False) = {own} for an exactly rank-{r} matrix"
            dflt = estimate_rank(A, eps)
            if not (r <= dflt <= min(A.shape)):
                return f"estimate_rank = {dflt} for an exactly rank-{r} matrix"
            if estimate_rank(A, eps, k_max=max(2, r - 1), use_sli=False) > max(2, r - 1):
                return "k_max exceeded"
            if estimate_rank(A, 0.0) != min(A.shape):
                return "eps = 0 must give full rank"

        cx.check("estimate_rank never under-estimates an exactly low-rank matrix (own estimator within r..r+2), honours k_max",
                 dict(m=m, n=n, r=r, dtype=dt, rep=rep), t_rank)

    # exact cases of the stochastic trace estimator
    for d, fname, rep in itertools.product([3, 8, 24], ("exp", "abs", "sqrt", "square"), ("qarray", "csr", "linop")):
        lam = np.sort(rng.uniform(0.2, 3, size=d)) + 0.05 * np.arange(d)
        if fname == "abs":
            lam = lam - 1.5
        A = _herm_from(rng, lam)
        v0 = rng.normal(size=(d, 1)) + 1j * rng.normal(size=(d, 1))
        if not cx.mine():
            continue
        f = {"exp": np.exp, "abs": np.abs, "sqrt": np.sqrt, "square": lambda x: x * x}[fname]

        def t(A=A, lam=lam, v0=v0, f=f, rep=rep, d=d):
            w, q = np.linalg.eigh(A)
            c = q.conj().T @ v0[:, 0]
            ref = d * float(np.sum(np.abs(c) ** 2 * f(w)) / np.sum(np.abs(c) ** 2))
            got = approx_spectral_function(_rep(A, rep), f, v0=v0, tau=1e-13, k_min=d, k_max=4 * d, beta_tol=1e-9,
                                           single_precision=False)
            if abs(got - ref) > 1e-7 * max(1.0, abs(ref)):
                return f"single-vector quadrature {got} != d <v|f(A)|v>/<v|v> = {ref}"
            c0 = 1.7
            got = approx_spectral_function(_rep(c0 * np.eye(d), rep), f, single_precision=False)
            if abs(got - d * f(c0)) > 1e-6 * d * abs(f(c0)):
                return f"Tr f(c 1) = {got} != {d * f(c0)}"

        cx.check("approx_spectral_function is exact for a full Krylov space from a given vector and for multiples of the identity",
                 dict(d=d, f=fname, rep=rep), t)
    # statistical contracts: inputs and estimator seeds are FIXED (independent of VERIF_SEED): a 10 % band around a
    # stochastic estimate is only meaningful for a fixed random stream, it must not flip with the harness seed
    rng = np.random.default_rng(20260926)
    for d, which, rep in itertools.product([30, 50] if not cx.quick else [30], ("abs", "exp", "sqrt", "xlogx"), ("qarray", "csr", "linop")):
        x = rng.normal(size=(d, d)) + 1j * rng.normal(size=(d, d))
        P = x @ x.conj().T / d + 0.05 * np.eye(d)
        if which == "abs":
            P = P - 1.0 * np.eye(d)
        seed = int(rng.integers(1 << 30))
        if not cx.mine():
            continue
        if cx.out_of_time():
            cx.inconclusive.append("rand-approx: time budget exhausted")
            return

        def t(P=P, which=which, rep=rep, seed=seed):
            qu.seed_rand(seed)
            np.random.seed(seed % (1 << 31))
            lam = np.linalg.eigvalsh(P)
            fn, ref = {"abs": (tr_abs_approx, np.abs(lam).sum()), "exp": (tr_exp_approx, np.exp(lam).sum()),
                       "sqrt": (tr_sqrt_approx, np.sqrt(lam).sum()), "xlogx": (tr_xlogx_approx, (lam * np.log2(lam)).sum())}[which]
            got = fn(_rep(P, rep), tol=1e-2)
            if abs(got - ref) > 0.3 * max(1.0, abs(ref)):
                return f"stochastic estimate {got} vs exact {ref} (> 30 %)"

        cx.check("tr_*_approx within 30 % of the exact spectral sum (loose sanity band, fixed random stream)", dict(d=d, fn=which, rep=rep), t)
    for case in range(2 if cx.quick else 6):
        seed = int(rng.integers(1 << 30))
        psi = rng.normal(size=(256, 1)) + 1j * rng.normal(size=(256, 1))
        psi /= np.linalg.norm(psi)
        na = int(rng.integers(2, 5))
        if not cx.mine():
            continue

        def t(psi=psi, na=na, seed=seed):
            qu.seed_rand(seed)
            np.random.seed(seed % (1 << 31))
            dims = [2] * 8
            sysa = list(range(na))
            M = psi.reshape(2 ** na, -1)
            pr = np.linalg.svd(M, compute_uv=False) ** 2
            ent = float(-np.sum(pr * np.log2(pr)))
            got = entropy_subsys_approx(qu.qarray(psi), dims, sysa, tol=1e-2)
            if abs(got - ent) > 0.3 * max(1.0, ent):
                return f"entropy_subsys_approx {got} vs {ent}"
            got = tr_sqrt_subsys_approx(qu.qarray(psi), dims, sysa, tol=1e-2)
            if abs(got - np.sqrt(pr).sum()) > 0.3 * np.sqrt(pr).sum():
                return f"tr_sqrt_subsys_approx {got} vs {np.sqrt(pr).sum()}"
            # log-negativity between the first na-1 qubits (a) and the next 2 (b)
            a, b = list(range(na - 1)), [na - 1, na]
            T = psi.reshape(2 ** len(a), 4, -1)
            rho = np.einsum("abc,dec->abde", T, T.conj())
            pt = rho.transpose(0, 3, 2, 1).reshape(2 ** len(a) * 4, -1)
            ln = max(0.0, float(np.log2(np.abs(np.linalg.eigvalsh(pt)).sum())))
            got = logneg_subsys_approx(qu.qarray(psi), dims, a, b, tol=1e-2)
            if abs(got - ln) > 0.3 * max(1.0, ln):
                return f"logneg_subsys_approx {got} vs {ln}"

        cx.check("subsystem entropy / trace-sqrt / log-negativity estimators within 30 % of the exact values (8 qubits, loose sanity band, fixed random stream)",
                 dict(case=case, na=na), t)


@driver("C17", "projected-subspace", chunks=4, timeout=240,
        bound="partial Hermitian eigenproblem restricted to a subspace given by an isometry P (d x m, real and genuinely complex): "
              "d in {24, 60, 120}, m in {8, 20}, k in {1, 3}, backends numpy / scipy / lobpcg / AUTO, A dense qarray | csr | "
              "LinearOperator (scipy); reference numpy.linalg.eigh of P^H A P")
def projected_subspace(cx):
    import quimb as qu
    import scipy.sparse as sp
    import scipy.sparse.linalg as spla
    from quimb.linalg.base_linalg import eigensystem_partial

    rng = cx.rng
    ds = (24, 60) if cx.quick else (24, 60, 120)
    for d, m, backend, k, cplx, rep in itertools.product(ds, (8, 20), ("numpy", "scipy", "lobpcg", "AUTO"), (1, 3), (True, False),
                                                         ("qarray", "csr", "linop")):
        x = rng.normal(size=(d, d)) + 1j * rng.normal(size=(d, d))
        A = (x + x.conj().T) / 2
        y = rng.normal(size=(d, m)) + (1j * rng.normal(size=(d, m)) if cplx else 0.0)
        P = np.linalg.qr(y)[0]
        if rep == "linop" and backend in ("numpy", "AUTO"):
            continue
        if rep != "qarray" and backend == "numpy":
            continue
        if not cx.mine():
            continue
        if cx.out_of_time():
            cx.inconclusive.append("projected-subspace: time budget exhausted")
            return

        def t(A=A, P=P, k=k, backend=backend, rep=rep, d=d):
            Ar = {"qarray": lambda: qu.qarray(A), "csr": lambda: sp.csr_matrix(A),
                  "linop": lambda: spla.aslinearoperator(A)}[rep]()
            Pr = qu.qarray(P)
            lk, vk = eigensystem_partial(Ar, k, isherm=True, which="SA", backend=backend, P=Pr)
            lk, vk = np.asarray(lk), np.asarray(vk)
            M = P.conj().T @ A @ P
            lam = np.linalg.eigvalsh(M)[:k]
            tol = 2e-3 if backend == "lobpcg" else 1e-8
            if vk.shape != (d, k):
                return f"vectors of shape {vk.shape}, expected {(d, k)} (mapped back to the full space)"
            if not np.allclose(np.sort(lk.real), lam, atol=tol * max(1.0, np.abs(lam).max())) or np.abs(np.imag(lk)).max() > tol:
                return f"eigenvalues {lk} are not the {k} smallest of P^H A P = {lam}"
            if np.linalg.norm(P @ (P.conj().T @ vk) - vk) > 1e-8 * max(1.0, np.linalg.norm(vk)):
                return "returned vectors do not lie in the range of P"
            if np.linalg.norm(vk.conj().T @ vk - np.eye(k)) > 10 * tol:
                return f"returned vectors not orthonormal (defect {np.linalg.norm(vk.conj().T @ vk - np.eye(k)):.2e})"
            res = np.linalg.norm(P @ (P.conj().T @ (A @ vk))[:, np.argsort(lk.real)] - vk[:, np.argsort(lk.real)] * lam[None, :])
            if res > (30 * np.sqrt(tol) if backend == "lobpcg" else 1e-6) * max(1.0, np.abs(A).max()):
                return f"projected eigen-equation P P^H A v = lambda v violated (residual {res:.2e})"

        cx.check("eigensystem_partial(P=isometry): eigenpairs of the compression P^H A P, vectors mapped back by P",
                 dict(d=d, m=m, backend=backend, k=k, complex_P=cplx, rep=rep), t)
