"""C08 bounded stand-in: one canonical-form record threaded through random operation histories on random MPS.

After every operation the record is validated against isometry defects computed with plain numpy from the raw
site arrays, flagged ``left_inds`` are validated, the state is compared with the dense reference (numpy on the
dense vector taken *before* the operation) and every returned quantity with its dense-state definition.
"""

import re

import numpy as np

from vf.rtc import driver

# ------------------------------------------------------------------------------------------------
# independent reference helpers (numpy only; they read t.data / t.inds / t.tags / t.left_inds)
# ------------------------------------------------------------------------------------------------


def _absorb(A, ia, B, ib):
    shared = [x for x in ia if x in ib]
    C = np.tensordot(A, B, ([ia.index(x) for x in shared], [ib.index(x) for x in shared]))
    return C, [x for x in ia if x not in shared] + [x for x in ib if x not in shared]


def _up(x):
    x = np.asarray(x)
    return x.astype(np.complex128 if np.iscomplexobj(x) else np.float64)


def site_arrays(psi):
    """per site: (array, labels) = numpy contraction of all tensors carrying the site tag"""
    L = psi.L
    per = [[] for _ in range(L)]
    for t in psi.tensors:
        sites = [i for i in range(L) if f"I{i}" in t.tags]
        if len(sites) != 1:
            raise ValueError(f"not in MPS form: a tensor carries site tags {sites}")
        per[sites[0]].append((_up(t.data), list(t.inds)))
    out = []
    for i in range(L):
        if not per[i]:
            raise ValueError(f"not in MPS form: no tensor for site {i}")
        A, ia = per[i][0]
        rest = per[i][1:]
        while rest:
            for k, (B, ib) in enumerate(rest):
                if set(ia) & set(ib):
                    A, ia = _absorb(A, ia, B, ib)
                    rest.pop(k)
                    break
            else:
                raise ValueError(f"site {i}: disconnected tensors")
        if len(set(ia)) != len(ia):
            raise ValueError(f"site {i}: repeated label")
        out.append((A, ia))
    ex = float(getattr(psi, "exponent", 0.0) or 0.0)
    if ex != 0.0:
        A, ia = out[0]
        out[0] = (A * 10.0 ** ex, ia)
    return out


def dense_of(psi, sa=None):
    sa = sa or site_arrays(psi)
    A, ia = sa[0]
    for B, ib in sa[1:]:
        A, ia = _absorb(A, ia, B, ib)
    want = [f"k{i}" for i in range(len(sa))]
    if sorted(ia) != sorted(want):
        raise ValueError(f"outer labels {ia} != {want}")
    return np.transpose(A, [ia.index(x) for x in want])


def iso_defects(psi, sa=None):
    """(dl, dr): left / right isometry defect of every site (missing bond = dimension 1)"""
    sa = sa or site_arrays(psi)
    L = len(sa)
    dl, dr = [], []
    for i, (A, ia) in enumerate(sa):
        lb = [x for x in ia if i > 0 and x in sa[i - 1][1]]
        rb = [x for x in ia if i < L - 1 and x in sa[i + 1][1]]
        ph = [f"k{i}"]
        other = [x for x in ia if x not in lb + rb + ph]
        if other or ph[0] not in ia or set(lb) & set(rb):
            raise ValueError(f"site {i}: labels {ia} are not (left bonds, right bonds, physical)")
        T = np.transpose(A, [ia.index(x) for x in lb + ph + rb])
        nl = int(np.prod([T.shape[k] for k in range(len(lb))], dtype=int))
        nr = int(np.prod([T.shape[len(lb) + 1 + k] for k in range(len(rb))], dtype=int))
        d = T.shape[len(lb)]
        M = T.reshape(nl * d, nr)
        dl.append(float(np.abs(M.conj().T @ M - np.eye(nr)).max()))
        N = T.reshape(nl, d * nr)
        dr.append(float(np.abs(N @ N.conj().T - np.eye(nl)).max()))
    return dl, dr


def true_centre(dl, dr, tol):
    L = len(dl)
    a = 0
    while a < L - 1 and dl[a] <= tol:
        a += 1
    b = L - 1
    while b > a and dr[b] <= tol:
        b -= 1
    return a, b


def record_of(info):
    """the claim made by an info dict: (cmin, cmax) or None when it claims nothing"""
    if not isinstance(info, dict):
        return None
    r = info.get("cur_orthog", None)
    if r is None or isinstance(r, str):
        return None
    if isinstance(r, (int, np.integer)):
        return int(r), int(r)
    r = tuple(int(x) for x in r)
    return min(r), max(r)


def check_record(rec, dl, dr, tol):
    if rec is None:
        return None
    L = len(dl)
    a, b = rec
    if not (0 <= a <= b <= L - 1):
        return f"record {rec} is not a site range of a chain with {L} sites"
    badl = [(k, dl[k]) for k in range(0, a) if dl[k] > tol]
    badr = [(k, dr[k]) for k in range(b + 1, L) if dr[k] > tol]
    if badl or badr:
        return (f"record {rec} unsound: not left-isometric left of it {[(k, f'{v:.1e}') for k, v in badl]}, "
                f"not right-isometric right of it {[(k, f'{v:.1e}') for k, v in badr]} "
                f"(true centre {true_centre(dl, dr, tol)})")
    return None


def check_flags(psi, tol):
    for t in psi.tensors:
        li = t.left_inds
        if not li:
            continue
        li = list(li)
        inds = list(t.inds)
        if any(x not in inds for x in li):
            return f"left_inds {li} not among labels {inds}"
        ri = [x for x in inds if x not in li]
        X = np.transpose(_up(t.data), [inds.index(x) for x in li + ri])
        nl = int(np.prod(X.shape[: len(li)], dtype=int))
        X = X.reshape(nl, -1)
        d = float(np.abs(X.conj().T @ X - np.eye(X.shape[1])).max())
        if d > tol:
            return f"tensor {sorted(t.tags)} flagged left_inds={li} has isometry defect {d:.2e}"
    return None


def apply_op(ref, G, where):
    """ref' = G_where ref; G given as (D, D) matrix, rows = output"""
    where = list(where)
    dims = [ref.shape[w] for w in where]
    D = int(np.prod(dims))
    G = np.asarray(G).reshape(D, D).reshape(dims + dims)
    n = len(where)
    out = np.tensordot(G, ref, (list(range(n, 2 * n)), where))
    return np.moveaxis(out, list(range(n)), where)


def rdm(ref, where):
    where = list(where)
    rest = [k for k in range(ref.ndim) if k not in where]
    D = int(np.prod([ref.shape[w] for w in where]))
    M = np.transpose(ref, where + rest).reshape(D, -1)
    return M @ M.conj().T


def close(a, b, atol, what):
    a, b = np.asarray(a), np.asarray(b)
    if a.shape != b.shape:
        return f"{what}: shape {a.shape} != reference {b.shape}"
    if a.size and not np.all(np.isfinite(a)):
        return f"{what}: non-finite"
    if a.size:
        d = float(np.abs(a - b).max())
        if d > atol * max(1.0, float(np.abs(b).max())):
            return f"{what}: max abs diff {d:.3e} (tol {atol:.0e})"
    return None


_S = {
    2: {"X": np.array([[0, 1], [1, 0]]) / 2, "Y": np.array([[0, -1j], [1j, 0]]) / 2, "Z": np.diag([0.5, -0.5])},
    3: {"X": np.array([[0, 1, 0], [1, 0, 1], [0, 1, 0]]) / np.sqrt(2),
        "Y": np.array([[0, -1j, 0], [1j, 0, -1j], [0, 1j, 0]]) / np.sqrt(2), "Z": np.diag([1.0, 0.0, -1.0])},
}


def rand_mat(rng, D, cplx, unitary):
    X = rng.normal(size=(D, D)) + (1j * rng.normal(size=(D, D)) if cplx else 0)
    Q, R = np.linalg.qr(X)
    Q = Q * (np.diag(R) / np.abs(np.diag(R)))
    if unitary:
        return Q
    Y = rng.normal(size=(D, D)) + (1j * rng.normal(size=(D, D)) if cplx else 0)
    Q2, _ = np.linalg.qr(Y)
    return (Q * rng.uniform(0.5, 1.5, size=D)) @ Q2


def cdf_consistent(u, p, x, tol):
    """the outcome x drawn by inverting the cdf of p at the uniform u (numpy Generator.choice) is consistent"""
    c = np.cumsum(p) / np.sum(p)
    lo = c[x - 1] if x > 0 else 0.0
    return lo - tol <= u <= c[x] + tol


# ------------------------------------------------------------------------------------------------
# history machinery
# ------------------------------------------------------------------------------------------------

SINGLE = ("float32", "complex64")


class Hist:
    def __init__(self, qtn, rng, hid, quick):
        self.qtn, self.rng, self.hid = qtn, rng, hid
        L = int(rng.choice([1, 2, 2, 3, 3, 4, 4, 5, 5, 6, 6, 7, 8]))
        self.dtype = str(rng.choice(["float64", "complex128", "complex128", "float32", "complex64"]))
        self.cplx = "complex" in self.dtype
        self.single = self.dtype in SINGLE
        dm = int(rng.integers(0, 4))
        if dm == 0:
            dims = [2] * L
        elif dm == 1:
            dims = [3] * L
        else:
            dims = [int(x) for x in rng.choice([2, 3], size=L)]
        chi = int(rng.choice([1, 2, 3, 4]))
        arrs = []
        for i in range(L):
            shp = ([chi] if i > 0 else []) + ([chi] if i < L - 1 else []) + [dims[i]]
            a = rng.normal(size=shp) + (1j * rng.normal(size=shp) if self.cplx else 0)
            arrs.append(a.astype(self.dtype))
        self.psi = qtn.MatrixProductState(arrs)
        self.chi0 = chi
        self.tol_iso = 3e-4 if self.single else 1e-8
        self.tol = 3e-4 if self.single else 1e-8
        self.normalise(self.psi, None)
        # the initial record: nothing / 'calc' / the true centre (spelled as pair or int)
        k = int(rng.integers(0, 4))
        if k == 0:
            self.info = {}
        elif k == 1:
            self.info = {"cur_orthog": "calc"}
        else:
            dl, dr = iso_defects(self.psi)
            self.info = {"cur_orthog": true_centre(dl, dr, self.tol_iso)}
        self.init = dict(L=L, dims="".join(map(str, dims)), chi=chi, dtype=self.dtype, rec0=str(self.info.get("cur_orthog")))

    # -- state helpers
    @property
    def L(self):
        return self.psi.L

    def dims(self, psi=None):
        psi = psi or self.psi
        return [int(psi.ind_size(f"k{i}")) for i in range(psi.L)]

    def normalise(self, psi, rec):
        """divide one site array inside the recorded range by the dense norm (independent of quimb's normalize)"""
        nrm = float(np.linalg.norm(dense_of(psi)))
        site = rec[0] if rec is not None and 0 <= rec[0] < psi.L else 0
        t = psi[site]
        t.modify(data=(t.data / nrm).astype(t.data.dtype))

    def cast(self, G):
        G = np.asarray(G)
        if not self.cplx:
            G = G.real
        return np.ascontiguousarray(G.astype(self.dtype))

    def mat(self, D, unitary):
        return self.cast(rand_mat(self.rng, D, self.cplx, unitary))

    # -- how the record is handed to an operation
    def rec_kwargs(self, legacy_ok, fresh_default=None):
        """returns (mode, kwargs, after) ; after(info) gives the info dict the caller holds afterwards"""
        rng = self.rng
        modes = ["info"] * 6 + ["calc", "fresh"] + (["legacy", "legacy", "none"] if legacy_ok else [])
        mode = str(rng.choice(modes))
        rec = record_of(self.info)
        if mode == "info":
            # sometimes spell a single-site record as an int
            if rec is not None and rec[0] == rec[1] and rng.integers(0, 4) == 0:
                self.info["cur_orthog"] = rec[0]
            return mode, {"info": self.info}
        if mode == "calc":
            self.info["cur_orthog"] = "calc"
            return mode, {"info": self.info}
        if mode == "fresh":
            self.info = {}
            return mode, {"info": self.info}
        if mode == "legacy":
            if rec is None:
                cur = "calc"
            elif rec[0] == rec[1] and rng.integers(0, 2):
                cur = rec[0]
            else:
                cur = rec
            self.info = {}  # the caller learns nothing from a legacy call
            return mode, {"cur_orthog": cur}
        self.info = {}
        return mode, {}


def _fmt_where(w):
    return "-".join(map(str, w)) if isinstance(w, (tuple, list)) else str(w)


# every op_* draws its parameters from h.rng (outside the thunk) and returns (params, run); run() executes the real
# quimb call and returns a dict {kind: message-or-None} for kind in record / flags / state / value, plus it updates
# h.psi / h.info to the object and record the caller goes on using.


def _loose(h, opts, method=None):
    """state tolerance of operations that split with the documented default cutoff (1e-10 on the relative discarded
    weight, i.e. up to 1e-5 on the state per split; <= 15 splits on 8 sites); tight when cutoff=0.0 is requested"""
    if opts.get("cutoff", None) == 0.0:
        return max(h.tol, 1e-7) if method == "dm" else h.tol
    return max(h.tol, 1e-4)


def _post(h, ref_expected, psi_after, rec_claim_for=None, value=None, receiver=None, extra_record=None,
          renorm=False, tol_state=None):
    """common post-condition evaluation.  psi_after: the object the caller goes on using."""
    out = {}
    try:
        sa = site_arrays(psi_after)
        dl, dr = iso_defects(psi_after, sa)
    except ValueError as e:
        out["state"] = f"result is not an MPS: {e}"
        out["record"] = out["state"]
        return out
    rec = record_of(h.info)
    msg = check_record(rec, dl, dr, h.tol_iso)
    if msg is None and extra_record is not None:
        msg = extra_record(rec, dl, dr)
    out["record"] = msg
    out["flags"] = check_flags(psi_after, h.tol_iso)
    got = dense_of(psi_after, sa)
    if renorm:
        n = np.linalg.norm(ref_expected)
        ref_expected = ref_expected / n
        ng = np.linalg.norm(got)
        if not np.isfinite(ng) or ng == 0:
            out["state"] = "state has zero / non-finite norm"
            return out
        got = got / ng
    out["state"] = close(got, ref_expected, tol_state or h.tol, "dense state after the operation")
    if receiver is not None:
        psi_old, ref_old = receiver
        try:
            m = close(dense_of(psi_old), ref_old, h.tol, "receiver of a non-in-place call changed")
        except ValueError as e:
            m = f"receiver of a non-in-place call no longer an MPS: {e}"
        if m and not out["state"]:
            out["state"] = m
    if value is not None:
        out["value"] = value() if callable(value) else value
    # repair: continue the history from a sound record
    if out["record"]:
        h.info["cur_orthog"] = true_centre(dl, dr, h.tol_iso)
    h.psi = psi_after
    if renorm:
        h.normalise(h.psi, record_of(h.info))
    return out


def op_canonicalize(h):
    rng, L = h.rng, h.L
    k = int(rng.integers(0, 5))
    if k <= 1 or L == 1:
        where = int(rng.integers(0, L))
        lohi = (where, where)
        if k == 1:
            where = (where,)
    elif k <= 3:
        a, b = (int(x) for x in rng.integers(0, L, size=2))
        where = (a, b)
        lohi = (min(a, b), max(a, b))
    else:
        where = tuple(int(x) for x in rng.integers(0, L, size=3))
        lohi = (min(where), max(where))
    spelling = str(rng.choice(["canonicalize", "canonicalize_", "canonize"]))
    mode, kw = h.rec_kwargs(legacy_ok=True)
    params = dict(op="canonicalize", spelling=spelling, where=_fmt_where(where), rec=mode)

    def run():
        psi = h.psi
        ref = dense_of(psi)
        r = getattr(psi, spelling)(where, **kw)
        inplace = spelling != "canonicalize"
        if inplace and r is not psi:
            return {"state": "in-place spelling returned a different object"}
        after = psi if inplace else r

        def reached(rec, dl, dr):
            m = check_record(lohi, dl, dr, h.tol_iso)
            if m:
                return f"requested canonical form not reached: as a {m}"
            if rec is not None and not (lohi[0] <= rec[0] and rec[1] <= lohi[1]):
                return f"record {rec} not inside requested {lohi}"
            if rec is None and "info" in kw:
                return f"no record written: {h.info}"

        return _post(h, ref, after, extra_record=reached, receiver=None if inplace else (psi, ref))

    return params, run, ("record", "flags", "state")


def _sound_record(h):
    rec = record_of(h.info)
    if rec is None:
        dl, dr = iso_defects(h.psi)
        rec = true_centre(dl, dr, h.tol_iso)
    return rec


def op_shift(h):
    rng, L = h.rng, h.L
    rec = _sound_record(h)
    if L == 1:
        return None
    if rng.integers(0, 2) and rec[0] < L - 1:
        cur = rec[0]
        new = int(rng.integers(cur + 1, L))
        newrec = (new, max(rec[1], new))
    elif rec[1] > 0:
        cur = rec[1]
        new = int(rng.integers(0, cur + 1))  # new == cur allowed: no-op branch
        newrec = (min(rec[0], new), new)
    else:
        cur = rec[0]
        new = int(rng.integers(cur, L))
        if new == cur:
            newrec = rec
        else:
            newrec = (new, max(rec[1], new))
    params = dict(op="shift_orthogonality_center", cur=cur, new=new)

    def run():
        psi = h.psi
        ref = dense_of(psi)
        psi.shift_orthogonality_center(cur, new)
        h.info = dict(h.info)
        h.info["cur_orthog"] = newrec  # the caller's bookkeeping per the documented effect
        return _post(h, ref, psi)

    return params, run, ("record", "flags", "state")


def op_lr_canon(h):
    rng, L = h.rng, h.L
    rec = _sound_record(h)
    left = bool(rng.integers(0, 2))
    spelling = str(rng.choice(["", "_", "ize"]))
    name = ("left_canon" if left else "right_canon") + {"": "icalize", "_": "icalize_", "ize": "ize"}[spelling]
    normalize = False
    if left:
        # sweep sites [a, s): every site left of a is already a left isometry (a <= cmin)
        start = None if rng.integers(0, 2) else int(rng.integers(0, rec[0] + 1))
        stop = None if rng.integers(0, 3) == 0 else int(rng.integers(0, L))
        s = L - 1 if stop is None else stop
        a = 0 if start is None else start
        newrec = (max(rec[0], s), max(rec[1], s)) if s > a else rec
    else:
        start = None if rng.integers(0, 2) else int(rng.integers(rec[1], L))
        stop = None if rng.integers(0, 3) == 0 else int(rng.integers(0, L))
        s = 0 if stop is None else stop
        a = L - 1 if start is None else start
        newrec = (min(rec[0], s), min(rec[1], s)) if s < a else rec
    if stop is None and rng.integers(0, 2) == 0:
        normalize = True
    scale = float(rng.uniform(0.5, 2.0))
    kw = {}
    if stop is not None:
        kw["stop"] = stop
    if start is not None:
        kw["start"] = start
    if normalize:
        kw["normalize"] = True
    params = dict(op=name, start=str(start), stop=str(stop), normalize=normalize)

    def run():
        psi = h.psi
        if normalize:
            # hand over an unnormalised state: the factor sits on a site inside the recorded range
            t = psi[rec[0]]
            t.modify(data=(t.data * scale).astype(t.data.dtype))
        ref = dense_of(psi)
        r = getattr(psi, name)(**kw)
        inplace = not name.endswith("icalize")
        if inplace and r is not psi:
            return {"state": "in-place spelling returned a different object"}
        h.info = dict(h.info)
        h.info["cur_orthog"] = newrec
        exp = ref / np.linalg.norm(ref) if normalize else ref
        out = _post(h, exp, psi if inplace else r, receiver=None if inplace else (psi, ref))
        if normalize and not inplace:
            h.normalise(psi, rec)
        return out

    return params, run, ("record", "flags", "state")


def _inside(rec, sites):
    return rec is None or all(rec[0] <= s <= rec[1] for s in sites)


def op_gate1(h):
    rng, L = h.rng, h.L
    i = int(rng.integers(0, L))
    d = h.dims()[i]
    contract = [True, "swap+split", "auto-mps", "nonlocal", False][int(rng.integers(0, 5))]
    rec = record_of(h.info)
    unitary = bool(rng.integers(0, 3)) or not _inside(rec, [i])
    G = h.mat(d, unitary)
    where = i if rng.integers(0, 2) else (i,)
    spelling = str(rng.choice(["gate", "gate_"]))
    # the record is handed over as the info dict (the generic path ignores cur_orthog=)
    kw = {"info": h.info} if rng.integers(0, 4) else {}
    params = dict(op="gate1", contract=str(contract), spelling=spelling, where=_fmt_where(where), unitary=unitary,
                  threaded="info" in kw)

    def run():
        psi = h.psi
        ref = dense_of(psi)
        r = getattr(psi, spelling)(G, where, contract=contract, **kw)
        inplace = spelling == "gate_"
        if inplace and r is not psi:
            return {"state": "in-place spelling returned a different object"}
        after = psi if inplace else r
        if contract is False:
            # the gate tensor was left uncontracted on the site: the caller folds it into the site tensor
            after.contract_tags_(f"I{i}", which="any")
        return _post(h, apply_op(ref, G, [i]), after, receiver=None if inplace else (psi, ref), renorm=not unitary)

    return params, run, ("record", "flags", "state")


def _pick_sites(rng, L, n):
    return tuple(int(x) for x in rng.choice(L, size=n, replace=False))


def op_gate_multi(h):
    """two- and three-site gates through MatrixProductState.gate in the MPS modes"""
    rng, L = h.rng, h.L
    n = 3 if (L >= 3 and rng.integers(0, 4) == 0) else 2
    if L < 2:
        return None
    where = _pick_sites(rng, L, n)
    dims = h.dims()
    D = int(np.prod([dims[w] for w in where]))
    if D > 18:
        where = where[:2]
        n = 2
        D = int(np.prod([dims[w] for w in where]))
    contract = str(rng.choice(["swap+split", "auto-mps", "nonlocal"])) if n == 2 else str(rng.choice(["auto-mps", "nonlocal"]))
    unitary = bool(rng.integers(0, 2))
    G = h.mat(D, unitary)
    spelling = str(rng.choice(["gate", "gate_"]))
    mode, kw = h.rec_kwargs(legacy_ok=True)
    opts = {}
    routed = "swap" if (n == 2 and contract != "nonlocal") else "nonlocal"
    swap_back = True
    if routed == "swap":
        if rng.integers(0, 3) == 0:
            swap_back = False
            opts["swap_back"] = False
        if rng.integers(0, 2) == 0:
            opts["cutoff"] = 0.0
    else:
        if rng.integers(0, 2):
            opts["sweep_reverse"] = bool(rng.integers(0, 2))
        if rng.integers(0, 2):
            opts["method"] = str(rng.choice(["direct", "dm", "zipup"]))
        if rng.integers(0, 2) == 0:
            opts["cutoff"] = 0.0
    tform = bool(rng.integers(0, 4) == 0)
    params = dict(op="gate_multi", contract=contract, spelling=spelling, where=_fmt_where(where), unitary=unitary,
                  rec=mode, opts=str(sorted(opts.items())), tensor_form=tform)

    def run():
        psi = h.psi
        ref = dense_of(psi)
        dd = [dims[w] for w in where]
        Gin = G.reshape(dd + dd) if tform else G
        r = getattr(psi, spelling)(Gin, where, contract=contract, **kw, **opts)
        inplace = spelling == "gate_"
        if inplace and r is not psi:
            return {"state": "in-place spelling returned a different object"}
        exp = apply_op(ref, G, where)
        if not swap_back:
            m, M = min(where), max(where)
            exp = np.moveaxis(exp, M, m + 1)
        return _post(h, exp, psi if inplace else r, receiver=None if inplace else (psi, ref), renorm=not unitary,
                     tol_state=_loose(h, opts, opts.get("method")))

    return params, run, ("record", "flags", "state")


def op_gate_split(h):
    rng, L = h.rng, h.L
    if L < 2:
        return None
    i = int(rng.integers(0, L - 1))
    where = (i, i + 1) if rng.integers(0, 2) else (i + 1, i)
    dims = h.dims()
    D = dims[i] * dims[i + 1]
    unitary = bool(rng.integers(0, 2))
    G = h.mat(D, unitary)
    absorb = str(rng.choice(["left", "right", "both", "default"]))
    spelling = str(rng.choice(["gate_split", "gate_split_"]))
    opts = {} if absorb == "default" else {"absorb": absorb}
    if rng.integers(0, 2) == 0:
        opts["cutoff"] = 0.0
    # which site holds the non-isometric factor afterwards (documented meaning of absorb for split(left | right))
    if absorb == "left":
        newrec = (where[0], where[0])
    elif absorb == "right":
        newrec = (where[1], where[1])
    else:
        newrec = (i, i + 1)
    params = dict(op="gate_split", spelling=spelling, where=_fmt_where(where), absorb=absorb, unitary=unitary,
                  opts=str(sorted(opts.items())))

    def run():
        psi = h.psi
        # the caller's protocol: move the centre onto the pair first (own contract: op canonicalize), then gate
        rec = _sound_record(h)
        h.info = {"cur_orthog": rec}
        psi.canonicalize_((i, i + 1), info=h.info)
        ref = dense_of(psi)
        r = getattr(psi, spelling)(G, where, **opts)
        inplace = spelling == "gate_split_"
        if inplace and r is not psi:
            return {"state": "in-place spelling returned a different object"}
        h.info["cur_orthog"] = newrec
        return _post(h, apply_op(ref, G, where), psi if inplace else r, receiver=None if inplace else (psi, ref),
                     renorm=not unitary, tol_state=_loose(h, opts))

    return params, run, ("record", "flags", "state")


def op_auto_swap(h):
    rng, L = h.rng, h.L
    if L < 2:
        return None
    where = _pick_sites(rng, L, 2)
    dims = h.dims()
    D = dims[where[0]] * dims[where[1]]
    unitary = bool(rng.integers(0, 2))
    G = h.mat(D, unitary)
    swap_back = bool(rng.integers(0, 2))
    spelling = str(rng.choice(["gate_with_auto_swap", "gate_with_auto_swap_"]))
    mode, kw = h.rec_kwargs(legacy_ok=True)
    opts = {"cutoff": 0.0} if rng.integers(0, 2) == 0 else {}
    params = dict(op="gate_with_auto_swap", spelling=spelling, where=_fmt_where(where), swap_back=swap_back,
                  unitary=unitary, rec=mode, opts=str(sorted(opts.items())))

    def run():
        psi = h.psi
        ref = dense_of(psi)
        r = getattr(psi, spelling)(G, where, swap_back=swap_back, **kw, **opts)
        inplace = spelling.endswith("_")
        if inplace and r is not psi:
            return {"state": "in-place spelling returned a different object"}
        exp = apply_op(ref, G, where)
        if not swap_back:
            m, M = min(where), max(where)
            exp = np.moveaxis(exp, M, m + 1)
        return _post(h, exp, psi if inplace else r, receiver=None if inplace else (psi, ref), renorm=not unitary,
                     tol_state=_loose(h, opts))

    return params, run, ("record", "flags", "state")


def _sub_mpo(h, sites, own_arrays):
    """an operator on `sites` (sorted) as sub-MPO together with its dense matrix (rows = upper = output)"""
    qtn, rng = h.qtn, h.rng
    dims = h.dims()
    dd = [dims[s] for s in sites]
    n = len(sites)
    if not own_arrays:
        D = int(np.prod(dd))
        G = h.mat(D, bool(rng.integers(0, 2)))
        mpo = qtn.MatrixProductOperator.from_dense(G, dims=dd, sites=sites, L=h.L)
        return mpo, _up(G)
    chi = int(rng.integers(1, 4))
    arrs = []
    for k in range(n):
        shp = ([chi] if k > 0 else []) + ([chi] if k < n - 1 else []) + [dd[k], dd[k]]
        a = rng.normal(size=shp) + (1j * rng.normal(size=shp) if h.cplx else 0)
        # keep it well conditioned: identity plus a perturbation on the physical legs
        a = 0.35 * a
        eye = np.eye(dd[k]).reshape([1] * (len(shp) - 2) + [dd[k], dd[k]])
        a = a + eye
        arrs.append(a.astype(h.dtype))
    mpo = qtn.MatrixProductOperator(arrs, sites=sites, L=h.L, shape="lrud")
    # dense: contract the bond chain with numpy
    A = _up(arrs[0])
    if n == 1:
        O = A
    else:
        cur = A  # (r, u, d)
        cur = np.moveaxis(cur, 0, -1)  # (u, d, r)
        for k in range(1, n):
            B = _up(arrs[k])
            if k < n - 1:  # (l, r, u, d)
                cur = np.tensordot(cur, B, ([-1], [0]))  # (..., r, u, d)
                cur = np.moveaxis(cur, -3, -1)
            else:
                cur = np.tensordot(cur, B, ([-1], [0]))
        O = cur  # (u0, d0, u1, d1, ...)
        O = np.transpose(O, [2 * k for k in range(n)] + [2 * k + 1 for k in range(n)])
    D = int(np.prod(dd))
    return mpo, O.reshape(D, D)


def op_submpo(h):
    rng, L = h.rng, h.L
    if L < 1:
        return None
    n = int(rng.integers(1, min(L, 3) + 1))
    sites = tuple(sorted(_pick_sites(rng, L, n)))
    dims = h.dims()
    if int(np.prod([dims[s] for s in sites])) > 18:
        sites = sites[:2]
    own = bool(rng.integers(0, 2)) and (len(sites) >= 2 or L == 1)
    mpo, O = _sub_mpo(h, sites, own)
    transpose = bool(rng.integers(0, 3) == 0)
    give_where = bool(rng.integers(0, 2))
    spelling = str(rng.choice(["gate_with_submpo", "gate_with_submpo_"]))
    mode, kw = h.rec_kwargs(legacy_ok=True)
    opts = {}
    if rng.integers(0, 2):
        opts["sweep_reverse"] = bool(rng.integers(0, 2))
    if rng.integers(0, 2):
        opts["method"] = str(rng.choice(["direct", "dm", "zipup"]))
    if rng.integers(0, 2) == 0:
        opts["cutoff"] = 0.0
    if give_where:
        opts["where"] = sites if rng.integers(0, 2) else sites[::-1]
    params = dict(op="gate_with_submpo", spelling=spelling, sites=_fmt_where(sites), nsites=len(sites),
                  method=opts.get("method", "default"), transpose=transpose, own_arrays=own,
                  rec=mode, opts=str(sorted((k, str(v)) for k, v in opts.items())))

    def run():
        psi = h.psi
        ref = dense_of(psi)
        r = getattr(psi, spelling)(mpo, transpose=transpose, **kw, **opts)
        inplace = spelling.endswith("_")
        if inplace and r is not psi:
            return {"state": "in-place spelling returned a different object"}
        exp = apply_op(ref, O.T if transpose else O, sites)

        def placed(rec, dl, dr):
            if rec is None:
                return None if "info" not in kw else f"no record written: {h.info}"
            if not (min(sites) <= rec[0] and rec[1] <= max(sites)):
                return f"record {rec} outside the gated region {sites}"
            return None

        return _post(h, exp, psi if inplace else r, receiver=None if inplace else (psi, ref), renorm=True,
                     extra_record=placed, tol_state=_loose(h, opts, opts.get("method")))

    return params, run, ("record", "flags", "state")


def op_nonlocal(h):
    rng, L = h.rng, h.L
    if L < 2:
        return None
    n = 3 if (L >= 3 and rng.integers(0, 3) == 0) else 2
    where = _pick_sites(rng, L, n)
    dims = h.dims()
    if int(np.prod([dims[w] for w in where])) > 18:
        where = where[:2]
    D = int(np.prod([dims[w] for w in where]))
    unitary = bool(rng.integers(0, 2))
    G = h.mat(D, unitary)
    transpose = bool(rng.integers(0, 3) == 0)
    spelling = str(rng.choice(["gate_nonlocal", "gate_nonlocal_"]))
    mode, kw = h.rec_kwargs(legacy_ok=True)
    opts = {}
    if rng.integers(0, 2):
        opts["sweep_reverse"] = bool(rng.integers(0, 2))
    if rng.integers(0, 2):
        opts["method"] = str(rng.choice(["direct", "dm", "zipup"]))
    if rng.integers(0, 2) == 0:
        opts["cutoff"] = 0.0
    if rng.integers(0, 4) == 0:
        opts["dims"] = tuple(dims[w] for w in where)
    params = dict(op="gate_nonlocal", spelling=spelling, where=_fmt_where(where), transpose=transpose, unitary=unitary,
                  rec=mode, opts=str(sorted((k, str(v)) for k, v in opts.items())))

    def run():
        psi = h.psi
        ref = dense_of(psi)
        r = getattr(psi, spelling)(G, where, transpose=transpose, **kw, **opts)
        inplace = spelling.endswith("_")
        if inplace and r is not psi:
            return {"state": "in-place spelling returned a different object"}
        exp = apply_op(ref, _up(G).T if transpose else G, where)
        return _post(h, exp, psi if inplace else r, receiver=None if inplace else (psi, ref), renorm=True,
                     tol_state=_loose(h, opts, opts.get("method")))

    return params, run, ("record", "flags", "state")


def op_swap(h):
    rng, L = h.rng, h.L
    if L < 2:
        return None
    i, j = _pick_sites(rng, L, 2)
    absorb = str(rng.choice(["default", "default", "left", "right", "both"]))
    adjacent = abs(i - j) == 1
    spelling = str(rng.choice(["swap_sites_with_compress", "swap_sites_with_compress_"]))
    mode, kw = h.rec_kwargs(legacy_ok=True)
    opts = {} if absorb == "default" else {"absorb": absorb}
    if rng.integers(0, 2) == 0:
        opts["cutoff"] = 0.0
    params = dict(op="swap_sites_with_compress", spelling=spelling, i=i, j=j, adjacent=adjacent, absorb=absorb, rec=mode,
                  opts=str(sorted(opts.items())))

    def run():
        psi = h.psi
        ref = dense_of(psi)
        r = getattr(psi, spelling)(i, j, **kw, **opts)
        inplace = spelling.endswith("_")
        if inplace and r is not psi:
            return {"state": "in-place spelling returned a different object"}
        return _post(h, np.swapaxes(ref, i, j), psi if inplace else r, receiver=None if inplace else (psi, ref),
                     tol_state=_loose(h, opts))

    return params, run, ("record", "flags", "state")


def op_swap_to(h):
    rng, L = h.rng, h.L
    if L < 2:
        return None
    i, f = (int(x) for x in rng.integers(0, L, size=2))
    spelling = str(rng.choice(["swap_site_to", "swap_site_to_"]))
    mode, kw = h.rec_kwargs(legacy_ok=True)
    opts = {"cutoff": 0.0} if rng.integers(0, 2) == 0 else {}
    params = dict(op="swap_site_to", spelling=spelling, i=i, f=f, rec=mode, opts=str(sorted(opts.items())))

    def run():
        psi = h.psi
        ref = dense_of(psi)
        r = getattr(psi, spelling)(i, f, **kw, **opts)
        inplace = spelling.endswith("_")
        if inplace and r is not psi:
            return {"state": "in-place spelling returned a different object"}
        return _post(h, np.moveaxis(ref, i, f), psi if inplace else r, receiver=None if inplace else (psi, ref),
                     tol_state=_loose(h, opts))

    return params, run, ("record", "flags", "state")


def op_compress_site(h):
    rng, L = h.rng, h.L
    i = int(rng.integers(0, L))
    rec = record_of(h.info)
    if rec is not None and rec[0] == rec[1] and rng.integers(0, 2):
        # the centre is already there: the caller may skip the canonicalisation
        i, canonize = rec[0], False
        mode, kw = "info", {"info": h.info}
    else:
        canonize = True
        mode, kw = h.rec_kwargs(legacy_ok=True)
    opts = {}
    if rng.integers(0, 2) == 0:
        opts["cutoff"] = 0.0
    if rng.integers(0, 3) == 0:
        # a cap that never binds: truncation quality is not this property's business (compress_site truncates on the
        # flat spectrum of the isometric neighbour, so a binding cap changes the state even when the Schmidt rank fits)
        opts["max_bond"] = 100000
    if canonize and rng.integers(0, 2):
        opts["canonize"] = True
    elif not canonize:
        opts["canonize"] = False
    params = dict(op="compress_site", i=i, canonize=canonize, rec=mode, opts=str(sorted(opts.items())))

    def run():
        psi = h.psi
        ref = dense_of(psi)
        psi.compress_site(i, **kw, **opts)

        def near(rec2, dl, dr):
            if rec2 is not None and not (max(0, i - 1) <= rec2[0] and rec2[1] <= min(L - 1, i + 1)):
                return f"record {rec2} not within one site of {i}"

        return _post(h, ref, psi, extra_record=near, tol_state=_loose(h, opts))

    return params, run, ("record", "flags", "state")


def op_svals(h):
    rng, L = h.rng, h.L
    if L < 2:
        return None
    i = int(rng.integers(1, L))
    fn = str(rng.choice(["singular_values", "schmidt_values", "entropy", "schmidt_gap", "bipartite_schmidt_state"]))
    method = str(rng.choice(["svd", "svd", "svd:eig", "default"]))
    mode, kw = h.rec_kwargs(legacy_ok=True)
    opts = {} if method == "default" else {"method": method}
    get = str(rng.choice(["default", "ket", "ket-dense", "rho-dense"]))
    if fn == "bipartite_schmidt_state":
        method = "default"
        opts = {} if get == "default" else {"get": get}
    params = dict(op=fn, i=i, method=method, rec=mode, precision="single" if h.single else "double")
    if fn == "bipartite_schmidt_state":
        params["get"] = get

    def run():
        psi = h.psi
        ref = dense_of(psi)
        got = getattr(psi, fn)(i, **kw, **opts)
        dims = ref.shape
        s = np.linalg.svd(ref.reshape(int(np.prod(dims[:i])), -1), compute_uv=False)
        p = s ** 2
        vt = h.tol * 10

        def value():
            if fn == "bipartite_schmidt_state":
                # the state in its Schmidt basis: diag(s) as a (chi, chi) matrix (tensor 'kA','kB'), a column vector, or
                # the projector onto it
                if get in ("default", "ket"):
                    if tuple(got.inds) != ("kA", "kB"):
                        return f"labels {got.inds}"
                    M = _up(got.data)
                elif get == "ket-dense":
                    v = _up(np.asarray(got))
                    n = int(round(np.sqrt(v.size)))
                    if v.shape != (n * n, 1):
                        return f"shape {v.shape}"
                    M = v.reshape(n, n)
                else:
                    R = _up(np.asarray(got))
                    n = int(round(np.sqrt(R.shape[0])))
                    if R.shape != (n * n, n * n):
                        return f"shape {R.shape}"
                    w, V = np.linalg.eigh(R)
                    if np.abs(w[:-1]).max(initial=0.0) > vt:
                        return "rho-dense is not a rank-one projector"
                    M = (V[:, -1] * np.sqrt(abs(w[-1]))).reshape(n, n)
                    M = M * np.exp(-1j * np.angle(M[0, 0])) if abs(M[0, 0]) > 0 else M
                if M.ndim != 2 or M.shape[0] != M.shape[1]:
                    return f"shape {M.shape}"
                if np.abs(M - np.diag(np.diag(M))).max(initial=0.0) > vt:
                    return "not diagonal in the Schmidt basis"
                g = np.sort(np.abs(np.diag(M)))[::-1]
                n = max(len(g), len(s))
                return close(np.concatenate([g, np.zeros(n - len(g))]), np.concatenate([s, np.zeros(n - len(s))]), vt,
                             "Schmidt coefficients")
            if fn in ("singular_values", "schmidt_values"):
                g = np.sort(np.abs(np.asarray(got, dtype=float).ravel()))[::-1]
                if np.ndim(got) != 1:
                    return f"{fn} returned an array of shape {np.shape(got)}"
                r_ = s if fn == "singular_values" else p
                n = max(len(g), len(r_))
                g = np.concatenate([g, np.zeros(n - len(g))])
                r_ = np.concatenate([r_, np.zeros(n - len(r_))])
                if fn == "singular_values":
                    # sqrt amplifies the error of values computed through the Gram matrix
                    return close(g ** 2, r_ ** 2, vt, fn) if method == "svd:eig" else close(g, r_, vt, fn)
                return close(g, r_, vt, fn)
            if np.ndim(got) != 0:
                return f"{fn} returned shape {np.shape(got)}"
            if fn == "entropy":
                q = p[p > 1e-300]
                return close(float(got), float(-(q * np.log2(q)).sum()), vt * 20, fn)
            r_ = p[0] if len(p) == 1 else p[0] - p[1]
            return close(float(got), float(r_), vt, fn)

        def at(rec2, dl, dr):
            if rec2 is not None and rec2 != (i, i):
                return f"record {rec2} != ({i},{i})"
            if rec2 is None and "info" in kw:
                return f"no record written: {h.info}"

        return _post(h, ref, psi, value=value, extra_record=at)

    return params, run, ("record", "flags", "state", "value")


def op_magnetization(h):
    rng, L = h.rng, h.L
    i = int(rng.integers(0, L))
    direction = str(rng.choice(["X", "Y", "Z", "default"]))
    mode, kw = h.rec_kwargs(legacy_ok=True)
    args = () if direction == "default" else (direction,)
    params = dict(op="magnetization", i=i, direction=direction, rec=mode, cplx=h.cplx)

    def run():
        psi = h.psi
        ref = dense_of(psi)
        got = psi.magnetization(i, *args, **kw)
        S = _S[ref.shape[i]]["Z" if direction == "default" else direction]
        want = np.vdot(ref, apply_op(ref, S, [i]))

        def value():
            if np.ndim(got) != 0:
                return f"returned shape {np.shape(got)}"
            return close(complex(got), complex(want), h.tol * 10, f"<S_{direction}> at {i}")

        def at(rec2, dl, dr):
            if rec2 is not None and rec2 != (i, i):
                return f"record {rec2} != ({i},{i})"

        return _post(h, ref, psi, value=value, extra_record=at)

    return params, run, ("record", "flags", "state", "value")


def _pick_where(rng, L, dims, maxD=18):
    k = int(rng.integers(0, 6))
    if k == 0 or L == 1:
        i = int(rng.integers(0, L))
        return i, (i,)
    if k == 1:
        i = int(rng.integers(0, L))
        return (i,), (i,)
    n = 2 if (k < 5 or L < 3) else 3
    w = _pick_sites(rng, L, n)
    while int(np.prod([dims[x] for x in w])) > maxD:
        w = w[:-1]
    return w, w


def op_local(h):
    """partial_trace_to_dense_canonical / local_expectation_canonical"""
    rng, L = h.rng, h.L
    dims = h.dims()
    where, sites = _pick_where(rng, L, dims)
    fn = str(rng.choice(["partial_trace_to_dense_canonical", "local_expectation_canonical"]))
    normalized = [None, True, False][int(rng.integers(0, 3))]
    D = int(np.prod([dims[s] for s in sites]))
    G = h.mat(D, False)
    mode = str(rng.choice(["info", "info", "info", "calc", "fresh", "none"]))
    if mode == "calc":
        h.info["cur_orthog"] = "calc"
    elif mode == "fresh":
        h.info = {}
    kw = {} if mode == "none" else {"info": h.info}
    if mode == "none":
        h.info = {}
    if normalized is not None:
        kw["normalized"] = normalized
    params = dict(op=fn, where=_fmt_where(where), int_where=isinstance(where, int), normalized=str(normalized), rec=mode)

    def run():
        psi = h.psi
        ref = dense_of(psi)
        rho = rdm(ref, sites)
        if fn.startswith("partial"):
            got = psi.partial_trace_to_dense_canonical(where, **kw)
            value = lambda: close(got, rho, h.tol * 10, "reduced density matrix")  # noqa
        else:
            got = psi.local_expectation_canonical(G, where, **kw)
            value = lambda: (f"returned shape {np.shape(got)}" if np.ndim(got) != 0 else  # noqa
                             close(complex(got), complex(np.trace(_up(G) @ rho)), h.tol * 10, "tr(G rho)"))

        def inside(rec2, dl, dr):
            if rec2 is not None and not (min(sites) <= rec2[0] and rec2[1] <= max(sites)):
                return f"record {rec2} not inside {sites}"
            if rec2 is None and "info" in kw:
                return f"no record written: {h.info}"

        return _post(h, ref, psi, value=value, extra_record=inside)

    return params, run, ("record", "flags", "state", "value")


def op_compute_local(h):
    rng, L = h.rng, h.L
    dims = h.dims()
    nt = int(rng.integers(1, 5))
    terms = {}
    int_keys = False
    for _ in range(nt):
        where, sites = _pick_where(rng, L, dims, maxD=9)
        if isinstance(where, int):
            if rng.integers(0, 4):
                where = (where,)
            else:
                int_keys = True
        D = int(np.prod([dims[s] for s in sites]))
        terms[where] = h.mat(D, False)
    return_all = bool(rng.integers(0, 2))
    inplace = [None, True, False][int(rng.integers(0, 3))]
    normalized = [None, True, False][int(rng.integers(0, 3))]
    mode = str(rng.choice(["info", "info", "info", "calc", "fresh", "none"]))
    if mode == "calc":
        h.info["cur_orthog"] = "calc"
    elif mode == "fresh":
        h.info = {}
    kw = {} if mode == "none" else {"info": h.info}
    if mode == "none":
        h.info = {}
    if inplace is not None:
        kw["inplace"] = inplace
    if normalized is not None:
        kw["normalized"] = normalized
    params = dict(op="compute_local_expectation_canonical", terms=";".join(_fmt_where(w) for w in terms), int_keys=int_keys,
                  return_all=return_all, inplace=str(inplace), normalized=str(normalized), rec=mode)

    def run():
        psi = h.psi
        ref = dense_of(psi)
        got = psi.compute_local_expectation_canonical(terms, return_all=return_all, **kw)

        def value():
            want = {w: complex(np.trace(_up(G) @ rdm(ref, (w,) if isinstance(w, int) else w))) for w, G in terms.items()}
            if return_all:
                if not isinstance(got, dict) or set(got) != set(want):
                    return f"keys {list(got) if isinstance(got, dict) else type(got)} != {list(want)}"
                for w in want:
                    m = close(complex(got[w]), want[w], h.tol * 10, f"term {w}")
                    if m:
                        return m
                return None
            if np.ndim(got) != 0:
                return f"returned shape {np.shape(got)}"
            return close(complex(got), sum(want.values()), h.tol * 10 * len(want), "sum of terms")

        return _post(h, ref, psi, value=value)

    return params, run, ("record", "flags", "state", "value")


def op_measure(h):
    rng, L = h.rng, h.L
    site = int(rng.integers(0, L))
    remove = bool(rng.integers(0, 3) == 0) and L >= 2
    get = "outcome" if rng.integers(0, 4) == 0 else None
    inplace = bool(rng.integers(0, 2))
    spelling = "measure_" if inplace and rng.integers(0, 2) else "measure"
    renorm = [None, True, False][int(rng.integers(0, 3))]
    fixed = bool(rng.integers(0, 2))
    seed = int(rng.integers(0, 1 << 30))
    pick = float(rng.random())
    mode = str(rng.choice(["info", "info", "info", "calc", "fresh", "none"]))
    if mode == "calc":
        h.info["cur_orthog"] = "calc"
    elif mode == "fresh":
        h.info = {}
    kw = {} if mode == "none" else {"info": h.info}
    if mode == "none":
        h.info = {}
    if spelling == "measure" and (inplace or rng.integers(0, 2)):
        kw["inplace"] = inplace
    if renorm is not None:
        kw["renorm"] = renorm
    if remove or rng.integers(0, 3) == 0:
        kw["remove"] = remove
    if get is not None:
        kw["get"] = get
    params = dict(op="measure", site=site, last=site == L - 1, remove=remove, get=str(get), inplace=inplace, spelling=spelling,
                  renorm=str(renorm), fixed_outcome=fixed, rec=mode)

    def run():
        psi = h.psi
        ref = dense_of(psi)
        d = ref.shape[site]
        p = np.real(np.diag(rdm(ref, [site])))
        p = p / p.sum()
        kw2 = dict(kw)
        if fixed:
            ok = [x for x in range(d) if p[x] > 1e-3]
            outcome_in = ok[int(pick * len(ok)) % len(ok)]
            kw2["outcome"] = outcome_in
        else:
            kw2["seed"] = seed
        r = getattr(psi, spelling)(site, **kw2)
        if get == "outcome":
            outcome, after = r, psi
        else:
            if not (isinstance(r, tuple) and len(r) == 2):
                return {"value": f"returned {type(r).__name__}"}
            outcome, after = r
            if inplace and after is not psi:
                return {"state": "in-place measurement returned a different object"}
            if not inplace and after is psi:
                return {"state": "non-in-place measurement returned the receiver"}

        def value():
            if not isinstance(outcome, (int, np.integer)) or not (0 <= outcome < d):
                return f"outcome {outcome!r}"
            if fixed:
                return None if outcome == outcome_in else f"outcome {outcome} != requested {outcome_in}"
            u = np.random.default_rng(seed).random()
            if not cdf_consistent(u, p, int(outcome), 2e-3 if h.single else 1e-7):
                return f"outcome {outcome} inconsistent with the dense-state probabilities {p.tolist()} at uniform draw {u:.6f}"
            return None

        if get == "outcome":
            return _post(h, ref, psi, value=value)
        o = int(outcome) if isinstance(outcome, (int, np.integer)) and 0 <= outcome < d else 0
        proj = np.take(ref, o, axis=site)
        if not remove:
            full = np.zeros_like(ref)
            idx = [slice(None)] * ref.ndim
            idx[site] = o
            full[tuple(idx)] = proj
            proj = full
        if renorm is False:
            exp = proj
        else:
            exp = proj / np.sqrt(p[o])
        out = _post(h, exp, after, value=value, receiver=None if inplace else (psi, ref))
        if renorm is False:
            h.normalise(h.psi, record_of(h.info))
        return out

    return params, run, ("record", "flags", "state", "value")


def op_sample(h):
    rng, L = h.rng, h.L
    fn = "sample_configuration" if rng.integers(0, 3) else "sample"
    seed = int(rng.integers(0, 1 << 30))
    C = int(rng.integers(1, 4))
    mode = str(rng.choice(["info", "info", "info", "calc", "fresh", "none"]))
    if mode == "calc":
        h.info["cur_orthog"] = "calc"
    elif mode == "fresh":
        h.info = {}
    kw = {} if mode == "none" else {"info": h.info}
    if mode == "none":
        h.info = {}
    gen_seed = bool(rng.integers(0, 3) == 0)
    params = dict(op=fn, rec=mode, generator_seed=gen_seed, C=C if fn == "sample" else 1)

    def run():
        psi = h.psi
        ref = dense_of(psi)
        sd = np.random.default_rng(seed) if gen_seed else seed
        if fn == "sample":
            got = list(psi.sample(C, seed=sd, **kw))
        else:
            got = [psi.sample_configuration(seed=sd, **kw)]

        def value():
            r2 = np.random.default_rng(seed)
            prob = np.abs(ref) ** 2
            prob = prob / prob.sum()
            want_n = C if fn == "sample" else 1
            if len(got) != want_n:
                return f"{len(got)} samples != {want_n}"
            for config, omega in got:
                config = [int(x) for x in config]
                if len(config) != L:
                    return f"configuration {config}"
                cond = prob
                for i in range(L):
                    pi = cond.reshape(cond.shape[0], -1).sum(axis=1)
                    u = r2.random()
                    x = config[i]
                    if not (0 <= x < len(pi)):
                        return f"configuration {config}"
                    if not cdf_consistent(u, pi, x, 2e-3 if h.single else 1e-7):
                        return (f"site {i}: outcome {x} inconsistent with conditional {(pi / pi.sum()).tolist()} "
                                f"at uniform draw {u:.6f}")
                    cond = cond[x]
                m = close(float(np.real(omega)), float(prob[tuple(config)]), h.tol * 10, "probability of the sample")
                if m:
                    return m
            return None

        return _post(h, ref, psi, value=value)

    return params, run, ("record", "flags", "state", "value")


OPS = [
    (op_canonicalize, 3), (op_shift, 1), (op_lr_canon, 1), (op_gate1, 3), (op_gate_multi, 3), (op_gate_split, 2),
    (op_auto_swap, 2), (op_submpo, 2), (op_nonlocal, 2), (op_swap, 3), (op_swap_to, 2), (op_compress_site, 1),
    (op_svals, 3), (op_magnetization, 2), (op_local, 3), (op_compute_local, 2), (op_measure, 3), (op_sample, 2),
]

KIND_TEXT = {
    "record": "the record in info['cur_orthog'] is sound for the object the caller goes on using",
    "flags": "every tensor flagged with left_inds is an isometry",
    "state": "the state equals the dense reference (and a non-in-place call leaves its receiver alone)",
    "value": "the returned quantity equals its dense-state definition",
}


def _numpy_choice_assumption():
    """trusted detail: Generator.choice(n, p=p) consumes one .random() double and inverts the cdf"""
    g = np.random.default_rng(12345)
    for s in range(40):
        p = g.random(int(g.integers(2, 5)))
        p /= p.sum()
        a = np.random.default_rng(s).choice(len(p), p=p)
        u = np.random.default_rng(s).random()
        c = np.cumsum(p)
        c /= c[-1]
        if a != np.searchsorted(c, u, side="right"):
            return False
    r1, r2 = np.random.default_rng(7), np.random.default_rng(7)
    p = np.array([0.2, 0.5, 0.3])
    for _ in range(10):
        a = r1.choice(3, p=p)
        if a != np.searchsorted(np.cumsum(p), r2.random(), side="right"):
            return False
    return True


def _hist_from_key(key):
    m = re.search(r'"hist": (\d+)', key or "")
    return int(m.group(1)) if m else None


@driver("C08", "mps-record-histories", chunks=8, timeout=110,
        bound="random open-boundary MPS: L 1..8, initial bond 1..4 (rank-deficient bonds included), physical dims 2/3/mixed, "
              "float32/float64/complex64/complex128, normalised; one info record (dict / int / pair / 'calc' / legacy "
              "cur_orthog= / none) threaded through random histories of <= 12 (quick) / <= 60 (thorough) operations drawn from "
              "canonicalize(_)/canonize, shift_orthogonality_center, left/right_canonicalize(_), gate(_) one-site in modes "
              "True/False/swap+split/auto-mps/nonlocal and two-/three-site in swap+split/auto-mps/nonlocal, gate_split(_), "
              "gate_with_auto_swap(_) (swap_back both), gate_with_submpo(_) and gate_nonlocal(_) (methods direct/dm/zipup, "
              "sweep_reverse, transpose), swap_sites_with_compress(_) (absorb default/left/right/both), swap_site_to(_), "
              "compress_site, singular_values/schmidt_values/entropy/schmidt_gap (svd, svd:eig), bipartite_schmidt_state, magnetization X/Y/Z, "
              "partial_trace_to_dense_canonical, local_expectation_canonical, compute_local_expectation_canonical, "
              "measure(_) (get None/outcome, remove, renorm, fixed or seeded outcome), sample_configuration, sample; "
              "operators well conditioned (singular values in [0.5,1.5]); non-unitary one-site gates through the generic "
              "route only inside the recorded range; tolerances 1e-8 (double) / 3e-4 (single), x10 for derived values")
def histories(cx):
    import warnings

    import quimb.tensor as qtn

    warnings.filterwarnings("ignore")
    if not _numpy_choice_assumption():
        cx.inconclusive.append("numpy Generator.choice no longer inverts the cdf at one uniform draw: sampling contracts not evaluated")
        return
    nh = 3600 if cx.quick else 12000
    nops = 12 if cx.quick else 60
    only_h = _hist_from_key(cx.only_key) if cx.only_key is not None else None
    skip_to = _hist_from_key(cx.resume_after) if cx.resume_after is not None else None
    weights = np.array([w for _, w in OPS], dtype=float)
    weights /= weights.sum()
    for hid in range(nh):
        if not cx.mine():
            continue
        if only_h is not None and hid != only_h:
            continue
        if skip_to is not None and hid <= skip_to:
            continue
        if cx.out_of_time():
            cx.inconclusive.append(f"mps-record-histories: time budget exhausted at history {hid} of {nh}")
            return
        rng = np.random.default_rng([cx.seed, 808, hid])
        h = Hist(qtn, rng, hid, cx.quick)
        n_here = int(rng.integers(max(2, nops // 2), nops + 1))
        for step in range(n_here):
            k = int(rng.choice(len(OPS), p=weights))
            made = OPS[k][0](h)
            if made is None:
                continue
            params, run, kinds = made
            params = dict(params, hist=hid, step=step, **h.init)
            if not _do_op(cx, h, params, run, kinds):
                break


def _do_op(cx, h, params, run, kinds):
    """evaluate the contracts of one operation; the operation itself is executed exactly once"""
    box = {}

    def execute():
        if "out" not in box and "exc" not in box:
            try:
                box["out"] = run()
            except Exception as e:  # noqa
                box["exc"] = e
        if "exc" in box:
            raise box["exc"]
        return box["out"]

    op = params["op"]
    for kind in kinds:
        if "exc" in box:
            break
        cx.check(f"{op}: {KIND_TEXT[kind]}", params, lambda kind=kind: execute().get(kind))
    if "out" not in box and "exc" not in box:
        # replay / resume: contracts skipped, but the history has to advance identically
        try:
            box["out"] = run()
        except Exception as e:  # noqa
            box["exc"] = e
    return "exc" not in box


# ------------------------------------------------------------------------------------------------
# the MPS circuit simulators carry the class invariant Sound(gate_opts["info"], _psi)
# ------------------------------------------------------------------------------------------------

_G1 = ["H", "X", "Y", "Z", "S", "T", "SX", "X_1_2", "RX", "RY", "RZ", "U3", "U2", "U1", "PHASE", "IDEN"]
_G2 = ["CX", "CNOT", "CY", "CZ", "ISWAP", "SWAP", "CU3", "CU1", "CRX", "CRZ", "FSIM", "FSIMG", "GIVENS", "XXPLUSYY", "RXX",
       "RYY", "RZZ", "SU4", "RAW2"]
_G3 = ["CCX", "CCZ", "CSWAP", "RAW3"]
_NPAR = {"RX": 1, "RY": 1, "RZ": 1, "U3": 3, "U2": 2, "U1": 1, "PHASE": 1, "CU3": 3, "CU1": 1, "CRX": 1, "CRZ": 1, "FSIM": 2,
         "FSIMG": 5, "GIVENS": 1, "XXPLUSYY": 2, "RXX": 1, "RYY": 1, "RZZ": 1, "SU4": 15}


def _psi_dense_logical(circ):
    """dense state of the stored MPS (numpy on the raw arrays), axes permuted to logical qubit order"""
    d = dense_of(circ._psi)
    qubits = getattr(circ, "qubits", None)
    if qubits is not None:
        # physical site s holds logical qubit qubits[s]
        d = np.transpose(d, [list(qubits).index(q) for q in range(circ.N)])
    return d


@driver("C08", "circuit-mps-record", chunks=4, timeout=110,
        bound="CircuitMPS (gate_contract auto-mps / swap+split / nonlocal), CircuitPermMPS, CircuitMPSLazy (methods dm/direct/"
              "zipup, compress_every 1..3, sweep_reverse) on 2..6 qubits, max_bond None/1/2/3, convert_eager both, random "
              "programs of <= 10 (quick) / <= 24 (thorough) steps mixing gates (1-, 2-, 3-qubit registered gates, raw "
              "unitaries, (multi-)controlled gates) with local_expectation (1/2 qubits, normalized both, dtype option), "
              "sample, fidelity_estimate / error_estimate, copy(): after every step the record gate_opts['info'] is sound for "
              "_psi (whenever _psi is in MPS form), local_expectation equals the value on the stored state, "
              "fidelity_estimate equals <psi|psi> (or its square) of the stored state")
def circuit_record(cx):
    import warnings

    import quimb.tensor as qtn

    warnings.filterwarnings("ignore")
    nprog = 3000 if cx.quick else 16000
    nsteps = 10 if cx.quick else 24
    only_h = _hist_from_key(cx.only_key) if cx.only_key is not None else None
    skip_to = _hist_from_key(cx.resume_after) if cx.resume_after is not None else None
    for pid in range(nprog):
        if not cx.mine():
            continue
        if only_h is not None and pid != only_h:
            continue
        if skip_to is not None and pid <= skip_to:
            continue
        if cx.out_of_time():
            cx.inconclusive.append(f"circuit-mps-record: time budget exhausted at program {pid} of {nprog}")
            return
        rng = np.random.default_rng([cx.seed, 809, pid])
        N = int(rng.integers(2, 7))
        kind = str(rng.choice(["CircuitMPS:auto-mps", "CircuitMPS:auto-mps", "CircuitMPS:swap+split", "CircuitMPS:nonlocal",
                               "CircuitPermMPS", "CircuitMPSLazy"]))
        max_bond = [None, None, None, 1, 2, 3][int(rng.integers(0, 6))]
        convert_eager = bool(rng.integers(0, 5) != 0)
        copts = dict(max_bond=max_bond) if max_bond is not None else {}
        if not convert_eager:
            copts["convert_eager"] = False
        if rng.integers(0, 4) == 0:
            copts["dtype"] = str(rng.choice(["complex128", "complex64"]))
        single = copts.get("dtype") == "complex64"
        if kind.startswith("CircuitMPS:"):
            circ = qtn.CircuitMPS(N, gate_contract=kind.split(":")[1], **copts)
        elif kind == "CircuitPermMPS":
            circ = qtn.CircuitPermMPS(N, **copts)
        else:
            lo = dict(method=str(rng.choice(["dm", "direct", "zipup"])), compress_every=int(rng.integers(1, 4)))
            if rng.integers(0, 3) == 0:
                lo["compress_opts"] = {"sweep_reverse": True}
            circ = qtn.CircuitMPSLazy(N, **lo, **copts)
            kind = f"CircuitMPSLazy:{lo['method']}:{lo['compress_every']}:{'rev' if 'compress_opts' in lo else 'fwd'}"
        base = dict(hist=pid, N=N, cls=kind, max_bond=str(max_bond), convert_eager=convert_eager, dtype=str(copts.get("dtype")))
        tol = 3e-4 if single else 1e-8
        n_here = int(rng.integers(3, nsteps + 1))
        box = {"circ": circ}
        for step in range(n_here):
            circ = box["circ"]
            action = str(rng.choice(["gate"] * 5 + ["local_expectation"] * 3 + ["sample", "fidelity", "copy", "get_psi"]))
            p = dict(base, step=step, action=action)
            if action == "gate":
                perm = kind == "CircuitPermMPS"
                nq = int(rng.choice([1, 2, 2, 2, 3])) if (N >= 3 and not perm) else int(rng.choice([1, 2, 2]))
                controlled = bool(rng.integers(0, 6) == 0) and not perm and not kind.startswith("CircuitMPS:swap")
                if controlled:
                    nq = 1 if N < 3 or rng.integers(0, 2) else 2
                label = str(rng.choice({1: _G1, 2: _G2, 3: _G3}[nq]))
                if perm and label == "SWAP":
                    label = "ISWAP"
                if kind.startswith("CircuitMPS:swap") and nq == 3:
                    nq, label = 2, "CZ"
                nctrl = int(rng.integers(1, min(2, N - nq) + 1)) if controlled else 0
                qs = [int(x) for x in rng.choice(N, size=nq + nctrl, replace=False)]
                qubits, controls = qs[:nq], qs[nq:]
                pars = [float(x) for x in rng.uniform(-3, 3, size=_NPAR.get(label, 0))]
                U = rand_mat(rng, 2 ** nq, True, True) if label.startswith("RAW") else None
                p.update(label=label, qubits=_fmt_where(qubits), controls=_fmt_where(controls))

                def act(circ=circ, label=label, pars=pars, qubits=qubits, controls=controls, U=U):
                    kw = {"controls": controls} if controls else {}
                    if U is not None:
                        circ.apply_gate_raw(U, qubits, **kw)
                    else:
                        circ.apply_gate(label, *pars, *qubits, **kw)
                    return None
            elif action == "local_expectation":
                nq = 1 if rng.integers(0, 2) else 2
                qs = [int(x) for x in rng.choice(N, size=nq, replace=False)]
                where = qs[0] if (nq == 1 and rng.integers(0, 2)) else tuple(qs)
                G = rand_mat(rng, 2 ** nq, True, False)
                kw = {}
                if rng.integers(0, 2):
                    kw["normalized"] = bool(rng.integers(0, 2))
                dt = None
                if rng.integers(0, 4) == 0:
                    dt = str(rng.choice(["complex128", "complex64"]))
                    kw["dtype"] = dt
                p.update(where=_fmt_where(where), dtype_arg=str(dt), normalized=str(kw.get("normalized")))
                copied = dt is not None or not convert_eager
                p["on_copy"] = copied

                def act(circ=circ, G=G, where=where, kw=kw, qs=qs, dt=dt):
                    if isinstance(circ, qtn.CircuitMPSLazy):
                        circ._compress()  # the documented flush; its record is checked below as well
                    ref = _psi_dense_logical(circ)
                    if np.linalg.norm(ref) < 1e-3:
                        return None  # truncation (max_bond) annihilated the state: nothing to compare
                    got = circ.local_expectation(G, where, **kw)
                    rho = rdm(ref, qs)
                    if kw.get("normalized", False):
                        rho = rho / np.trace(rho)
                    if np.ndim(got) != 0:
                        return f"returned shape {np.shape(got)}"
                    t = 3e-3 if (dt == "complex64" or single) else 1e-7
                    return close(complex(got), complex(np.trace(G @ rho)), t, "local_expectation vs stored state")
            elif action == "sample":
                C = int(rng.integers(1, 4))
                take = int(rng.integers(1, C + 1))
                seed = int(rng.integers(0, 1 << 30))
                kw = {"dtype": "complex64"} if rng.integers(0, 5) == 0 else {}
                p.update(C=C, take=take, dtype_arg=str(kw.get("dtype")))

                def act(circ=circ, C=C, take=take, seed=seed, kw=kw):
                    if isinstance(circ, qtn.CircuitMPSLazy):
                        circ._compress()
                    ref = _psi_dense_logical(circ)
                    if np.linalg.norm(ref) < 1e-3:
                        return None  # truncation (max_bond) annihilated the state: nothing to sample
                    prob = np.abs(ref) ** 2
                    prob = prob / prob.sum()
                    it = circ.sample(C, seed=seed, **kw)
                    for _ in range(take):
                        b = next(it)
                        if len(b) != circ.N or any(c not in "01" for c in b):
                            return f"sample {b!r}"
                        if prob[tuple(int(c) for c in b)] < 1e-9:
                            return f"sampled {b} has probability {prob[tuple(int(c) for c in b)]:.2e} in the stored state"
                    return None
            elif action == "fidelity":
                which = str(rng.choice(["fidelity_estimate", "error_estimate"]))
                p.update(which=which)

                def act(circ=circ, which=which):
                    if isinstance(circ, qtn.CircuitMPSLazy):
                        circ._compress()
                    n2 = float(np.linalg.norm(dense_of(circ._psi)) ** 2)
                    got = float(getattr(circ, which)())
                    if which == "error_estimate":
                        got = 1 - got
                    t = 3e-4 if single else 1e-8
                    if abs(got - n2) <= t or abs(got - n2 ** 2) <= t:
                        return None
                    return f"{which}: {got} vs <psi|psi> = {n2}"
            elif action == "copy":
                def act(circ=circ):
                    new = circ.copy()
                    if new.gate_opts["info"] is circ.gate_opts["info"]:
                        return "copy shares the info record with the original"
                    box["circ"] = new
                    return None
            else:
                def act(circ=circ):
                    psi = circ.psi
                    if psi is circ._psi:
                        return "psi is not a copy"
                    return None

            res = {}

            def execute(act=act):
                if "done" not in res:
                    res["done"] = True
                    try:
                        res["value"] = act()
                    except Exception as e:  # noqa
                        res["exc"] = e
                    if "exc" not in res:
                        c2 = box["circ"]
                        try:
                            if len(c2._psi.tensors) != c2.N:
                                raise ValueError("gates pending on top of the MPS")
                            sa = site_arrays(c2._psi)
                            dl, dr = iso_defects(c2._psi, sa)
                        except ValueError:
                            res["record"] = None  # pending lazy gates: no claim can be evaluated
                            res["trivial"] = True
                        else:
                            info = c2.gate_opts["info"]
                            res["record"] = check_record(record_of(info), dl, dr, 3e-4 if single else 1e-8) or \
                                check_flags(c2._psi, 3e-4 if single else 1e-8)
                            if res["record"]:
                                info["cur_orthog"] = true_centre(dl, dr, 3e-4 if single else 1e-8)  # repair and go on
                if "exc" in res:
                    raise res["exc"]
                return res

            # unsupported gates may be rejected by the simulators (the circuit semantics are property C07's)
            rejectable = action == "gate"
            r1 = cx.check(f"circuit {action}: the call succeeds and its value agrees with the stored state", p,
                          lambda: execute()["value"], allow_reject=rejectable, crash_is_violation=not rejectable)
            if "exc" not in res:
                cx.check(f"circuit {action}: gate_opts['info'] record is sound for _psi afterwards", p,
                         lambda: execute()["record"], nontrivial=not res.get("trivial", False))
            if "done" not in res:
                try:
                    execute()
                except Exception:  # noqa
                    pass
            if "exc" in res:
                break
