"""C18 bounded stand-in: quimb.Evolution vs explicit matrix exponentials.

Reference (numpy / scipy.linalg only): time-independent H: U = scipy.linalg.expm(-1j H (t - t0)), applied one-sided to kets
and two-sided to density operators; time-dependent H(t): a fine product of 4th-order commutator-free Magnus steps
(two Hermitian exponentials per step via numpy.linalg.eigh, step <= 0.02, self-checked against step <= 0.01).
"""

import contextlib
import io
import itertools

import numpy as np

from vf.rtc import driver

TOL = {"solve": 1e-9, "expm": 1e-8, "integrate": 1e-5}


# ------------------------------------------------------------------------------------------------
# reference
# ------------------------------------------------------------------------------------------------

def _rand_herm(rng, d, real=False):
    x = rng.normal(size=(d, d))
    if not real:
        x = x + 1j * rng.normal(size=(d, d))
    return (x + x.conj().T) / (2 * np.sqrt(d))


def _rand_ket(rng, d):
    x = rng.normal(size=(d, 1)) + 1j * rng.normal(size=(d, 1))
    return x / np.linalg.norm(x)


def _rand_state(rng, d, kind):
    if kind in ("ket", "ket1d", "ket-ndarray"):
        return _rand_ket(rng, d)
    if kind == "dop-pure":
        k = _rand_ket(rng, d)
        return k @ k.conj().T
    ks = [_rand_ket(rng, d) for _ in range(min(d, 3))]
    ws = rng.random(len(ks)) + 0.1
    ws = ws / ws.sum()
    return sum(w * k @ k.conj().T for w, k in zip(ws, ks))


def _expmh(H, dt):
    w, v = np.linalg.eigh(H)
    return (v * np.exp(-1j * w * dt)) @ v.conj().T


def _prop_td(Hf, ta, tb, hmax=0.02):
    """time-ordered propagator from ta to tb (either direction) for Hermitian H(t): CF4:2 Magnus steps"""
    d = Hf(ta).shape[0]
    U = np.eye(d, dtype=complex)
    if ta == tb:
        return U
    n = max(1, int(np.ceil(abs(tb - ta) / hmax)))
    dt = (tb - ta) / n
    c1, c2 = 0.5 - np.sqrt(3) / 6, 0.5 + np.sqrt(3) / 6
    a, b = 0.25 + np.sqrt(3) / 6, 0.25 - np.sqrt(3) / 6
    for k in range(n):
        t = ta + k * dt
        H1, H2 = Hf(t + c1 * dt), Hf(t + c2 * dt)
        U = _expmh(b * H1 + a * H2, dt) @ _expmh(a * H1 + b * H2, dt) @ U
    return U


def _apply(U, p):
    return U @ p if p.shape[1] == 1 else U @ p @ U.conj().T


def _dense(x):
    if hasattr(x, "toarray"):
        return np.asarray(x.toarray())
    return np.asarray(x)


def _state_err(got, ref, what, tol):
    got = _dense(got)
    if got.shape != ref.shape:
        return f"{what}: shape {got.shape} != reference {ref.shape}"
    if not np.all(np.isfinite(got)):
        return f"{what}: non-finite entries"
    err = float(np.max(np.abs(got - ref)))
    if err > tol:
        return f"{what}: max abs deviation from the reference state {err:.3e} > {tol:.0e}"
    return None


def _invariants(p, H):
    """(norm or trace, purity, energy)"""
    p = _dense(p)
    if p.shape[1] == 1:
        n = float(np.real(np.vdot(p, p)))
        return n, n * n, float(np.real(np.vdot(p, H @ p)))
    return float(np.real(np.trace(p))), float(np.real(np.trace(p @ p))), float(np.real(np.trace(p @ H)))


# representations ----------------------------------------------------------------------------------

HAM_REPS = ["qarray", "ndarray", "real-qarray", "csr", "csc", "coo", "bsr", "tuple", "list", "linop", "lazy"]
STATES = ["ket", "dop-pure", "dop-mixed", "ket1d", "ket-ndarray", "dop-ndarray"]


def _make_ham(rep, H):
    import scipy.sparse as sp
    import scipy.sparse.linalg as spla

    import quimb as qu

    if rep in ("qarray", "real-qarray"):
        return qu.qarray(H)
    if rep == "ndarray":
        return np.array(H)
    if rep in ("csr", "csc", "coo", "bsr"):
        return getattr(sp, rep + "_matrix")(H)
    if rep in ("tuple", "list"):
        w, v = np.linalg.eigh(H)
        return (w, qu.qarray(v)) if rep == "tuple" else [w, qu.qarray(v)]
    if rep == "linop":
        return spla.aslinearoperator(np.array(H))
    if rep == "lazy":
        from quimb.linalg.base_linalg import Lazy

        return Lazy(lambda: qu.qarray(H), shape=H.shape)
    raise AssertionError(rep)


def _make_state(kind, p):
    import quimb as qu

    if kind == "ket1d":
        return np.array(p[:, 0])
    if kind in ("ket-ndarray", "dop-ndarray"):
        return np.array(p)
    return qu.qarray(p)


def _support(method, rep, isdop):
    """(believed_supported, crash_is_violation) from the documentation of Evolution"""
    if rep == "lazy":
        return False, False           # only meaningful for the (absent) slepc backend
    if rep in ("tuple", "list"):
        return True, True             # a presolved Hamiltonian always selects the diagonalisation route
    if rep == "linop":
        return method == "integrate", True
    # (method 'expm' with a density operator used to evolve one-sidedly -- finding 5; it now makes a second, adjoint
    # pass, so the combination is supported and must give U rho U^dagger)
    return True, True


def _sequences(t0, rng):
    return {
        "nonuniform-repeated": [t0 + 0.3, t0 + 0.8, t0 + 0.8, t0 + 1.5, t0 + 1.5000001, t0 + 4.1],
        "non-monotone": [t0 + 1.3, t0 + 0.5, t0 + 2.0, t0, t0 - 0.7],
        "single-long": [t0 + 7.5],
        "start-at-t0": [t0, t0 + 0.25],
        "random": sorted(float(x) for x in t0 + 3 * rng.random(4)),
        "uniform-fine": [t0 + 0.1 * k for k in range(1, 9)],
    }


def _walk(evo, ts, entry, p0, H, t0, tol, timedep_ref=None, progbar=False):
    """advance evo through ts and compare after every step; returns None or the first failure"""
    inv0 = _invariants(p0, H) if H is not None else None

    def after(t, pt_reported=None):
        if abs(evo.t - t) > 1e-12 * max(1.0, abs(t)):
            return f"evo.t = {evo.t!r} after update to {t!r}"
        U = timedep_ref(t) if timedep_ref is not None else None
        if U is None:
            import scipy.linalg as sla

            U = sla.expm(-1j * H * (t - t0))
        ref = _apply(U, p0)
        e = _state_err(evo.pt, ref, f"t={t:.6g}", tol)
        if e:
            return e
        if pt_reported is not None:
            e = _state_err(pt_reported, ref, f"yielded state at t={t:.6g}", tol)
            if e:
                return e
        if inv0 is not None:
            inv = _invariants(evo.pt, H)
            for nm, a, b in zip(("norm/trace", "purity", "energy"), inv0, inv):
                if abs(a - b) > 10 * tol * max(1.0, abs(a)):
                    return f"{nm} not conserved at t={t:.6g}: {a:.10f} -> {b:.10f}"
        return None

    # frame: a state handed out for an earlier time stays the state of THAT time when the evolution moves on
    held = []

    def hold(t, obj):
        held.append((t, obj, np.array(_dense(obj))))

    def held_intact():
        for t, obj, snap in held:
            now = np.asarray(_dense(obj))
            if now.shape != snap.shape or not np.array_equal(now, snap):
                return (f"the state object reported for t={t:.6g} was modified by a later update "
                        f"(max change {np.abs(now - snap).max():.3g}): earlier results are overwritten")
        return None

    if entry == "update_to":
        for t in ts:
            evo.update_to(t)
            e = after(t)
            if e:
                return e
            hold(t, evo.pt)
    else:
        k = 0
        for t, pt in zip(ts, evo.at_times(ts)):
            e = after(t, pt)
            if e:
                return e
            hold(t, pt)
            k += 1
        if k != len(ts):
            return f"at_times yielded {k} states for {len(ts)} times"
    return held_intact()


# ------------------------------------------------------------------------------------------------
# 1. the support table x time sequences (time-independent H)
# ------------------------------------------------------------------------------------------------

@driver("C18", "evolution-grid", chunks=8, timeout=200,
        bound="random Hermitian H (complex and real, d in {2,3,4,5,8}, spectral radius ~1-2) as qarray / ndarray / csr / csc / "
              "coo / bsr / presolved tuple and list / scipy LinearOperator / quimb Lazy x method in {solve, integrate, expm} x "
              "state in {ket (qarray, ndarray, 1-d), pure and mixed density operator (qarray, ndarray)} x t0 in {0, 0.7, -0.4} x "
              "5 time sequences (non-uniform with repeats, non-monotone incl. t < t0 [solve / expm; a fine uniform grid for the ODE "
              "stepper, which is only driven forward], one long step to t0+7.5, starting at t0, random) x "
              "update_to / at_times; tolerance 1e-9 (solve), 1e-8 (expm), 1e-5 (integrate) on max |state - reference|; "
              "conservation of norm/trace, purity, energy to 10x that")
def evolution_grid(cx):
    import quimb as qu

    rng = cx.rng
    ds = [2, 3, 5] if cx.quick else [2, 3, 4, 5, 8]
    t0s = [0.7] if cx.quick else [0.0, 0.7, -0.4]
    for d, rep, method, skind in itertools.product(ds, HAM_REPS, ("solve", "integrate", "expm"), STATES):
        if cx.quick and skind in ("ket-ndarray", "dop-ndarray") and rep not in ("qarray", "csr"):
            continue
        for t0 in t0s:
            seqs = _sequences(t0, rng)
            names = [nm for nm in seqs if nm != "uniform-fine"]
            if cx.quick:
                names = [names[int(rng.integers(0, 2))], names[2 + int(rng.integers(0, 3))]]
            for sname in names:
                entry = ("update_to", "at_times")[int(rng.integers(0, 2))]
                H = _rand_herm(rng, d, real=(rep == "real-qarray")) * (1.0 + rng.random())
                p0 = _rand_state(rng, d, skind)
                eff = "solve" if rep in ("tuple", "list") else method
                if eff == "integrate" and sname == "non-monotone":
                    # the property asks for non-monotone sequences only where the method allows them (diagonalisation;
                    # the incremental exponential also does); the ODE stepper is only driven forward in time
                    sname = "uniform-fine"
                if not cx.mine():
                    continue
                if cx.out_of_time():
                    cx.inconclusive.append("evolution-grid: time budget exhausted")
                    return
                isdop = skind.startswith("dop")
                supported, crash_viol = _support(method, rep, isdop)
                ts = seqs[sname]
                params = dict(d=d, ham=rep, method=method, state=skind, t0=t0, seq=sname, entry=entry)

                def t(rep=rep, method=method, skind=skind, t0=t0, ts=ts, entry=entry, H=H, p0=p0, eff=eff):
                    evo = qu.Evolution(_make_state(skind, p0), _make_ham(rep, H), t0=t0, method=method)
                    if evo.t != t0:
                        return f"evo.t = {evo.t!r} before any update, t0 = {t0!r}"
                    e = _state_err(evo.pt, p0, "initial state", 1e-14)
                    if e:
                        return e
                    return _walk(evo, ts, entry, p0, H, t0, TOL[eff])

                cx.check("Evolution(p0, H, t0, method): state at every requested time == exp(-iH(t-t0)) applied to p0 "
                         "(two-sided for density operators); t, norm/trace, purity, energy",
                         params, t, allow_reject=not supported, crash_is_violation=crash_viol)
    # unknown method must be rejected
    for m in ("rk4", "Solve", "", None):
        if not cx.mine():
            continue

        def t(m=m):
            H = _rand_herm(np.random.default_rng(0), 3)
            try:
                qu.Evolution(qu.qarray(_rand_ket(np.random.default_rng(1), 3)), qu.qarray(H), method=m)
            except ValueError:
                return None
            return "unknown method accepted"

        cx.check("Evolution(method=<unknown>) is rejected with ValueError", dict(method=str(m)), t)
    # sparse initial states: not documented; if accepted the evolution must be right
    import scipy.sparse as sp

    for d, method, skind in itertools.product([3, 4], ("solve", "integrate", "expm"), ("ket", "dop-mixed")):
        H = _rand_herm(rng, d)
        p0 = _rand_state(rng, d, skind)
        if not cx.mine():
            continue

        def t(method=method, H=H, p0=p0):
            evo = qu.Evolution(sp.csr_matrix(p0), qu.qarray(H), t0=0.2, method=method)
            return _walk(evo, [0.9, 1.4], "update_to", p0, H, 0.2, TOL[method])

        cx.check("Evolution(sparse p0, ...): if accepted, evolves correctly", dict(d=d, method=method, state=skind), t,
                 allow_reject=True, crash_is_violation=False)


# ------------------------------------------------------------------------------------------------
# 2. time-dependent Hamiltonians
# ------------------------------------------------------------------------------------------------

def _td_ham(rng, d):
    H0 = _rand_herm(rng, d)
    H1 = _rand_herm(rng, d) * 0.8
    H2 = _rand_herm(rng, d) * 0.5
    w1, w2 = 0.7 + 2 * rng.random(), 0.5 + rng.random()

    def Hf(t, H0=H0, H1=H1, H2=H2, w1=w1, w2=w2):
        return H0 + np.cos(w1 * t) * H1 + np.sin(w2 * t) * t / (1 + t * t) * H2

    return Hf


@driver("C18", "time-dependent", chunks=8, timeout=200,
        bound="H(t) = H0 + cos(w1 t) H1 + sin(w2 t) t/(1+t^2) H2, random Hermitian, d in {2,3,4,6}, callable returning qarray / "
              "ndarray / csr / LinearOperator; method 'integrate' (both step orders) x ket / density operator x t0 in "
              "{0, 0.7, -0.4} x increasing non-uniform sequences with repeats (t - t0 <= 4.1), starting at t0, random; "
              "reference: CF4 Magnus product with step <= 0.02 (agrees with step <= 0.01 to 1e-7); tolerance 2e-5; "
              "methods 'solve' and 'expm' with a callable must be rejected; norm / trace / purity conserved")
def time_dependent(cx):
    import scipy.sparse as sp
    import scipy.sparse.linalg as spla

    import quimb as qu

    rng = cx.rng
    ds = [2, 3] if cx.quick else [2, 3, 4, 6]
    t0s = [0.7] if cx.quick else [0.0, 0.7, -0.4]
    for d, ret, skind, t0 in itertools.product(ds, ("qarray", "ndarray", "csr", "linop"), ("ket", "dop-pure", "dop-mixed"), t0s):
        for sname in ("nonuniform-repeated", "start-at-t0", "random"):
            for small in (False, True):
                Hf = _td_ham(rng, d)
                p0 = _rand_state(rng, d, skind)
                seqs = _sequences(t0, rng)
                entry = ("update_to", "at_times")[int(rng.integers(0, 2))]
                if cx.quick and (small and sname != "random"):
                    continue
                if not cx.mine():
                    continue
                if cx.out_of_time():
                    cx.inconclusive.append("time-dependent: time budget exhausted")
                    return
                ts = seqs[sname]

                def wrap(t, Hf=Hf, ret=ret):
                    H = Hf(t)
                    if ret == "qarray":
                        return qu.qarray(H)
                    if ret == "ndarray":
                        return np.array(H)
                    if ret == "csr":
                        return sp.csr_matrix(H)
                    return spla.aslinearoperator(H)

                def t(Hf=Hf, p0=p0, t0=t0, ts=ts, small=small, entry=entry, wrap=wrap, skind=skind):
                    cache = {}

                    def Uref(t):
                        if t not in cache:
                            U = _prop_td(Hf, t0, t)
                            U2 = _prop_td(Hf, t0, t, hmax=0.01)
                            if np.max(np.abs(U - U2)) > 1e-7:
                                raise AssertionError("driver: reference propagator not converged")
                            cache[t] = U2
                        return cache[t]

                    evo = qu.Evolution(_make_state(skind, p0), wrap, t0=t0, method="integrate", int_small_step=small)
                    e = _walk(evo, ts, entry, p0, None, t0, 2e-5, timedep_ref=Uref)
                    if e:
                        return e
                    a = _invariants(p0, np.eye(p0.shape[0]))
                    b = _invariants(evo.pt, np.eye(p0.shape[0]))
                    if abs(a[0] - b[0]) > 1e-4 or abs(a[1] - b[1]) > 1e-4:
                        return f"norm/trace or purity not conserved: {a[:2]} -> {b[:2]}"

                # a callable returning a LinearOperator is documented as cached but nowhere as supported
                cx.check("Evolution(p0, H(t), method='integrate'): state == time-ordered exponential applied to p0",
                         dict(d=d, returns=ret, state=skind, t0=t0, seq=sname, small_step=small, entry=entry), t,
                         allow_reject=(ret == "linop"), crash_is_violation=(ret != "linop"))
    for d, method, skind in itertools.product([2, 3], ("solve", "expm"), ("ket", "dop-mixed")):
        Hf = _td_ham(rng, d)
        p0 = _rand_state(rng, d, skind)
        if not cx.mine():
            continue

        def t(Hf=Hf, p0=p0, method=method):
            evo = qu.Evolution(qu.qarray(p0), lambda t: qu.qarray(Hf(t)), t0=0.1, method=method)
            return _walk(evo, [0.5, 1.0], "update_to", p0, None, 0.1, 2e-5, timedep_ref=lambda t: _prop_td(Hf, 0.1, t, 0.01))

        cx.check("Evolution(p0, H(t), method in {solve, expm}) is rejected (or evolves correctly)",
                 dict(d=d, method=method, state=skind), t, allow_reject=True)


# ------------------------------------------------------------------------------------------------
# 3. callbacks, int_stop, progbar
# ------------------------------------------------------------------------------------------------

@driver("C18", "callbacks", chunks=6, timeout=200,
        bound="d in {2,3,5}; compute = single callable / dict of callables, with (t, p) or (t, p, ham) signature; methods solve / "
              "expm / integrate; ket and density operator; time-independent (qarray, csr, presolved tuple) and time-dependent H; "
              "results vs own evaluation on the reference state and on the reported (t, pt); the ham argument is the documented "
              "object; int_stop (2- and 3-argument, alone and with compute) stops the integrator at a correct state and is "
              "rejected for the other methods; progbar=True gives the same states")
def callbacks(cx):
    import scipy.linalg as sla
    import scipy.sparse as sp

    import quimb as qu

    rng = cx.rng
    ds = [2, 3] if cx.quick else [2, 3, 5]
    for d, method, rep, skind, form in itertools.product(ds, ("solve", "expm", "integrate"), ("qarray", "csr", "tuple", "timedep"),
                                                         ("ket", "dop-mixed"),
                                                         ("fn2", "fn3", "dict", "dict3")):
        H = _rand_herm(rng, d)
        Hf = _td_ham(rng, d)
        p0 = _rand_state(rng, d, skind)
        t0 = float(rng.choice([0.0, 0.6, -0.3]))
        ts = [t0 + 0.4, t0 + 0.9, t0 + 0.9, t0 + 2.0]
        entry = ("update_to", "at_times")[int(rng.integers(0, 2))]
        if not cx.mine():
            continue
        if cx.out_of_time():
            cx.inconclusive.append("callbacks: time budget exhausted")
            return
        isdop = skind.startswith("dop")
        timedep = rep == "timedep"
        supported = not (timedep and method != "integrate") and not (method == "expm" and isdop and rep != "tuple")
        eff = "solve" if rep == "tuple" else method
        tol = 2e-5 if timedep else TOL[eff]

        def t(d=d, method=method, rep=rep, skind=skind, form=form, H=H, Hf=Hf, p0=p0, t0=t0, ts=ts, entry=entry, eff=eff,
              timedep=timedep, tol=tol):
            seen = []          # (t, copy of state, ham argument or None)
            A = np.diag(np.arange(d, dtype=float)) + 0.3 * (np.eye(d, k=1) + np.eye(d, k=-1))

            def obs(p):
                p = _dense(p)
                return complex(np.vdot(p, A @ p)) if p.shape[1] == 1 else complex(np.trace(A @ p))

            raw = []           # the state OBJECTS handed to the callbacks / reported, with a snapshot

            def f2(t, p):
                seen.append((t, np.array(_dense(p)), None))
                raw.append((f"callback at t={t:.4g}", p, np.array(_dense(p))))
                return obs(p)

            def f3(t, p, ham):
                seen.append((t, np.array(_dense(p)), ham))
                raw.append((f"callback at t={t:.4g}", p, np.array(_dense(p))))
                return obs(p)

            def g2(t, p):
                return t

            compute = {"fn2": f2, "fn3": f3, "dict": {"a": f2, "time": g2}, "dict3": {"time": g2, "b": f3}}[form]
            if timedep:
                given = lambda t: qu.qarray(Hf(t))  # noqa: E731
            else:
                given = _make_ham(rep, H)
            evo = qu.Evolution(qu.qarray(p0), given, t0=t0, method=method, compute=compute)

            def Uref(t):
                return _prop_td(Hf, t0, t, 0.01) if timedep else sla.expm(-1j * H * (t - t0))

            reported = []
            if entry == "update_to":
                for tt in ts:
                    evo.update_to(tt)
                    reported.append((evo.t, np.array(_dense(evo.pt))))
                    raw.append((f"evo.pt after update_to({tt:.4g})", evo.pt, np.array(_dense(evo.pt))))
            else:
                for tt, pt in zip(ts, evo.at_times(ts)):
                    reported.append((evo.t, np.array(_dense(pt))))
                    raw.append((f"state yielded by at_times for t={tt:.4g}", pt, np.array(_dense(pt))))
            # frame: objects handed out earlier are not overwritten by later updates
            for what, obj, snap in raw:
                now = np.asarray(_dense(obj))
                if now.shape != snap.shape or not np.array_equal(now, snap):
                    return (f"{what}: the object was modified by a later update (max change {np.abs(now - snap).max():.3g}); "
                            f"a recorded earlier state no longer is the state of its time")
            for (tt, pt), want in zip(reported, ts):
                if abs(tt - want) > 1e-12:
                    return f"reported time {tt} != requested {want}"
                e = _state_err(pt, _apply(Uref(want), p0), f"reported state t={want:.4g}", tol)
                if e:
                    return e
            res = evo.results
            if form in ("fn2", "fn3"):
                vals, times = list(res), None
                if not isinstance(res, list):
                    return f"results is {type(res).__name__}, expected list"
            else:
                key = "a" if form == "dict" else "b"
                if not isinstance(res, dict) or set(res) != {key, "time"}:
                    return f"results keys {list(res) if isinstance(res, dict) else type(res)}"
                vals, times = list(res[key]), list(res["time"])
                if len(times) != len(vals):
                    return "dict results of different lengths"
            if len(vals) != len(seen):
                return f"{len(vals)} results for {len(seen)} callback invocations"
            if times is not None and any(abs(a - s[0]) > 0 for a, s in zip(times, seen)):
                return "callbacks of one step saw different times"
            # every invocation saw a correct (t, state) pair and its result was stored in order
            for k, ((tt, st, hh), v) in enumerate(zip(seen, vals)):
                e = _state_err(st, _apply(Uref(tt), p0), f"state seen by callback #{k} at t={tt:.4g}", tol)
                if e:
                    return e
                if abs(v - obs(st)) > 1e-12:
                    return f"stored result #{k} differs from the callback's value"
                if hh is not None:
                    if eff == "solve":
                        try:
                            ev, evec = hh
                        except Exception:  # noqa
                            return f"ham argument for 'solve' is {type(hh).__name__}, documented (evals, evecs)"
                        Hrec = _dense(evec) @ np.diag(np.asarray(ev)) @ _dense(evec).conj().T
                        if np.max(np.abs(Hrec - H)) > 1e-9:
                            return "ham argument (evals, evecs) does not reconstruct H"
                    elif timedep:
                        if np.max(np.abs(_dense(hh(tt)) - Hf(tt))) > 1e-12:
                            return "ham argument of a time-dependent evolution is not H(t)"
                    elif hh is not given:
                        return "ham argument is not the object given to Evolution"
            if eff != "integrate":
                # exactly one invocation per update, seeing exactly the reported state
                if len(seen) != len(ts):
                    return f"{len(seen)} callback invocations for {len(ts)} updates"
                for (tt, st, _), (rt, rp) in zip(seen, reported):
                    if tt != rt or not np.array_equal(st, rp):
                        return f"callback saw a different (t, state) than reported at t={rt}"
            else:
                # integrator: called at every accepted step; requested times must be among them, in order
                stimes = [s[0] for s in seen]
                pos = 0
                for (rt, rp) in reported:
                    idx = [k for k in range(pos, len(stimes)) if abs(stimes[k] - rt) < 1e-12]
                    if not idx:
                        return f"no callback at the requested time {rt}"
                    k = idx[-1]
                    if np.max(np.abs(seen[k][1] - rp)) > 1e-12:
                        return f"callback state at t={rt} differs from the reported state"
                    pos = k
            return None

        cx.check("compute callbacks see exactly the reported (t, state), results stored in order, ham argument as documented",
                 dict(d=d, method=method, ham=rep, state=skind, form=form, t0=t0, entry=entry), t, allow_reject=not supported)

    # int_stop
    for d, skind, form, with_compute, timedep in itertools.product(ds, ("ket", "dop-mixed"), ("2", "3"), (False, True), (False, True)):
        H = _rand_herm(rng, d)
        Hf = _td_ham(rng, d)
        p0 = _rand_state(rng, d, skind)
        t0 = float(rng.choice([0.0, 0.6]))
        tstop = t0 + 0.5 + float(rng.random())
        if not cx.mine():
            continue

        def t(d=d, H=H, Hf=Hf, p0=p0, t0=t0, tstop=tstop, form=form, with_compute=with_compute, timedep=timedep):
            calls = []

            def stop2(t, p):
                calls.append(t)
                return -1 if t > tstop else 0

            def stop3(t, p, ham):
                calls.append(t)
                return -1 if t > tstop else None

            rec = []
            kw = dict(compute=lambda t, p: rec.append(t) or t) if with_compute else {}
            given = (lambda t: qu.qarray(Hf(t))) if timedep else qu.qarray(H)
            evo = qu.Evolution(qu.qarray(p0), given, t0=t0, method="integrate", int_stop=stop2 if form == "2" else stop3, **kw)
            T = t0 + 30.0
            evo.update_to(T)
            te = evo.t
            if not (tstop < te < T):
                return f"integration did not stop early: t={te}, stop condition t > {tstop}, target {T}"
            if not calls or abs(calls[-1] - te) > 1e-12:
                return f"evo.t = {te} is not the time at which int_stop fired ({calls[-1] if calls else None})"
            U = _prop_td(Hf, t0, te, 0.01) if timedep else sla.expm(-1j * H * (te - t0))
            e = _state_err(evo.pt, _apply(U, p0), f"state at the stopping time {te:.4g}", 2e-5)
            if e:
                return e
            if with_compute and (not rec or rec[-1] != te or list(evo.results) != rec):
                return "compute callback did not run at the stopping step / results differ"

        cx.check("int_stop returning -1 stops the integrator; (evo.t, evo.pt) is the correct state at that time",
                 dict(d=d, state=skind, nargs=form, compute=with_compute, timedep=timedep), t)
    for method, rep in itertools.product(("solve", "expm"), ("qarray", "tuple", "csr")):
        if not cx.mine():
            continue

        def t(method=method, rep=rep):
            r = np.random.default_rng(5)
            H = _rand_herm(r, 3)
            try:
                qu.Evolution(qu.qarray(_rand_ket(r, 3)), _make_ham(rep, H), method=method, int_stop=lambda t, p: -1)
            except ValueError:
                return None
            return "int_stop accepted by a method that cannot honour it"

        cx.check("int_stop with method != 'integrate' is rejected with ValueError", dict(method=method, ham=rep), t)
    # progress bar: same states
    for d, method, skind, entry, repeat in itertools.product([3], ("solve", "expm", "integrate"), ("ket", "dop-mixed"),
                                                             ("update_to", "at_times"), (False, True)):
        H = _rand_herm(rng, d)
        p0 = _rand_state(rng, d, skind)
        if not cx.mine():
            continue
        if method == "expm" and skind != "ket":
            continue
        ts = [0.5, 1.7, 1.7, 2.0] if repeat else [0.5, 1.7, 2.0]

        def t(H=H, p0=p0, method=method, entry=entry, skind=skind, ts=ts):
            rec = []
            with contextlib.redirect_stderr(io.StringIO()):
                evo = qu.Evolution(qu.qarray(p0), qu.qarray(H), t0=0.2, method=method, progbar=True,
                                   compute=(lambda t, p: rec.append(t)) if method == "integrate" else None)
                e = _walk(evo, ts, entry, p0, H, 0.2, TOL[method])
            if e:
                return e
            if method == "integrate" and (not rec or abs(rec[-1] - 2.0) > 1e-12):
                return "compute callback not run under progbar"

        cx.check("progbar=True does not change the evolution",
                 dict(d=d, method=method, state=skind, entry=entry, repeated_time=repeat), t)
