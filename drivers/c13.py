"""C13 bounded stand-in: every route to a local expectation value / reduced density matrix vs the dense state.

Reference semantics (shares no code with quimb): the dense state is obtained by one numpy einsum over the raw
tensor data of the *input* network (times 10**exponent), the reduced density matrix is
``rho[k, b] = sum_rest psi[k, rest] conj(psi[b, rest])`` with the kept sites in the order requested, and the
expectation value is ``trace(G @ rho)`` = <psi|G|psi> with the factors of G attached to the sites in the order
given (divided by <psi|psi> when normalised).
"""

import itertools

import numpy as np

from vf.rtc import driver

DTYPES = ["complex128", "float64", "complex64", "float32"]


# ----------------------------------------------------------------------------------------------
# independent reference
# ----------------------------------------------------------------------------------------------

def contract_dense(ops, out):
    """sum over all labels not in ``out`` of the product of the operands [(array, labels)]: pairwise two-operand
    einsums in a connectivity-driven order (hyper labels and repeated labels allowed)"""
    ops = [(np.asarray(a), list(ii)) for a, ii in ops]
    cur, cinds = ops.pop(0)
    while True:
        rest = set(out)
        for _, ii in ops:
            rest.update(ii)
        keep = [ix for ix in dict.fromkeys(cinds) if ix in rest]
        if not ops:
            break
        j = max(range(len(ops)), key=lambda q: (len(set(ops[q][1]) & set(cinds)), -ops[q][0].size))
        a, ai = ops.pop(j)
        rest = set(out)
        for _, ii in ops:
            rest.update(ii)
        new = [ix for ix in dict.fromkeys(list(cinds) + list(ai)) if ix in rest]
        ids = {ix: q for q, ix in enumerate(dict.fromkeys(list(cinds) + list(ai)))}
        cur = np.einsum(cur, [ids[i] for i in cinds], a, [ids[i] for i in ai], [ids[i] for i in new], optimize=True)
        cinds = new
    ids = {ix: q for q, ix in enumerate(dict.fromkeys(list(cinds) + list(out)))}
    return np.einsum(cur, [ids[i] for i in cinds], [ids[i] for i in out])


def dense_of(tn, out_inds, extra=()):
    """dense array of the raw tensor data (in double precision) on ``out_inds``; ``extra`` = [(vector, index)] are
    diagonal bond weights; the stored exponent is included"""
    ops = [(np.asarray(t.data).astype(np.complex128), t.inds) for t in tn.tensors]
    ops += [(np.asarray(vec).astype(np.complex128), [ind]) for vec, ind in extra]
    return contract_dense(ops, list(out_inds)) * 10.0 ** float(tn.exponent)


def dense_of_two_layers(tn, tag_a, tag_b, out_inds):
    """dense array of a two-layer network: each layer is densified on its own (labels shared with the other layer or
    dangling stay open) and the two blocks are joined by one two-operand einsum"""
    ta = [t for t in tn.tensors if tag_a in t.tags]
    tb = [t for t in tn.tensors if tag_b in t.tags]
    if len(ta) + len(tb) != tn.num_tensors:
        raise ValueError("layers do not partition the network")
    ca, cb = {}, {}
    for t in ta:
        for ix in t.inds:
            ca[ix] = ca.get(ix, 0) + 1
    for t in tb:
        for ix in t.inds:
            cb[ix] = cb.get(ix, 0) + 1
    oa = [ix for ix in ca if ix in cb or ix in out_inds]
    ob = [ix for ix in cb if ix in ca or ix in out_inds]
    A = contract_dense([(np.asarray(t.data).astype(np.complex128), t.inds) for t in ta], oa)
    B = contract_dense([(np.asarray(t.data).astype(np.complex128), t.inds) for t in tb], ob)
    return contract_dense([(A, oa), (B, ob)], list(out_inds)) * 10.0 ** float(tn.exponent)


def ref_rdm(psi, pos, normalized=True):
    k = len(pos)
    x = np.moveaxis(psi, list(pos), list(range(k)))
    D = int(np.prod(x.shape[:k], dtype=int))
    M = x.reshape(D, -1)
    rho = M @ M.conj().T
    if normalized:
        rho = rho / np.trace(rho)
    return rho


def rand_op(rng, D):
    """complex, non-symmetric, non-hermitian"""
    return rng.normal(size=(D, D)) + 1j * rng.normal(size=(D, D))


def tol_of(dtype, loose=1.0):
    return (3e-4 if dtype in ("float32", "complex64") else 1e-9) * loose


def cmp_scalar(got, ref, scale, tol, what="value"):
    if np.ndim(got) != 0:
        return f"{what}: expected a scalar, got shape {np.shape(got)}"
    got = complex(got)
    if not np.isfinite(got):
        return f"{what}: not finite ({got})"
    if abs(got - ref) > tol * scale:
        return f"{what}: got {got:.10g}, dense reference {complex(ref):.10g} (|diff|={abs(got - ref):.2e}, scale {scale:.2e})"
    return None


def cmp_matrix(got, ref, scale, tol, what="rho", herm=True, trace=None):
    got = np.asarray(got)
    if got.shape != ref.shape:
        return f"{what}: shape {got.shape} != reference {ref.shape}"
    if not np.all(np.isfinite(got)):
        return f"{what}: not finite"
    d = np.abs(got - ref).max() if got.size else 0.0
    if d > tol * scale:
        dt = np.abs(got - ref.T).max()
        dc = np.abs(got - ref.conj()).max()
        hint = " (equals the TRANSPOSE of the reference)" if dt <= tol * scale else (
            " (equals the CONJUGATE of the reference)" if dc <= tol * scale else "")
        return f"{what}: max |diff| {d:.2e} vs dense reference (scale {scale:.2e}){hint}"
    if herm and got.ndim == 2 and np.abs(got - got.conj().T).max() > 10 * tol * scale:
        return f"{what}: not hermitian ({np.abs(got - got.conj().T).max():.2e})"
    if trace is not None and abs(np.trace(got) - trace) > 10 * tol * max(1.0, abs(trace)):
        return f"{what}: trace {np.trace(got)} != {trace}"
    return None


# ----------------------------------------------------------------------------------------------
# state generators (all data from the driver's generator)
# ----------------------------------------------------------------------------------------------

def _rnd(rng, shape, dtype):
    x = rng.normal(size=shape)
    if "complex" in dtype:
        x = x + 1j * rng.normal(size=shape)
    return x.astype(dtype)


def make_mps(rng, L, dtype, cyclic=False, maxbond=3, dims=(2, 3)):
    import quimb.tensor as qtn

    p = [int(rng.choice(dims)) for _ in range(L)]
    nb = L if cyclic else L - 1
    b = [int(rng.integers(1, maxbond + 1)) for _ in range(nb)]
    arrays = []
    for i in range(L):
        if cyclic:
            shape = (b[(i - 1) % L], b[i], p[i])
        elif L == 1:
            shape = (p[i],)
        elif i == 0:
            shape = (b[0], p[i])
        elif i == L - 1:
            shape = (b[L - 2], p[i])
        else:
            shape = (b[i - 1], b[i], p[i])
        arrays.append(_rnd(rng, shape, dtype))
    return qtn.MatrixProductState(arrays, shape="lrp")  # cyclic is inferred from the first array being 3-dimensional


def make_graph_state(rng, n, dtype, extra_edges=0, labels="int", maxbond=3, dims=(2, 3), hyper=False, tree=False):
    """random connected graph state with per-bond and per-site dimensions; optional hyper index"""
    import quimb.tensor as qtn

    if labels == "int":
        names = list(range(n))
    elif labels == "str":
        names = [f"s{chr(97 + i)}" for i in range(n)]
    else:  # tuples of different length than 2/3 do not collide with lattice conventions
        names = [("q", i) for i in range(n)]
    edges = set()
    for i in range(1, n):  # random spanning tree
        j = int(rng.integers(0, i))
        edges.add((j, i))
    cand = [(i, j) for i in range(n) for j in range(i + 1, n) if (i, j) not in edges]
    if not tree and cand:
        for e in rng.permutation(len(cand))[:extra_edges]:
            edges.add(cand[int(e)])
    inds = {i: [] for i in range(n)}
    shapes = {i: [] for i in range(n)}
    for k, (i, j) in enumerate(sorted(edges)):
        d = int(rng.integers(1, maxbond + 1))
        for s in (i, j):
            inds[s].append(f"_bnd{k}")
            shapes[s].append(d)
    if hyper and n >= 3:
        d = int(rng.integers(2, 4))
        for s in [int(x) for x in rng.permutation(n)[:3]]:
            inds[s].append("_hyp")
            shapes[s].append(d)
    ts = []
    for i in range(n):
        p = int(rng.choice(dims))
        ii = inds[i] + ["k{}".format(names[i])]
        sh = shapes[i] + [p]
        perm = [int(x) for x in rng.permutation(len(ii))]  # physical index not always last
        data = _rnd(rng, [sh[q] for q in perm], dtype)
        ts.append(qtn.Tensor(data, inds=[ii[q] for q in perm], tags=["I{}".format(names[i])]))
    tn = qtn.TensorNetwork(ts)
    tn.view_as_(qtn.TensorNetworkGenVector, sites=names, site_tag_id="I{}", site_ind_id="k{}")
    return tn, sorted(edges)


def set_exponent(tn, rng, how, dtype):
    """give the network a stored exponent (the denoted state is data * 10**exponent)"""
    if how == "none":
        return
    single = dtype in ("float32", "complex64")
    if how == "attr":
        tn.exponent = float(rng.uniform(-1.5, 1.5)) if not single else float(rng.uniform(-0.7, 0.7))
    elif how == "equalize":
        tn.equalize_norms_(1.0)


def pick_wheres(rng, sites, nmax=3, count=4):
    """site tuples of 1..nmax sites in random (hence reversed / distant) order; always one reversed pair"""
    sites = list(sites)
    n = len(sites)
    out = []
    out.append((sites[int(rng.integers(n))],))
    if n >= 2:
        i = int(rng.integers(n - 1))
        out.append((sites[i + 1], sites[i]))  # reversed neighbours (in site order)
        a, b = [int(x) for x in rng.permutation(n)[:2]]
        out.append((sites[a], sites[b]))
        out.append((sites[n - 1], sites[0]))
    if n >= 3 and nmax >= 3:
        out.append(tuple(sites[int(x)] for x in rng.permutation(n)[:3]))
    seen, res = set(), []
    for w in out:
        if w not in seen:
            seen.add(w)
            res.append(w)
    return res[:max(count, 1)]


def jw(where):
    return [list(s) if isinstance(s, tuple) else s for s in where]


class Dense:
    """dense reference data of one state"""

    def __init__(self, tn, extra=()):
        self.sites = list(tn.sites)
        self.psi = dense_of(tn, [tn.site_ind(s) for s in self.sites], extra=extra)
        self.norm2 = float(np.vdot(self.psi, self.psi).real)

    def pos(self, where):
        return [self.sites.index(s) for s in where]

    def dim(self, where):
        return int(np.prod([self.psi.shape[p] for p in self.pos(where)], dtype=int))

    def rdm(self, where, normalized=True):
        return ref_rdm(self.psi, self.pos(where), normalized)

    def expec(self, G, where, normalized=True):
        return np.trace(np.asarray(G).reshape(self.dim(where), -1) @ self.rdm(where, normalized))

    def scale(self, G, normalized):
        g = float(np.linalg.norm(np.asarray(G).reshape(-1))) + 1e-300
        return g if normalized else g * self.norm2


# ----------------------------------------------------------------------------------------------
# helpers shared by the drivers
# ----------------------------------------------------------------------------------------------

def site_graph(tn):
    """adjacency between sites from the raw index lists (one tensor per site assumed)"""
    owner = {}
    for s in tn.sites:
        for t in tn.select_tensors(tn.site_tag(s)):
            for ix in t.inds:
                owner.setdefault(ix, set()).add(s)
    adj = {s: set() for s in tn.sites}
    for ix, ss in owner.items():
        for a in ss:
            adj[a] |= ss - {a}
    return adj


def is_connected(adj):
    if not adj:
        return True
    start = next(iter(adj))
    seen, todo = {start}, [start]
    while todo:
        for b in adj[todo.pop()]:
            if b not in seen:
                seen.add(b)
                todo.append(b)
    return len(seen) == len(adj)


def build_state(rng, geo, dtype):
    """geo = (kind, *size) -> (tn, descr)"""
    import quimb.tensor as qtn

    kind = geo[0]
    if kind == "mps":
        _, L, cyclic = geo
        return make_mps(rng, L, dtype, cyclic=cyclic)
    if kind == "mps-as-gen":
        _, L, cyclic = geo
        m = make_mps(rng, L, dtype, cyclic=cyclic)
        return m.view_as(qtn.TensorNetworkGenVector, sites=tuple(range(L)), site_tag_id=m.site_tag_id,
                         site_ind_id=m.site_ind_id)
    if kind == "peps":
        _, Lx, Ly, D, p, cyc = geo
        return qtn.PEPS.rand(Lx, Ly, D, phys_dim=p, dtype=dtype, seed=int(rng.integers(1 << 30)), cyclic=cyc)
    if kind == "peps3d":
        _, Lx, Ly, Lz, D, p = geo
        return qtn.PEPS3D.rand(Lx, Ly, Lz, D, phys_dim=p, dtype=dtype, seed=int(rng.integers(1 << 30)))
    if kind == "graph":
        _, n, extra, labels = geo
        return make_graph_state(rng, n, dtype, extra_edges=extra, labels=labels)[0]
    if kind == "tree":
        _, n, labels = geo
        return make_graph_state(rng, n, dtype, labels=labels, tree=True)[0]
    if kind == "hyper":
        _, n, extra = geo
        return make_graph_state(rng, n, dtype, extra_edges=extra, hyper=True)[0]
    raise ValueError(kind)


def geo_json(geo):
    return [list(x) if isinstance(x, tuple) else x for x in geo]


def _tnag_geometries(quick):
    g = []
    if quick:
        g += [("mps", 1, False), ("mps", 2, False), ("mps", 4, False), ("mps", 3, True), ("mps", 5, True)]
        g += [("peps", 1, 2, 2, 2, False), ("peps", 2, 2, 3, 2, False), ("peps", 2, 3, 2, 3, False),
              ("peps", 3, 3, 2, 2, False), ("peps", 2, 3, 2, 2, (True, False))]
        g += [("peps3d", 2, 2, 2, 2, 2), ("peps3d", 1, 2, 2, 2, 3)]
        g += [("graph", 1, 0, "int"), ("graph", 2, 0, "str"), ("graph", 4, 2, "tuple"), ("graph", 6, 3, "int"),
              ("tree", 5, "str"), ("hyper", 4, 1), ("hyper", 5, 0)]
    else:
        g += [("mps", L, False) for L in (1, 2, 3, 4, 6, 8)] + [("mps", L, True) for L in (2, 3, 4, 6, 7)]
        g += [("peps", 1, 1, 1, 2, False), ("peps", 1, 3, 2, 2, False), ("peps", 3, 1, 3, 2, False),
              ("peps", 2, 2, 3, 3, False), ("peps", 2, 2, 1, 2, False), ("peps", 2, 3, 2, 2, False),
              ("peps", 3, 2, 2, 3, False), ("peps", 3, 3, 2, 2, False), ("peps", 2, 2, 2, 1, False),
              ("peps", 3, 3, 2, 2, True), ("peps", 2, 3, 2, 2, (True, False)), ("peps", 3, 2, 2, 2, (False, True))]
        g += [("peps3d", 2, 2, 2, 2, 2), ("peps3d", 1, 2, 2, 2, 3), ("peps3d", 2, 1, 2, 3, 2), ("peps3d", 2, 2, 1, 2, 2),
              ("peps3d", 1, 1, 3, 2, 2)]
        g += [("graph", 1, 0, "int"), ("graph", 2, 0, "str"), ("graph", 3, 1, "int"), ("graph", 4, 2, "tuple"),
              ("graph", 5, 2, "str"), ("graph", 6, 3, "int"), ("graph", 7, 4, "int"), ("graph", 8, 2, "tuple"),
              ("tree", 3, "int"), ("tree", 6, "str"), ("tree", 8, "int"),
              ("hyper", 3, 0), ("hyper", 4, 1), ("hyper", 5, 0), ("hyper", 6, 2)]
    return g


@driver("C13", "tnag-exact-cluster-loop-routes", chunks=6, timeout=300,
        bound="states: MPS open L<=8 / periodic L<=7 (bond 1..3, site dims 2..3 mixed), PEPS up to 3x3 (bond<=3, open and "
              "periodic directions, 1xN), PEPS3D up to 2x2x2 (incl. unit dimensions), random connected graph states and trees "
              "with <=8 sites (int / str / tuple site labels, per-bond dims 1..3), graph states with one hyper index; "
              "4 dtypes; stored exponent none / set / equalize_norms; complex non-hermitian operators on 1..3 sites in "
              "random (reversed, distant) order; normalized True / False / 'return'. Routes: make_reduced_density_matrix, "
              "partial_trace_exact (get=matrix/array/tensor), local_expectation_exact, compute_local_expectation_exact, "
              "get_cluster / partial_trace_cluster / local_expectation_cluster / compute_local_expectation_cluster with "
              "max_distance >= number of sites (plain and with simple-update gauges; loopunion mode when it spans), "
              "local_expectation_gloop_expand / compute_ / norm_gloop_expand with a generalized loop spanning all sites, "
              "local_expectation_sloop_expand on rings. tolerance 1e-9 (double) / 3e-4 (single) x operator norm x <psi|psi>")
def tnag_routes(cx):
    import warnings

    import quimb.tensor as qtn  # noqa: F401

    warnings.filterwarnings("ignore")
    rng = cx.rng
    geos = _tnag_geometries(cx.quick)
    dts = DTYPES
    expos = ["none", "attr", "equalize"]
    reps = 1 if cx.quick else 2
    for geo, rep in itertools.product(geos, range(reps)):
        for di, dtype in enumerate(dts):
            # every geometry with complex128; other dtypes / exponent variants rotate over the geometries
            how = expos[(di + rep + len(geo) + (geo[1] if isinstance(geo[1], int) else 0)) % 3]
            if not cx.mine():
                continue
            if cx.out_of_time():
                cx.inconclusive.append("tnag-exact-cluster-loop-routes: time budget exhausted")
                return
            tn = build_state(rng, geo, dtype)
            set_exponent(tn, rng, how, dtype)
            _tnag_one_state(cx, rng, tn, geo, dtype, how, rep)


def _tnag_one_state(cx, rng, tn, geo, dtype, how, rep):
    kind = geo[0]
    has_exp = how != "none"
    base = dict(geo=geo_json(geo), dtype=dtype, exponent=has_exp, expo=how, rep=rep)
    tol = tol_of(dtype)
    dn = Dense(tn)
    sites = dn.sites
    n = len(sites)
    adj = site_graph(tn)
    mindeg = min((len(v) for v in adj.values()), default=0)
    ring = n >= 3 and all(len(v) == 2 for v in adj.values()) and is_connected(adj)
    hyper = kind == "hyper"
    unit_dim = kind in ("peps", "peps3d") and 1 in geo[1:(3 if kind == "peps" else 4)]
    wheres = pick_wheres(rng, sites, count=3 if cx.quick else 5)
    ops = {w: rand_op(rng, dn.dim(w)) for w in wheres}
    opt = "greedy" if rep % 2 == 0 else "auto-hq"

    # ---- reduced density matrix constructions ------------------------------------------------
    for w in wheres:
        p = dict(base, where=jw(w))
        kix = [tn.site_ind(s) for s in w]

        def t_mrdm(w=w, kix=kix):
            r = tn.make_reduced_density_matrix(w, bra_ind_id="_b{}")
            bix = ["_b{}".format(s) for s in w]
            outer = set(r.outer_inds())
            if outer != set(kix) | set(bix):
                return f"outer indices {sorted(outer)} != kept ket+bra indices"
            got = dense_of_two_layers(r, "KET", "BRA", kix + bix).reshape(dn.dim(w), dn.dim(w))
            return cmp_matrix(got, dn.rdm(w, False), dn.norm2, tol, "make_reduced_density_matrix")

        cx.check("make_reduced_density_matrix(where): ket labels x bra labels denote |psi><psi| traced over the rest",
                 p, t_mrdm)
        for nrm, get in itertools.product((True, False, "return"), ("matrix", "array", "tensor")):
            if cx.quick and get != "matrix" and nrm == "return" and len(w) > 1:
                continue

            def t_pte(w=w, nrm=nrm, get=get, kix=kix):
                r = tn.partial_trace_exact(w, normalized=nrm, get=get, optimize=opt)
                fac = None
                if nrm == "return":
                    r, fac = r
                D = dn.dim(w)
                if get == "tensor":
                    bix = ["_bra{}".format(s) for s in w]
                    if set(r.inds) != set(kix) | set(bix):
                        return f"tensor indices {r.inds}"
                    r = r.transpose(*kix, *bix).data
                r = np.asarray(r)
                if get == "matrix":
                    if r.shape != (D, D):
                        return f"matrix shape {r.shape} != {(D, D)}"
                else:
                    want = tuple(dn.psi.shape[q] for q in dn.pos(w)) * 2
                    if r.shape != want:
                        return f"array shape {r.shape} != {want}"
                    r = r.reshape(D, D)
                if fac is not None:
                    e = cmp_scalar(fac, dn.norm2, dn.norm2, tol, "returned normalisation factor")
                    if e:
                        return e
                ref = dn.rdm(w, nrm is True)
                return cmp_matrix(r, ref, 1.0 if nrm is True else dn.norm2, tol, "partial_trace_exact",
                                  trace=1.0 if nrm is True else None)

            cx.check("partial_trace_exact(where): hermitian, requested normalisation and site order, == dense partial trace",
                     dict(p, normalized=nrm, get=get), t_pte)

    # ---- exact expectation -------------------------------------------------------------------
    for w in wheres:
        G = ops[w]
        for nrm in (True, False, "return"):
            p = dict(base, where=jw(w), normalized=nrm)

            def t_lee(w=w, G=G, nrm=nrm, tensor_form=False):
                Gx = G.reshape(tuple(dn.psi.shape[q] for q in dn.pos(w)) * 2) if tensor_form else G
                r = tn.local_expectation_exact(Gx, w, normalized=nrm, optimize=opt)
                if nrm == "return":
                    r, fac = r
                    e = cmp_scalar(fac, dn.norm2, dn.norm2, tol, "returned normalisation factor")
                    if e:
                        return e
                return cmp_scalar(r, dn.expec(G, w, nrm is True), dn.scale(G, nrm is True), tol)

            cx.check("local_expectation_exact(G, where) == <psi|G|psi>[/<psi|psi>] of the dense state", p, t_lee)
            if nrm is True and len(w) > 1:
                cx.check("local_expectation_exact with G given as a 2k-dimensional array == matrix form",
                         p, lambda w=w, G=G, nrm=nrm, f=t_lee: f(w, G, nrm, True))
    for nrm, ra in itertools.product((True, False), (True, False)):
        terms = {w: ops[w] for w in wheres}

        def t_clee(nrm=nrm, ra=ra, terms=terms):
            r = tn.compute_local_expectation_exact(terms, normalized=nrm, return_all=ra, optimize=opt)
            refs = {w: dn.expec(G, w, nrm) for w, G in terms.items()}
            sc = max(dn.scale(G, nrm) for G in terms.values())
            if ra:
                if set(r) != set(terms):
                    return f"keys {list(r)}"
                for w in terms:
                    e = cmp_scalar(r[w], refs[w], sc, tol, f"term {w}")
                    if e:
                        return e
                return None
            return cmp_scalar(r, sum(refs.values()), sc * len(terms), tol, "sum of terms")

        cx.check("compute_local_expectation_exact(terms) == dense values (per term / summed)",
                 dict(base, normalized=nrm, return_all=ra, nterms=len(terms)), t_clee)
    if hyper:
        return

    # ---- cluster routes with a cluster spanning everything ----------------------------------
    gauge_sets = [("none", tn, None, dn)]
    if n >= 2:
        tg = tn.copy()
        gauges = {}
        try:
            tg.gauge_all_simple_(max_iterations=20, tol=1e-8, gauges=gauges)
            dg = Dense(tg, extra=[(g, ix) for ix, g in gauges.items()])
            gauge_sets.append(("simple-update", tg, gauges, dg))
        except Exception:  # the gauging itself is another property's business
            pass
    for (gname, tnx, gauges, dnx), w in itertools.product(gauge_sets, wheres):
        G = ops[w]
        gtol = tol * (1 if gauges is None else 30)
        for nrm in (True, False):
            p = dict(base, where=jw(w), normalized=nrm, gauges=gname)
            for mode in ("graphdistance", "loopunion"):
                if mode == "loopunion" and (mindeg < 2 or gauges is not None):
                    continue
                pm = dict(p, mode=mode)

                def spans(w=w, mode=mode, tnx=tnx):
                    k = tnx.get_cluster(w, max_distance=n + 1, mode=mode)
                    return k.num_tensors == tnx.num_tensors

                if mode == "loopunion":
                    try:
                        if not spans():
                            continue
                    except Exception:
                        continue
                else:
                    cx.check("get_cluster(where, max_distance >= number of sites) contains every tensor",
                             dict(base, where=jw(w), gauges=gname), lambda f=spans: None if f() else "cluster is smaller than the network",
                             nontrivial=n > 1)

                def t_lec(w=w, G=G, nrm=nrm, mode=mode, tnx=tnx, gauges=gauges, dnx=dnx, gtol=gtol):
                    r = tnx.local_expectation_cluster(G, w, normalized=nrm, max_distance=n + 1, mode=mode, gauges=gauges,
                                                      optimize=opt)
                    return cmp_scalar(r, dnx.expec(G, w, nrm), dnx.scale(G, nrm), gtol)

                cx.check("local_expectation_cluster with a cluster spanning the network == dense value", pm, t_lec)

                def t_ptc(w=w, nrm=nrm, mode=mode, tnx=tnx, gauges=gauges, dnx=dnx, gtol=gtol):
                    r = tnx.partial_trace_cluster(w, normalized=nrm, max_distance=n + 1, mode=mode, gauges=gauges,
                                                  optimize=opt)
                    return cmp_matrix(r, dnx.rdm(w, nrm), 1.0 if nrm else dnx.norm2, gtol, "partial_trace_cluster",
                                      trace=1.0 if nrm else None)

                cx.check("partial_trace_cluster with a cluster spanning the network == dense partial trace", pm, t_ptc)
    for (gname, tnx, gauges, dnx), nrm in itertools.product(gauge_sets, (True, False)):
        terms = {w: ops[w] for w in wheres}
        gtol = tol * (1 if gauges is None else 30)

        def t_clec(nrm=nrm, terms=terms, tnx=tnx, gauges=gauges, dnx=dnx, gtol=gtol):
            r = tnx.compute_local_expectation_cluster(terms, normalized=nrm, max_distance=n + 1, gauges=gauges,
                                                      return_all=True, optimize=opt)
            sc = max(dnx.scale(G, nrm) for G in terms.values())
            for w, G in terms.items():
                e = cmp_scalar(r[w], dnx.expec(G, w, nrm), sc, gtol, f"term {w}")
                if e:
                    return e
            s = tnx.compute_local_expectation_cluster(terms, normalized=nrm, max_distance=n + 1, gauges=gauges,
                                                      optimize=opt)
            return cmp_scalar(s, sum(dnx.expec(G, w, nrm) for w, G in terms.items()), sc * len(terms), gtol, "sum")

        cx.check("compute_local_expectation_cluster(terms) with spanning clusters == dense values",
                 dict(base, normalized=nrm, gauges=gname, nterms=len(terms)), t_clec)

    # ---- loop expansions whose (generalized) loop spans everything ----------------------------
    allsites = tuple(sites)
    for (gname, tnx, gauges, dnx), w in itertools.product(gauge_sets, wheres):
        G = ops[w]
        gtol = tol * (1 if gauges is None else 30) * 10
        variants = [("explicit", [allsites], False, "prod"), ("explicit", [allsites], False, "sum")]
        if mindeg >= 2:
            variants += [("explicit", [allsites], True, "prod"), ("int", n, False, "prod"), ("int", n, True, "sum")]
        for (gl, gloops, autoreduce, combine), nrm in itertools.product(variants, (True, False)):
            if cx.quick and gl == "int" and n > 6:
                continue
            gv = [("dict", gauges if gauges is not None else {})]
            if gauges is None and combine == "prod" and gl == "explicit" and not autoreduce:
                gv.append(("None-default", None))
            for gform, garg in gv:
                p = dict(base, where=jw(w), normalized=nrm, gauges=gname, gauges_arg=gform, gloops=gl, autoreduce=autoreduce,
                         combine=combine)

                def t_gl(w=w, G=G, nrm=nrm, gloops=gloops, autoreduce=autoreduce, combine=combine, garg=garg, tnx=tnx,
                         dnx=dnx, gtol=gtol):
                    r = tnx.local_expectation_gloop_expand(G, w, gloops=gloops, gauges=garg, normalized=nrm,
                                                           autoreduce=autoreduce, combine=combine, optimize=opt)
                    return cmp_scalar(r, dnx.expec(G, w, nrm), dnx.scale(G, nrm), gtol)

                cx.check("local_expectation_gloop_expand with a generalized loop spanning the network == dense value", p, t_gl)
        if ring:
            for (sl, autoreduce), nrm in itertools.product((("int", False), ("explicit", False), ("int", True)), (True, False)):
                p = dict(base, where=jw(w), normalized=nrm, gauges=gname, sloops=sl, autoreduce=autoreduce)

                def t_sl(w=w, G=G, nrm=nrm, sl=sl, autoreduce=autoreduce, tnx=tnx, gauges=gauges, dnx=dnx, gtol=gtol):
                    sloops = n if sl == "int" else tuple(tnx.gen_sloops(n))
                    r = tnx.local_expectation_sloop_expand(G, w, sloops=sloops, gauges=gauges, normalized=nrm,
                                                           autoreduce=autoreduce, optimize=opt)
                    return cmp_scalar(r, dnx.expec(G, w, nrm), dnx.scale(G, nrm), gtol)

                cx.check("local_expectation_sloop_expand on a ring (the loop is the network) == dense value", p, t_sl)
    for (gname, tnx, gauges, dnx), nrm in itertools.product(gauge_sets, (True, False, "global")):
        terms = {w: ops[w] for w in wheres}
        gtol = tol * (1 if gauges is None else 30) * 10
        if nrm == "global" and (mindeg < 2):
            continue  # the global norm expansion always reduces tree-like parts (valid at a fixed point only)

        def t_cgl(nrm=nrm, terms=terms, tnx=tnx, gauges=gauges, dnx=dnx, gtol=gtol):
            r = tnx.compute_local_expectation_gloop_expand(terms, gloops=[allsites], gauges=gauges if gauges is not None else {},
                                                           normalized=nrm, autoreduce=False, return_all=True, optimize=opt)
            nn = bool(nrm)
            sc = max(dnx.scale(G, nn) for G in terms.values())
            for w, G in terms.items():
                e = cmp_scalar(r[w], dnx.expec(G, w, nn), sc, gtol, f"term {w}")
                if e:
                    return e

        cx.check("compute_local_expectation_gloop_expand(terms) with a spanning generalized loop == dense values",
                 dict(base, normalized=nrm, gauges=gname, nterms=len(terms)), t_cgl)
    if mindeg >= 2:
        for (gname, tnx, gauges, dnx), se in itertools.product(gauge_sets, (False, True)):
            def t_ngl(se=se, tnx=tnx, gauges=gauges, dnx=dnx):
                r = tnx.norm_gloop_expand(gloops=[allsites], gauges=gauges if gauges is not None else {}, strip_exponent=se,
                                          autoreduce=False, optimize=opt)
                if se:
                    m, ex = r
                    r = complex(m) * 10.0 ** float(ex)
                return cmp_scalar(r, dnx.norm2 ** 0.5, dnx.norm2 ** 0.5, tol * 300, "norm")

            cx.check("norm_gloop_expand with a spanning generalized loop == sqrt(<psi|psi>)",
                     dict(base, gauges=gname, strip_exponent=se), t_ngl)
    del unit_dim


# ----------------------------------------------------------------------------------------------
# generic compressed-contraction routes with an untruncating cap
# ----------------------------------------------------------------------------------------------

def _compressed_geometries(quick):
    g = []
    if quick:
        g += [("mps-as-gen", 2, False), ("mps-as-gen", 5, False), ("mps-as-gen", 4, True),
              ("peps", 1, 3, 2, 2, False), ("peps", 2, 2, 2, 3, False), ("peps", 2, 3, 2, 2, False),
              ("peps", 3, 3, 2, 2, False), ("peps", 3, 2, 2, 2, (False, True)),
              ("graph", 1, 0, "int"), ("graph", 2, 0, "str"), ("graph", 5, 2, "tuple"), ("graph", 6, 3, "int"),
              ("tree", 5, "str")]
    else:
        g += [("mps-as-gen", L, False) for L in (1, 2, 3, 5, 8)] + [("mps-as-gen", L, True) for L in (3, 4, 6)]
        g += [("peps", 1, 1, 1, 2, False), ("peps", 1, 3, 2, 2, False), ("peps", 3, 1, 2, 3, False),
              ("peps", 2, 2, 3, 2, False), ("peps", 2, 3, 2, 2, False), ("peps", 3, 2, 2, 3, False),
              ("peps", 3, 3, 2, 2, False), ("peps", 3, 3, 2, 2, True), ("peps", 3, 2, 2, 2, (False, True))]
        g += [("graph", 1, 0, "int"), ("graph", 2, 0, "str"), ("graph", 3, 1, "int"), ("graph", 4, 2, "tuple"),
              ("graph", 5, 2, "str"), ("graph", 6, 3, "int"), ("graph", 7, 3, "int"), ("graph", 8, 2, "tuple"),
              ("tree", 4, "int"), ("tree", 7, "str")]
    return g


@driver("C13", "generic-compressed-routes", chunks=4, timeout=300,
        bound="TensorNetworkGenVector.partial_trace / local_expectation / compute_local_expectation (compressed contraction "
              "of the overlap) with max_bond=4096 (above every exact bond of the domain) and cutoff=0 on PEPS up to 3x3, "
              "graph states / trees <= 8 sites, MPS viewed as generic vectors (L<=8, open and periodic): flatten in "
              "{True, False, 'all'}, method in {contract_compressed, contract_around}, reduce=True for two-site terms, "
              "symmetrized auto/True/False, normalized or not, 4 dtypes, stored exponents; PEPS3D.local_expectation "
              "(inherited generic route). tolerance 1e-8 (double) / 3e-3 (single) relative to operator norm x <psi|psi>")
def compressed_routes(cx):
    import warnings

    warnings.filterwarnings("ignore")
    rng = cx.rng
    geos = _compressed_geometries(cx.quick)
    expos = ["none", "attr", "equalize"]
    for gi, geo in enumerate(geos):
        for di, dtype in enumerate(DTYPES):
            if cx.quick and di >= 2 and (gi + di) % 2:
                continue
            how = expos[(di + gi) % 3]
            if not cx.mine():
                continue
            if cx.out_of_time():
                cx.inconclusive.append("generic-compressed-routes: time budget exhausted")
                return
            tn = build_state(rng, geo, dtype)
            set_exponent(tn, rng, how, dtype)
            base = dict(geo=geo_json(geo), dtype=dtype, exponent=how != "none", expo=how)
            tol = tol_of(dtype, 10)
            dn = Dense(tn)
            wheres = pick_wheres(rng, dn.sites, count=3 if cx.quick else 5)
            ops = {w: rand_op(rng, dn.dim(w)) for w in wheres}
            for w in wheres:
                G = ops[w]
                grid = list(itertools.product((True, False, "all"), ("contract_compressed", "contract_around"), (True, False)))
                for flatten, method, nrm in grid:
                    sym = ["auto", True, False][int(rng.integers(3))]
                    reduces = [False] + ([True] if len(w) == 2 and method == "contract_compressed" else [])
                    for red in reduces:
                        p = dict(base, where=jw(w), flatten=flatten, method=method, normalized=nrm, symmetrized=sym, reduce=red,
                                 n_keep=len(w), n_sites=len(dn.sites))
                        kw = dict(max_bond=4096, optimize="greedy", flatten=flatten, method=method, normalized=nrm,
                                  symmetrized=sym, reduce=red, cutoff=0.0)

                        def t_pt(w=w, kw=kw, nrm=nrm):
                            r = tn.partial_trace(w, **kw)
                            return cmp_matrix(r, dn.rdm(w, nrm), 1.0 if nrm else dn.norm2, tol, "partial_trace",
                                              trace=1.0 if nrm else None)

                        cx.check("TensorNetworkGenVector.partial_trace (compressed, untruncating) == dense partial trace", p, t_pt)

                        def t_le(w=w, G=G, kw=kw, nrm=nrm):
                            r = tn.local_expectation(G, w, **kw)
                            return cmp_scalar(r, dn.expec(G, w, nrm), dn.scale(G, nrm), tol)

                        cx.check("TensorNetworkGenVector.local_expectation (compressed, untruncating) == dense value", p, t_le)
            terms = {w: ops[w] for w in wheres}
            for nrm, ra, flatten in itertools.product((True, False), (True, False), (True, False)):
                if geo[0] == "peps":
                    break  # the 2D class overrides compute_local_expectation (boundary route, see the lattice driver)

                def t_cle(nrm=nrm, ra=ra, flatten=flatten, terms=terms):
                    r = tn.compute_local_expectation(terms, max_bond=4096, optimize="greedy", normalized=nrm, return_all=ra,
                                                     flatten=flatten, cutoff=0.0)
                    sc = max(dn.scale(G, nrm) for G in terms.values())
                    refs = {w: dn.expec(G, w, nrm) for w, G in terms.items()}
                    if not ra:
                        return cmp_scalar(r, sum(refs.values()), sc * len(terms), tol, "sum of terms")
                    if set(r) != set(terms):
                        return f"keys {list(r)}"
                    for w in terms:
                        e = cmp_scalar(r[w], refs[w], sc, tol, f"term {w}")
                        if e:
                            return e

                cx.check("TensorNetworkGenVector.compute_local_expectation (compressed, untruncating) == dense values",
                         dict(base, normalized=nrm, return_all=ra, flatten=flatten, nterms=len(terms)), t_cle)
    # the generic route as inherited by the 3D class
    for gi, geo in enumerate([("peps3d", 2, 2, 2, 2, 2), ("peps3d", 1, 2, 2, 2, 2)]):
        if not cx.mine():
            continue
        dtype = DTYPES[gi % 2]
        tn = build_state(rng, geo, dtype)
        dn = Dense(tn)
        for w in pick_wheres(rng, dn.sites, count=3):
            G = rand_op(rng, dn.dim(w))
            for nrm in (True, False):
                def t_le3(w=w, G=G, nrm=nrm):
                    r = tn.local_expectation(G, w, max_bond=4096, optimize="greedy", normalized=nrm, cutoff=0.0)
                    return cmp_scalar(r, dn.expec(G, w, nrm), dn.scale(G, nrm), tol_of(dtype, 10))

                cx.check("PEPS3D.local_expectation (generic compressed route inherited from TensorNetworkGenVector) == dense value",
                         dict(geo=geo_json(geo), dtype=dtype, where=jw(w), normalized=nrm), t_le3)
