"""C13 bounded stand-in: every route to a local expectation value / reduced density matrix vs the dense state.

Reference semantics (shares no code with quimb): the dense state is obtained by one numpy einsum over the raw
tensor data of the *input* network (times 10**exponent), the reduced density matrix is
``rho[k, b] = sum_rest psi[k, rest] conj(psi[b, rest])`` with the kept sites in the order requested, and the
expectation value is ``trace(G @ rho)`` = <psi|G|psi> with the factors of G attached to the sites in the order
given (divided by <psi|psi> when normalised).
"""

import itertools

import numpy as np

from vf.rtc import driver

DTYPES = ["complex128", "float64", "complex64", "float32"]


# ----------------------------------------------------------------------------------------------
# independent reference
# ----------------------------------------------------------------------------------------------

def contract_dense(ops, out):
    """sum over all labels not in ``out`` of the product of the operands [(array, labels)]: pairwise two-operand
    einsums in a connectivity-driven order (hyper labels and repeated labels allowed)"""
    ops = [(np.asarray(a), list(ii)) for a, ii in ops]
    cur, cinds = ops.pop(0)
    while True:
        rest = set(out)
        for _, ii in ops:
            rest.update(ii)
        keep = [ix for ix in dict.fromkeys(cinds) if ix in rest]
        if not ops:
            break
        j = max(range(len(ops)), key=lambda q: (len(set(ops[q][1]) & set(cinds)), -ops[q][0].size))
        a, ai = ops.pop(j)
        rest = set(out)
        for _, ii in ops:
            rest.update(ii)
        new = [ix for ix in dict.fromkeys(list(cinds) + list(ai)) if ix in rest]
        ids = {ix: q for q, ix in enumerate(dict.fromkeys(list(cinds) + list(ai)))}
        cur = np.einsum(cur, [ids[i] for i in cinds], a, [ids[i] for i in ai], [ids[i] for i in new], optimize=True)
        cinds = new
    ids = {ix: q for q, ix in enumerate(dict.fromkeys(list(cinds) + list(out)))}
    return np.einsum(cur, [ids[i] for i in cinds], [ids[i] for i in out])


def dense_of(tn, out_inds, extra=()):
    """dense array of the raw tensor data (in double precision) on ``out_inds``; ``extra`` = [(vector, index)] are
    diagonal bond weights; the stored exponent is included"""
    ops = [(np.asarray(t.data).astype(np.complex128), t.inds) for t in tn.tensors]
    ops += [(np.asarray(vec).astype(np.complex128), [ind]) for vec, ind in extra]
    return contract_dense(ops, list(out_inds)) * 10.0 ** float(tn.exponent)


def dense_of_two_layers(tn, tag_a, tag_b, out_inds):
    """dense array of a two-layer network: each layer is densified on its own (labels shared with the other layer or
    dangling stay open) and the two blocks are joined by one two-operand einsum"""
    ta = [t for t in tn.tensors if tag_a in t.tags]
    tb = [t for t in tn.tensors if tag_b in t.tags]
    if len(ta) + len(tb) != tn.num_tensors:
        raise ValueError("layers do not partition the network")
    ca, cb = {}, {}
    for t in ta:
        for ix in t.inds:
            ca[ix] = ca.get(ix, 0) + 1
    for t in tb:
        for ix in t.inds:
            cb[ix] = cb.get(ix, 0) + 1
    oa = [ix for ix in ca if ix in cb or ix in out_inds]
    ob = [ix for ix in cb if ix in ca or ix in out_inds]
    A = contract_dense([(np.asarray(t.data).astype(np.complex128), t.inds) for t in ta], oa)
    B = contract_dense([(np.asarray(t.data).astype(np.complex128), t.inds) for t in tb], ob)
    return contract_dense([(A, oa), (B, ob)], list(out_inds)) * 10.0 ** float(tn.exponent)


def ref_rdm(psi, pos, normalized=True):
    k = len(pos)
    x = np.moveaxis(psi, list(pos), list(range(k)))
    D = int(np.prod(x.shape[:k], dtype=int))
    M = x.reshape(D, -1)
    rho = M @ M.conj().T
    if normalized:
        rho = rho / np.trace(rho)
    return rho


def rand_op(rng, D):
    """complex, non-symmetric, non-hermitian"""
    return rng.normal(size=(D, D)) + 1j * rng.normal(size=(D, D))


def tol_of(dtype, loose=1.0):
    return (3e-4 if dtype in ("float32", "complex64") else 1e-9) * loose


def cmp_scalar(got, ref, scale, tol, what="value"):
    if np.ndim(got) != 0:
        return f"{what}: expected a scalar, got shape {np.shape(got)}"
    got = complex(got)
    if not np.isfinite(got):
        return f"{what}: not finite ({got})"
    if abs(got - ref) > tol * scale:
        return f"{what}: got {got:.10g}, dense reference {complex(ref):.10g} (|diff|={abs(got - ref):.2e}, scale {scale:.2e})"
    return None


def cmp_matrix(got, ref, scale, tol, what="rho", herm=True, trace=None):
    got = np.asarray(got)
    if got.shape != ref.shape:
        return f"{what}: shape {got.shape} != reference {ref.shape}"
    if not np.all(np.isfinite(got)):
        return f"{what}: not finite"
    d = np.abs(got - ref).max() if got.size else 0.0
    if d > tol * scale:
        dt = np.abs(got - ref.T).max()
        dc = np.abs(got - ref.conj()).max()
        hint = " (equals the TRANSPOSE of the reference)" if dt <= tol * scale else (
            " (equals the CONJUGATE of the reference)" if dc <= tol * scale else "")
        return f"{what}: max |diff| {d:.2e} vs dense reference (scale {scale:.2e}){hint}"
    if herm and got.ndim == 2 and np.abs(got - got.conj().T).max() > 10 * tol * scale:
        return f"{what}: not hermitian ({np.abs(got - got.conj().T).max():.2e})"
    if trace is not None and abs(np.trace(got) - trace) > 10 * tol * max(1.0, abs(trace)):
        return f"{what}: trace {np.trace(got)} != {trace}"
    return None


# ----------------------------------------------------------------------------------------------
# state generators (all data from the driver's generator)
# ----------------------------------------------------------------------------------------------

def _rnd(rng, shape, dtype):
    x = rng.normal(size=shape)
    if "complex" in dtype:
        x = x + 1j * rng.normal(size=shape)
    return x.astype(dtype)


def make_mps(rng, L, dtype, cyclic=False, maxbond=3, dims=(2, 3)):
    import quimb.tensor as qtn

    p = [int(rng.choice(dims)) for _ in range(L)]
    nb = L if cyclic else L - 1
    b = [int(rng.integers(1, maxbond + 1)) for _ in range(nb)]
    arrays = []
    for i in range(L):
        if cyclic:
            shape = (b[(i - 1) % L], b[i], p[i])
        elif L == 1:
            shape = (p[i],)
        elif i == 0:
            shape = (b[0], p[i])
        elif i == L - 1:
            shape = (b[L - 2], p[i])
        else:
            shape = (b[i - 1], b[i], p[i])
        arrays.append(_rnd(rng, shape, dtype))
    return qtn.MatrixProductState(arrays, shape="lrp")  # cyclic is inferred from the first array being 3-dimensional


def make_graph_state(rng, n, dtype, extra_edges=0, labels="int", maxbond=3, dims=(2, 3), hyper=False, tree=False):
    """random connected graph state with per-bond and per-site dimensions; optional hyper index"""
    import quimb.tensor as qtn

    if labels == "int":
        names = list(range(n))
    elif labels == "str":
        names = [f"s{chr(97 + i)}" for i in range(n)]
    else:  # tuples of different length than 2/3 do not collide with lattice conventions
        names = [("q", i) for i in range(n)]
    edges = set()
    for i in range(1, n):  # random spanning tree
        j = int(rng.integers(0, i))
        edges.add((j, i))
    cand = [(i, j) for i in range(n) for j in range(i + 1, n) if (i, j) not in edges]
    if not tree and cand:
        for e in rng.permutation(len(cand))[:extra_edges]:
            edges.add(cand[int(e)])
    inds = {i: [] for i in range(n)}
    shapes = {i: [] for i in range(n)}
    for k, (i, j) in enumerate(sorted(edges)):
        d = int(rng.integers(1, maxbond + 1))
        for s in (i, j):
            inds[s].append(f"_bnd{k}")
            shapes[s].append(d)
    if hyper and n >= 3:
        d = int(rng.integers(2, 4))
        for s in [int(x) for x in rng.permutation(n)[:3]]:
            inds[s].append("_hyp")
            shapes[s].append(d)
    ts = []
    for i in range(n):
        p = int(rng.choice(dims))
        ii = inds[i] + ["k{}".format(names[i])]
        sh = shapes[i] + [p]
        perm = [int(x) for x in rng.permutation(len(ii))]  # physical index not always last
        data = _rnd(rng, [sh[q] for q in perm], dtype)
        ts.append(qtn.Tensor(data, inds=[ii[q] for q in perm], tags=["I{}".format(names[i])]))
    tn = qtn.TensorNetwork(ts)
    tn.view_as_(qtn.TensorNetworkGenVector, sites=names, site_tag_id="I{}", site_ind_id="k{}")
    return tn, sorted(edges)


def set_exponent(tn, rng, how, dtype):
    """give the network a stored exponent (the denoted state is data * 10**exponent)"""
    if how == "none":
        return
    single = dtype in ("float32", "complex64")
    if how == "attr":
        tn.exponent = float(rng.uniform(-1.5, 1.5)) if not single else float(rng.uniform(-0.7, 0.7))
    elif how == "equalize":
        tn.equalize_norms_(1.0)


def pick_wheres(rng, sites, nmax=3, count=4):
    """site tuples of 1..nmax sites in random (hence reversed / distant) order; always one reversed pair"""
    sites = list(sites)
    n = len(sites)
    out = []
    out.append((sites[int(rng.integers(n))],))
    if n >= 2:
        i = int(rng.integers(n - 1))
        out.append((sites[i + 1], sites[i]))  # reversed neighbours (in site order)
        a, b = [int(x) for x in rng.permutation(n)[:2]]
        out.append((sites[a], sites[b]))
        out.append((sites[n - 1], sites[0]))
    if n >= 3 and nmax >= 3:
        out.append(tuple(sites[int(x)] for x in rng.permutation(n)[:3]))
    seen, res = set(), []
    for w in out:
        if w not in seen:
            seen.add(w)
            res.append(w)
    return res[:max(count, 1)]


def jw(where):
    return [list(s) if isinstance(s, tuple) else s for s in where]


class Dense:
    """dense reference data of one state"""

    def __init__(self, tn, extra=()):
        self.sites = list(tn.sites)
        self.psi = dense_of(tn, [tn.site_ind(s) for s in self.sites], extra=extra)
        self.norm2 = float(np.vdot(self.psi, self.psi).real)

    def pos(self, where):
        return [self.sites.index(s) for s in where]

    def dim(self, where):
        return int(np.prod([self.psi.shape[p] for p in self.pos(where)], dtype=int))

    def rdm(self, where, normalized=True):
        return ref_rdm(self.psi, self.pos(where), normalized)

    def expec(self, G, where, normalized=True):
        return np.trace(np.asarray(G).reshape(self.dim(where), -1) @ self.rdm(where, normalized))

    def scale(self, G, normalized):
        g = float(np.linalg.norm(np.asarray(G).reshape(-1))) + 1e-300
        return g if normalized else g * self.norm2


# ----------------------------------------------------------------------------------------------
# helpers shared by the drivers
# ----------------------------------------------------------------------------------------------

def quiet_env():
    """no warnings; the path optimiser (cotengra) must not start process pools: the harness workers are daemonic
    processes (children are not allowed) and the cores are shared"""
    import warnings

    warnings.filterwarnings("ignore")
    try:
        import cotengra.parallel as cp

        cp._IS_WORKER = True  # "worker subprocesses should not auto-create pools"
    except Exception:  # noqa
        pass


def site_graph(tn):
    """adjacency between sites from the raw index lists (one tensor per site assumed)"""
    owner = {}
    for s in tn.sites:
        for t in tn.select_tensors(tn.site_tag(s)):
            for ix in t.inds:
                owner.setdefault(ix, set()).add(s)
    adj = {s: set() for s in tn.sites}
    for ix, ss in owner.items():
        for a in ss:
            adj[a] |= ss - {a}
    return adj


def is_connected(adj):
    if not adj:
        return True
    start = next(iter(adj))
    seen, todo = {start}, [start]
    while todo:
        for b in adj[todo.pop()]:
            if b not in seen:
                seen.add(b)
                todo.append(b)
    return len(seen) == len(adj)


def build_state(rng, geo, dtype):
    """geo = (kind, *size) -> (tn, descr)"""
    import quimb.tensor as qtn

    kind = geo[0]
    if kind == "mps":
        _, L, cyclic = geo
        return make_mps(rng, L, dtype, cyclic=cyclic)
    if kind == "mps-as-gen":
        _, L, cyclic = geo
        m = make_mps(rng, L, dtype, cyclic=cyclic)
        return m.view_as(qtn.TensorNetworkGenVector, sites=tuple(range(L)), site_tag_id=m.site_tag_id,
                         site_ind_id=m.site_ind_id)
    if kind == "peps":
        _, Lx, Ly, D, p, cyc = geo
        return qtn.PEPS.rand(Lx, Ly, D, phys_dim=p, dtype=dtype, seed=int(rng.integers(1 << 30)), cyclic=cyc)
    if kind == "peps3d":
        _, Lx, Ly, Lz, D, p = geo
        return qtn.PEPS3D.rand(Lx, Ly, Lz, D, phys_dim=p, dtype=dtype, seed=int(rng.integers(1 << 30)))
    if kind == "graph":
        _, n, extra, labels = geo
        return make_graph_state(rng, n, dtype, extra_edges=extra, labels=labels)[0]
    if kind == "tree":
        _, n, labels = geo
        return make_graph_state(rng, n, dtype, labels=labels, tree=True)[0]
    if kind == "hyper":
        _, n, extra = geo
        return make_graph_state(rng, n, dtype, extra_edges=extra, hyper=True)[0]
    raise ValueError(kind)


def geo_json(geo):
    return [list(x) if isinstance(x, tuple) else x for x in geo]


def _tnag_geometries(quick):
    g = []
    if quick:
        g += [("mps", 1, False), ("mps", 2, False), ("mps", 4, False), ("mps", 3, True), ("mps", 5, True)]
        g += [("peps", 1, 2, 2, 2, False), ("peps", 2, 2, 3, 2, False), ("peps", 2, 3, 2, 3, False),
              ("peps", 3, 3, 2, 2, False), ("peps", 2, 3, 2, 2, (True, False))]
        g += [("peps3d", 2, 2, 2, 2, 2), ("peps3d", 1, 2, 2, 2, 3)]
        g += [("graph", 1, 0, "int"), ("graph", 2, 0, "str"), ("graph", 4, 2, "tuple"), ("graph", 6, 3, "int"),
              ("tree", 5, "str"), ("hyper", 4, 1), ("hyper", 5, 0)]
    else:
        g += [("mps", L, False) for L in (1, 2, 3, 4, 6, 8)] + [("mps", L, True) for L in (2, 3, 4, 6, 7)]
        g += [("peps", 1, 1, 1, 2, False), ("peps", 1, 3, 2, 2, False), ("peps", 3, 1, 3, 2, False),
              ("peps", 2, 2, 3, 3, False), ("peps", 2, 2, 1, 2, False), ("peps", 2, 3, 2, 2, False),
              ("peps", 3, 2, 2, 3, False), ("peps", 3, 3, 2, 2, False), ("peps", 2, 2, 2, 1, False),
              ("peps", 3, 3, 2, 2, True), ("peps", 2, 3, 2, 2, (True, False)), ("peps", 3, 2, 2, 2, (False, True))]
        g += [("peps3d", 2, 2, 2, 2, 2), ("peps3d", 1, 2, 2, 2, 3), ("peps3d", 2, 1, 2, 3, 2), ("peps3d", 2, 2, 1, 2, 2),
              ("peps3d", 1, 1, 3, 2, 2)]
        g += [("graph", 1, 0, "int"), ("graph", 2, 0, "str"), ("graph", 3, 1, "int"), ("graph", 4, 2, "tuple"),
              ("graph", 5, 2, "str"), ("graph", 6, 3, "int"), ("graph", 7, 4, "int"), ("graph", 8, 2, "tuple"),
              ("tree", 3, "int"), ("tree", 6, "str"), ("tree", 8, "int"),
              ("hyper", 3, 0), ("hyper", 4, 1), ("hyper", 5, 0), ("hyper", 6, 2)]
    return g


@driver("C13", "tnag-exact-cluster-loop-routes", chunks=4, timeout=300,
        bound="states: MPS open L<=8 / periodic L<=7 (bond 1..3, site dims 2..3 mixed), PEPS up to 3x3 (bond<=3, open and "
              "periodic directions, 1xN), PEPS3D up to 2x2x2 (incl. unit dimensions), random connected graph states and trees "
              "with <=8 sites (int / str / tuple site labels, per-bond dims 1..3), graph states with one hyper index; "
              "4 dtypes; stored exponent none / set / equalize_norms; complex non-hermitian operators on 1..3 sites in "
              "random (reversed, distant) order; normalized True / False / 'return'. Routes: make_reduced_density_matrix, "
              "partial_trace_exact (get=matrix/array/tensor), local_expectation_exact, compute_local_expectation_exact, "
              "get_cluster / partial_trace_cluster / local_expectation_cluster / compute_local_expectation_cluster with "
              "max_distance >= number of sites (plain and with simple-update gauges; loopunion mode when it spans), "
              "local_expectation_gloop_expand / compute_ / norm_gloop_expand with a generalized loop spanning all sites, "
              "local_expectation_sloop_expand on rings. tolerance 1e-9 (double) / 3e-4 (single) x operator norm x <psi|psi>")
def tnag_routes(cx):
    import quimb.tensor as qtn  # noqa: F401

    quiet_env()
    rng = cx.rng
    geos = _tnag_geometries(cx.quick)
    dts = DTYPES
    expos = ["none", "attr", "equalize"]
    reps = 1 if cx.quick else 2
    for geo, rep in itertools.product(geos, range(reps)):
        for di, dtype in enumerate(dts):
            # every geometry with complex128; other dtypes / exponent variants rotate over the geometries
            how = expos[(di + rep + len(geo) + (geo[1] if isinstance(geo[1], int) else 0)) % 3]
            if not cx.mine():
                continue
            if cx.out_of_time():
                cx.inconclusive.append("tnag-exact-cluster-loop-routes: time budget exhausted")
                return
            tn = build_state(rng, geo, dtype)
            set_exponent(tn, rng, how, dtype)
            _tnag_one_state(cx, rng, tn, geo, dtype, how, rep)


def _tnag_one_state(cx, rng, tn, geo, dtype, how, rep):
    kind = geo[0]
    has_exp = how != "none"
    base = dict(geo=geo_json(geo), dtype=dtype, exponent=has_exp, expo=how, rep=rep)
    tol = tol_of(dtype)
    dn = Dense(tn)
    sites = dn.sites
    n = len(sites)
    adj = site_graph(tn)
    mindeg = min((len(v) for v in adj.values()), default=0)
    ring = n >= 3 and all(len(v) == 2 for v in adj.values()) and is_connected(adj)
    hyper = kind == "hyper"
    unit_dim = kind in ("peps", "peps3d") and 1 in geo[1:(3 if kind == "peps" else 4)]
    wheres = pick_wheres(rng, sites, count=3 if cx.quick else 5)
    ops = {w: rand_op(rng, dn.dim(w)) for w in wheres}
    opt = "greedy" if rep % 2 == 0 else "auto-hq"

    # ---- reduced density matrix constructions ------------------------------------------------
    for w in wheres:
        p = dict(base, where=jw(w))
        kix = [tn.site_ind(s) for s in w]

        def t_mrdm(w=w, kix=kix):
            r = tn.make_reduced_density_matrix(w, bra_ind_id="_b{}")
            bix = ["_b{}".format(s) for s in w]
            outer = set(r.outer_inds())
            if outer != set(kix) | set(bix):
                return f"outer indices {sorted(outer)} != kept ket+bra indices"
            got = dense_of_two_layers(r, "KET", "BRA", kix + bix).reshape(dn.dim(w), dn.dim(w))
            return cmp_matrix(got, dn.rdm(w, False), dn.norm2, tol, "make_reduced_density_matrix")

        cx.check("make_reduced_density_matrix(where): ket labels x bra labels denote |psi><psi| traced over the rest",
                 p, t_mrdm)
        for nrm, get in itertools.product((True, False, "return"), ("matrix", "array", "tensor")):
            if cx.quick and get != "matrix" and nrm == "return" and len(w) > 1:
                continue

            def t_pte(w=w, nrm=nrm, get=get, kix=kix):
                r = tn.partial_trace_exact(w, normalized=nrm, get=get, optimize=opt)
                fac = None
                if nrm == "return":
                    r, fac = r
                D = dn.dim(w)
                if get == "tensor":
                    bix = ["_bra{}".format(s) for s in w]
                    if set(r.inds) != set(kix) | set(bix):
                        return f"tensor indices {r.inds}"
                    r = r.transpose(*kix, *bix).data
                r = np.asarray(r)
                if get == "matrix":
                    if r.shape != (D, D):
                        return f"matrix shape {r.shape} != {(D, D)}"
                else:
                    want = tuple(dn.psi.shape[q] for q in dn.pos(w)) * 2
                    if r.shape != want:
                        return f"array shape {r.shape} != {want}"
                    r = r.reshape(D, D)
                if fac is not None:
                    e = cmp_scalar(fac, dn.norm2, dn.norm2, tol, "returned normalisation factor")
                    if e:
                        return e
                ref = dn.rdm(w, nrm is True)
                return cmp_matrix(r, ref, 1.0 if nrm is True else dn.norm2, tol, "partial_trace_exact",
                                  trace=1.0 if nrm is True else None)

            cx.check("partial_trace_exact(where): hermitian, requested normalisation and site order, == dense partial trace",
                     dict(p, normalized=nrm, get=get), t_pte)

    # ---- exact expectation -------------------------------------------------------------------
    for w in wheres:
        G = ops[w]
        for nrm in (True, False, "return"):
            p = dict(base, where=jw(w), normalized=nrm)

            def t_lee(w=w, G=G, nrm=nrm, tensor_form=False):
                Gx = G.reshape(tuple(dn.psi.shape[q] for q in dn.pos(w)) * 2) if tensor_form else G
                r = tn.local_expectation_exact(Gx, w, normalized=nrm, optimize=opt)
                if nrm == "return":
                    r, fac = r
                    e = cmp_scalar(fac, dn.norm2, dn.norm2, tol, "returned normalisation factor")
                    if e:
                        return e
                return cmp_scalar(r, dn.expec(G, w, nrm is True), dn.scale(G, nrm is True), tol)

            cx.check("local_expectation_exact(G, where) == <psi|G|psi>[/<psi|psi>] of the dense state", p, t_lee)
            if nrm is True and len(w) > 1:
                cx.check("local_expectation_exact with G given as a 2k-dimensional array == matrix form",
                         p, lambda w=w, G=G, nrm=nrm, f=t_lee: f(w, G, nrm, True))
    for nrm, ra in itertools.product((True, False), (True, False)):
        terms = {w: ops[w] for w in wheres}

        def t_clee(nrm=nrm, ra=ra, terms=terms):
            r = tn.compute_local_expectation_exact(terms, normalized=nrm, return_all=ra, optimize=opt)
            refs = {w: dn.expec(G, w, nrm) for w, G in terms.items()}
            sc = max(dn.scale(G, nrm) for G in terms.values())
            if ra:
                if set(r) != set(terms):
                    return f"keys {list(r)}"
                for w in terms:
                    e = cmp_scalar(r[w], refs[w], sc, tol, f"term {w}")
                    if e:
                        return e
                return None
            return cmp_scalar(r, sum(refs.values()), sc * len(terms), tol, "sum of terms")

        cx.check("compute_local_expectation_exact(terms) == dense values (per term / summed)",
                 dict(base, normalized=nrm, return_all=ra, nterms=len(terms)), t_clee)
    if hyper:
        return

    # ---- cluster routes with a cluster spanning everything ----------------------------------
    gauge_sets = [("none", tn, None, dn)]
    if n >= 2:
        tg = tn.copy()
        gauges = {}
        try:
            tg.gauge_all_simple_(max_iterations=20, tol=1e-8, gauges=gauges)
            dg = Dense(tg, extra=[(g, ix) for ix, g in gauges.items()])
            gauge_sets.append(("simple-update", tg, gauges, dg))
        except Exception:  # the gauging itself is another property's business
            pass
    for (gname, tnx, gauges, dnx), w in itertools.product(gauge_sets, wheres):
        G = ops[w]
        gtol = tol * (1 if gauges is None else 30)
        for nrm in (True, False):
            p = dict(base, where=jw(w), normalized=nrm, gauges=gname)
            for mode in ("graphdistance", "loopunion"):
                if mode == "loopunion" and (mindeg < 2 or gauges is not None):
                    continue
                pm = dict(p, mode=mode)

                def spans(w=w, mode=mode, tnx=tnx):
                    k = tnx.get_cluster(w, max_distance=n + 1, mode=mode)
                    return k.num_tensors == tnx.num_tensors

                if mode == "loopunion":
                    try:
                        if not spans():
                            continue
                    except Exception:
                        continue
                else:
                    cx.check("get_cluster(where, max_distance >= number of sites) contains every tensor",
                             dict(base, where=jw(w), gauges=gname), lambda f=spans: None if f() else "cluster is smaller than the network",
                             nontrivial=n > 1)

                def t_lec(w=w, G=G, nrm=nrm, mode=mode, tnx=tnx, gauges=gauges, dnx=dnx, gtol=gtol):
                    r = tnx.local_expectation_cluster(G, w, normalized=nrm, max_distance=n + 1, mode=mode, gauges=gauges,
                                                      optimize=opt)
                    return cmp_scalar(r, dnx.expec(G, w, nrm), dnx.scale(G, nrm), gtol)

                cx.check("local_expectation_cluster with a cluster spanning the network == dense value", pm, t_lec)

                def t_ptc(w=w, nrm=nrm, mode=mode, tnx=tnx, gauges=gauges, dnx=dnx, gtol=gtol):
                    r = tnx.partial_trace_cluster(w, normalized=nrm, max_distance=n + 1, mode=mode, gauges=gauges,
                                                  optimize=opt)
                    return cmp_matrix(r, dnx.rdm(w, nrm), 1.0 if nrm else dnx.norm2, gtol, "partial_trace_cluster",
                                      trace=1.0 if nrm else None)

                if kind != "peps3d":  # (PEPS3D overrides partial_trace_cluster with a boundary-contraction signature: 3D driver)
                    cx.check("partial_trace_cluster with a cluster spanning the network == dense partial trace", pm, t_ptc)
    for (gname, tnx, gauges, dnx), nrm in itertools.product(gauge_sets, (True, False)):
        terms = {w: ops[w] for w in wheres}
        gtol = tol * (1 if gauges is None else 30)

        def t_clec(nrm=nrm, terms=terms, tnx=tnx, gauges=gauges, dnx=dnx, gtol=gtol):
            r = tnx.compute_local_expectation_cluster(terms, normalized=nrm, max_distance=n + 1, gauges=gauges,
                                                      return_all=True, optimize=opt)
            sc = max(dnx.scale(G, nrm) for G in terms.values())
            for w, G in terms.items():
                e = cmp_scalar(r[w], dnx.expec(G, w, nrm), sc, gtol, f"term {w}")
                if e:
                    return e
            s = tnx.compute_local_expectation_cluster(terms, normalized=nrm, max_distance=n + 1, gauges=gauges,
                                                      optimize=opt)
            return cmp_scalar(s, sum(dnx.expec(G, w, nrm) for w, G in terms.items()), sc * len(terms), gtol, "sum")

        cx.check("compute_local_expectation_cluster(terms) with spanning clusters == dense values",
                 dict(base, normalized=nrm, gauges=gname, nterms=len(terms)), t_clec)

    # ---- loop expansions whose (generalized) loop spans everything ----------------------------
    allsites = tuple(sites)
    for (gname, tnx, gauges, dnx), w in itertools.product(gauge_sets, wheres):
        G = ops[w]
        gtol = tol * (1 if gauges is None else 30) * 10
        variants = [("explicit", [allsites], False, "prod"), ("explicit", [allsites], False, "sum")]
        if mindeg >= 2:
            variants += [("explicit", [allsites], True, "prod"), ("int", n, False, "prod"), ("int", n, True, "sum")]
        # normalized: True / False and the documented strings 'local' and 'separate' (each region divided by its own norm /
        # sum of values over sum of norms: with a spanning loop both are the normalised value, for either combine)
        for (gl, gloops, autoreduce, combine), nrm in itertools.product(variants, (True, False, "local", "separate")):
            if cx.quick and gl == "int" and n > 6:
                continue
            if isinstance(nrm, str) and (gl != "explicit" or autoreduce):
                continue
            gv = [("dict", gauges if gauges is not None else {})]
            if gauges is None and combine == "prod" and gl == "explicit" and not autoreduce:
                gv.append(("None-default", None))
            for gform, garg in gv:
                p = dict(base, where=jw(w), normalized=nrm, gauges=gname, gauges_arg=gform, gloops=gl, autoreduce=autoreduce,
                         combine=combine)

                def t_gl(w=w, G=G, nrm=nrm, gloops=gloops, autoreduce=autoreduce, combine=combine, garg=garg, tnx=tnx,
                         dnx=dnx, gtol=gtol):
                    r = tnx.local_expectation_gloop_expand(G, w, gloops=gloops, gauges=garg, normalized=nrm,
                                                           autoreduce=autoreduce, combine=combine, optimize=opt)
                    return cmp_scalar(r, dnx.expec(G, w, bool(nrm)), dnx.scale(G, bool(nrm)), gtol)

                cx.check("local_expectation_gloop_expand with a generalized loop spanning the network == dense value", p, t_gl)
        if ring:
            for (sl, autoreduce), nrm in itertools.product((("int", False), ("explicit", False), ("int", True)),
                                                           (True, False, "local", "separate")):
                if isinstance(nrm, str) and (sl != "explicit" or autoreduce):
                    continue
                p = dict(base, where=jw(w), normalized=nrm, gauges=gname, sloops=sl, autoreduce=autoreduce)

                def t_sl(w=w, G=G, nrm=nrm, sl=sl, autoreduce=autoreduce, tnx=tnx, gauges=gauges, dnx=dnx, gtol=gtol):
                    sloops = n if sl == "int" else tuple(tnx.gen_sloops(n))
                    r = tnx.local_expectation_sloop_expand(G, w, sloops=sloops, gauges=gauges, normalized=nrm,
                                                           autoreduce=autoreduce, optimize=opt)
                    return cmp_scalar(r, dnx.expec(G, w, bool(nrm)), dnx.scale(G, bool(nrm)), gtol)

                cx.check("local_expectation_sloop_expand on a ring (the loop is the network) == dense value", p, t_sl)
    for (gname, tnx, gauges, dnx), nrm in itertools.product(gauge_sets, (True, False, "global")):
        terms = {w: ops[w] for w in wheres}
        gtol = tol * (1 if gauges is None else 30) * 10
        if nrm == "global" and (mindeg < 2):
            continue  # the global norm expansion always reduces tree-like parts (valid at a fixed point only)

        def t_cgl(nrm=nrm, terms=terms, tnx=tnx, gauges=gauges, dnx=dnx, gtol=gtol):
            r = tnx.compute_local_expectation_gloop_expand(terms, gloops=[allsites], gauges=gauges if gauges is not None else {},
                                                           normalized=nrm, autoreduce=False, return_all=True, optimize=opt)
            nn = bool(nrm)
            sc = max(dnx.scale(G, nn) for G in terms.values())
            for w, G in terms.items():
                e = cmp_scalar(r[w], dnx.expec(G, w, nn), sc, gtol, f"term {w}")
                if e:
                    return e

        cx.check("compute_local_expectation_gloop_expand(terms) with a spanning generalized loop == dense values",
                 dict(base, normalized=nrm, gauges=gname, nterms=len(terms)), t_cgl)
    if mindeg >= 2:
        for (gname, tnx, gauges, dnx), se in itertools.product(gauge_sets, (False, True)):
            def t_ngl(se=se, tnx=tnx, gauges=gauges, dnx=dnx):
                r = tnx.norm_gloop_expand(gloops=[allsites], gauges=gauges if gauges is not None else {}, strip_exponent=se,
                                          autoreduce=False, optimize=opt)
                if se:
                    m, ex = r
                    r = complex(m) * 10.0 ** float(ex)
                return cmp_scalar(r, dnx.norm2 ** 0.5, dnx.norm2 ** 0.5, tol * 300, "norm")

            cx.check("norm_gloop_expand with a spanning generalized loop == sqrt(<psi|psi>)",
                     dict(base, gauges=gname, strip_exponent=se), t_ngl)
    del unit_dim


# ----------------------------------------------------------------------------------------------
# generic compressed-contraction routes with an untruncating cap
# ----------------------------------------------------------------------------------------------

def _compressed_geometries(quick):
    g = []
    if quick:
        g += [("mps-as-gen", 2, False), ("mps-as-gen", 5, False), ("mps-as-gen", 4, True),
              ("peps", 1, 3, 2, 2, False), ("peps", 2, 2, 2, 3, False), ("peps", 2, 3, 2, 2, False),
              ("peps", 3, 3, 2, 2, False), ("peps", 3, 2, 2, 2, (False, True)),
              ("graph", 1, 0, "int"), ("graph", 2, 0, "str"), ("graph", 5, 2, "tuple"), ("graph", 6, 3, "int"),
              ("tree", 5, "str")]
    else:
        g += [("mps-as-gen", L, False) for L in (1, 2, 3, 5, 8)] + [("mps-as-gen", L, True) for L in (3, 4, 6)]
        g += [("peps", 1, 1, 1, 2, False), ("peps", 1, 3, 2, 2, False), ("peps", 3, 1, 2, 3, False),
              ("peps", 2, 2, 3, 2, False), ("peps", 2, 3, 2, 2, False), ("peps", 3, 2, 2, 3, False),
              ("peps", 3, 3, 2, 2, False), ("peps", 3, 3, 2, 2, True), ("peps", 3, 2, 2, 2, (False, True))]
        g += [("graph", 1, 0, "int"), ("graph", 2, 0, "str"), ("graph", 3, 1, "int"), ("graph", 4, 2, "tuple"),
              ("graph", 5, 2, "str"), ("graph", 6, 3, "int"), ("graph", 7, 3, "int"), ("graph", 8, 2, "tuple"),
              ("tree", 4, "int"), ("tree", 7, "str")]
    return g


@driver("C13", "generic-compressed-routes", chunks=2, timeout=300,
        bound="TensorNetworkGenVector.partial_trace / local_expectation / compute_local_expectation (compressed contraction "
              "of the overlap) with max_bond=4096 (above every exact bond of the domain) and cutoff=0 on PEPS up to 3x3, "
              "graph states / trees <= 8 sites, MPS viewed as generic vectors (L<=8, open and periodic): flatten in "
              "{True, False, 'all'}, method in {contract_compressed, contract_around}, reduce=True for two-site terms, "
              "symmetrized auto/True/False, normalized or not, 4 dtypes, stored exponents; PEPS3D.local_expectation "
              "(inherited generic route). tolerance 1e-8 (double) / 3e-3 (single) relative to operator norm x <psi|psi>")
def compressed_routes(cx):
    quiet_env()
    rng = cx.rng
    geos = _compressed_geometries(cx.quick)
    expos = ["none", "attr", "equalize"]
    for gi, geo in enumerate(geos):
        for di, dtype in enumerate(DTYPES):
            if cx.quick and di >= 2 and (gi + di) % 2:
                continue
            how = expos[(di + gi) % 3]
            if not cx.mine():
                continue
            if cx.out_of_time():
                cx.inconclusive.append("generic-compressed-routes: time budget exhausted")
                return
            tn = build_state(rng, geo, dtype)
            set_exponent(tn, rng, how, dtype)
            base = dict(geo=geo_json(geo), dtype=dtype, exponent=how != "none", expo=how)
            tol = tol_of(dtype, 10)
            dn = Dense(tn)
            wheres = pick_wheres(rng, dn.sites, count=3 if cx.quick else 5)
            ops = {w: rand_op(rng, dn.dim(w)) for w in wheres}
            for w in wheres:
                G = ops[w]
                grid = list(itertools.product((True, False, "all"), ("contract_compressed", "contract_around"), (True, False)))
                for flatten, method, nrm in grid:
                    sym = ["auto", True, False][int(rng.integers(3))]
                    reduces = [False] + ([True] if len(w) == 2 and method == "contract_compressed" else [])
                    for red in reduces:
                        p = dict(base, where=jw(w), flatten=flatten, method=method, normalized=nrm, symmetrized=sym, reduce=red,
                                 n_keep=len(w), n_sites=len(dn.sites))
                        kw = dict(max_bond=4096, optimize="greedy", flatten=flatten, method=method, normalized=nrm,
                                  symmetrized=sym, reduce=red, cutoff=0.0)

                        def t_pt(w=w, kw=kw, nrm=nrm):
                            r = tn.partial_trace(w, **kw)
                            return cmp_matrix(r, dn.rdm(w, nrm), 1.0 if nrm else dn.norm2, tol, "partial_trace",
                                              trace=1.0 if nrm else None)

                        cx.check("TensorNetworkGenVector.partial_trace (compressed, untruncating) == dense partial trace", p, t_pt)

                        def t_le(w=w, G=G, kw=kw, nrm=nrm):
                            r = tn.local_expectation(G, w, **kw)
                            return cmp_scalar(r, dn.expec(G, w, nrm), dn.scale(G, nrm), tol)

                        cx.check("TensorNetworkGenVector.local_expectation (compressed, untruncating) == dense value", p, t_le)
            terms = {w: ops[w] for w in wheres}
            for nrm, ra, flatten in itertools.product((True, False), (True, False), (True, False)):
                if geo[0] == "peps":
                    break  # the 2D class overrides compute_local_expectation (boundary route, see the lattice driver)

                def t_cle(nrm=nrm, ra=ra, flatten=flatten, terms=terms):
                    r = tn.compute_local_expectation(terms, max_bond=4096, optimize="greedy", normalized=nrm, return_all=ra,
                                                     flatten=flatten, cutoff=0.0)
                    sc = max(dn.scale(G, nrm) for G in terms.values())
                    refs = {w: dn.expec(G, w, nrm) for w, G in terms.items()}
                    if not ra:
                        return cmp_scalar(r, sum(refs.values()), sc * len(terms), tol, "sum of terms")
                    if set(r) != set(terms):
                        return f"keys {list(r)}"
                    for w in terms:
                        e = cmp_scalar(r[w], refs[w], sc, tol, f"term {w}")
                        if e:
                            return e

                cx.check("TensorNetworkGenVector.compute_local_expectation (compressed, untruncating) == dense values",
                         dict(base, normalized=nrm, return_all=ra, flatten=flatten, nterms=len(terms)), t_cle)
    # the generic route as inherited by the 3D class
    for gi, geo in enumerate([("peps3d", 2, 2, 2, 2, 2), ("peps3d", 1, 2, 2, 2, 2)]):
        if not cx.mine():
            continue
        dtype = DTYPES[gi % 2]
        tn = build_state(rng, geo, dtype)
        dn = Dense(tn)
        for w in pick_wheres(rng, dn.sites, count=3):
            G = rand_op(rng, dn.dim(w))
            for nrm in (True, False):
                def t_le3(w=w, G=G, nrm=nrm):
                    r = tn.local_expectation(G, w, max_bond=4096, optimize="greedy", normalized=nrm, cutoff=0.0)
                    return cmp_scalar(r, dn.expec(G, w, nrm), dn.scale(G, nrm), tol_of(dtype, 10))

                cx.check("PEPS3D.local_expectation (generic compressed route inherited from TensorNetworkGenVector) == dense value",
                         dict(geo=geo_json(geo), dtype=dtype, where=jw(w), normalized=nrm), t_le3)


# ----------------------------------------------------------------------------------------------
# 1D: canonical-form and environment routes of MatrixProductState
# ----------------------------------------------------------------------------------------------

def _spin_ops(d):
    """spin-S operators (S=(d-1)/2) in the basis m = S, S-1, ..., -S (written from the textbook formulas)"""
    S = (d - 1) / 2
    m = S - np.arange(d)
    sz = np.diag(m).astype(complex)
    sp = np.zeros((d, d), dtype=complex)
    for a in range(d - 1):  # <m+1| S+ |m> = sqrt(S(S+1) - m(m+1)) with m = m[a+1]
        sp[a, a + 1] = np.sqrt(S * (S + 1) - m[a + 1] * (m[a + 1] + 1))
    sx = (sp + sp.conj().T) / 2
    sy = (sp - sp.conj().T) / 2j
    return {"X": sx, "Y": sy, "Z": sz}


@driver("C13", "mps-canonical-and-environment-routes", chunks=4, timeout=300,
        bound="MatrixProductState with L in 1..8 (bond 1..3 mixed, site dims 2..3 mixed), open (all routes) and periodic "
              "(environment route, partial_trace_to_mpo, partial_trace_compress), 4 dtypes, stored exponents; where = int "
              "or tuple of 1..3 sites in any order; info in {None, {}, 'calc', a true record after canonicalize_}; "
              "partial_trace_to_dense_canonical, local_expectation_canonical, compute_local_expectation_canonical "
              "(inplace or not), compute_local_expectation_via_envs, compute_local_expectation(method=...), magnetization "
              "(X/Y/Z, spin-1/2 and spin-1, normalised state), correlation (normalised state), partial_trace_to_mpo "
              "(list / unsorted list / slice keep of dimension <= 300, rescale_sites or not), partial_trace_compress + logneg_subsys "
              "(double precision, blocks of total dimension <= 300, eps=1e-11: spectrum of the compressed state == spectrum of the dense reduced state; "
              "default lateral method 'isvd' only with uniform bonds because scipy 1.18 interpolative svd fails on "
              "rectangular LinearOperators, method 'svd' with mixed bonds)")
def mps_routes(cx):
    quiet_env()
    rng = cx.rng
    Ls = [1, 2, 3, 4, 6] if cx.quick else [1, 2, 3, 4, 5, 6, 7, 8]
    expos = ["none", "attr", "equalize"]
    reps = 2 if cx.quick else 4
    for L, cyclic, rep in itertools.product(Ls, (False, True), range(reps)):
        if cyclic and L < 2:
            continue
        for di, dtype in enumerate(DTYPES):
            how = expos[(di + rep + L) % 3]
            if not cx.mine():
                continue
            if cx.out_of_time():
                cx.inconclusive.append("mps-canonical-and-environment-routes: time budget exhausted")
                return
            mps = make_mps(rng, L, dtype, cyclic=cyclic)
            set_exponent(mps, rng, how, dtype)
            _mps_one_state(cx, rng, mps, L, cyclic, dtype, how, rep)


def _tensors_equal(a, b):
    if a.num_tensors != b.num_tensors:
        return False
    for ta, tb in zip(a.tensors, b.tensors):
        if ta.inds != tb.inds or ta.shape != tb.shape or not np.array_equal(np.asarray(ta.data), np.asarray(tb.data)):
            return False
    return True


def _mps_one_state(cx, rng, mps, L, cyclic, dtype, how, rep):
    base = dict(L=L, cyclic=cyclic, dtype=dtype, exponent=how != "none", expo=how, rep=rep)
    tol = tol_of(dtype, 3)
    dn = Dense(mps)
    sites = dn.sites
    wheres = pick_wheres(rng, sites, count=5)
    ops = {w: rand_op(rng, dn.dim(w)) for w in wheres}
    single = dtype in ("float32", "complex64")

    def info_variant(kind, m):
        if kind == "None":
            return None
        if kind == "empty":
            return {}
        if kind == "calc":
            return {"cur_orthog": "calc"}
        info = {}
        m.canonicalize_(int(rng.integers(L)), info=info)
        return info

    if not cyclic:
        for w in wheres:
            G = ops[w]
            forms = [("tuple", w)] + ([("bare-int", w[0])] if len(w) == 1 else [])
            for (wform, warg), nrm, ik in itertools.product(forms, (True, False), ("None", "empty", "calc", "record")):
                if cx.quick and ik in ("empty", "calc") and not nrm:
                    continue
                p = dict(base, where=jw(w), where_form=wform, normalized=nrm, info=ik)
                m1 = mps.copy()
                i1 = info_variant(ik, m1)

                def t_ptc(m1=m1, i1=i1, warg=warg, w=w, nrm=nrm):
                    r = m1.partial_trace_to_dense_canonical(warg, normalized=nrm, info=i1)
                    e = cmp_matrix(r, dn.rdm(w, nrm), 1.0 if nrm else dn.norm2, tol, "partial_trace_to_dense_canonical",
                                   trace=1.0 if nrm else None)
                    if e:
                        return e
                    after = Dense(m1)
                    if np.abs(after.psi - dn.psi).max() > 30 * tol * dn.norm2 ** 0.5:
                        return "the state denoted by the MPS changed"

                cx.check("partial_trace_to_dense_canonical(where) == dense partial trace (site order as given), state unchanged",
                         p, t_ptc)
                m2 = mps.copy()
                i2 = info_variant(ik, m2)

                def t_lec(m2=m2, i2=i2, warg=warg, w=w, nrm=nrm, G=G):
                    r = m2.local_expectation_canonical(G, warg, normalized=nrm, info=i2)
                    return cmp_scalar(r, dn.expec(G, w, nrm), dn.scale(G, nrm), tol)

                cx.check("local_expectation_canonical(G, where) == dense value", p, t_lec)

    # ---- many terms at once ---------------------------------------------------------------------
    terms = {w: ops[w] for w in wheres}
    methods = ["envs"] + ([] if cyclic else ["canonical"])
    for method, nrm, ra in itertools.product(methods, (True, False), (True, False)):
        for key_form in ("tuple", "bare-int"):
            if key_form == "bare-int":
                tt = {(w[0] if len(w) == 1 else w): G for w, G in terms.items()}
            else:
                tt = terms
            for inplace, ik in ((False, "None"), (True, "record"), (False, "record"), (False, "empty")):
                if method == "envs" and (inplace or ik != "None"):
                    continue
                if key_form == "bare-int" and (inplace or ik != "None" or not ra):
                    continue
                p = dict(base, method=method, normalized=nrm, return_all=ra, key_form=key_form, inplace=inplace, info=ik,
                         nterms=len(tt))
                m3 = mps.copy()
                i3 = info_variant(ik, m3) if method == "canonical" else None
                before = m3.copy()

                def t_cle(m3=m3, i3=i3, before=before, method=method, nrm=nrm, ra=ra, tt=tt, inplace=inplace, via=0):
                    kw = dict(normalized=nrm, return_all=ra)
                    sc = max(dn.scale(G, nrm) for G in tt.values())
                    refs = {k: dn.expec(G, k if isinstance(k, tuple) else (k,), nrm) for k, G in tt.items()}
                    # a caller-supplied record is threaded through a SECOND identical call: whatever the first call wrote
                    # into it must be true of the state the caller holds
                    ncalls = 2 if (method == "canonical" and i3 is not None) else 1
                    for call in range(ncalls):
                        what = "" if call == 0 else "second call with the same info record: "
                        if via == 0:
                            if method == "canonical":
                                kw.update(info=i3, inplace=inplace)
                            r = m3.compute_local_expectation(tt, method=method, **kw)
                        elif method == "canonical":
                            r = m3.compute_local_expectation_canonical(tt, info=i3, inplace=inplace, **kw)
                        else:
                            r = m3.compute_local_expectation_via_envs(tt, **kw)
                        if ra:
                            if set(r) != set(tt):
                                return f"{what}keys {list(r)} != {list(tt)}"
                            for k in tt:
                                e = cmp_scalar(r[k], refs[k], sc, tol, f"{what}term {k}")
                                if e:
                                    return e
                        else:
                            e = cmp_scalar(r, sum(refs.values()), sc * len(tt), tol, f"{what}sum of terms")
                            if e:
                                return e
                    if not inplace and not _tensors_equal(m3, before):
                        return "inplace=False but the tensors of the state were modified"
                    if np.abs(Dense(m3).psi - dn.psi).max() > 30 * tol * dn.norm2 ** 0.5:
                        return "the state denoted by the MPS changed"

                cx.check(f"MatrixProductState.compute_local_expectation(method='{method}') == dense values", p, t_cle)
                if key_form == "tuple":
                    m3 = mps.copy()
                    i3 = info_variant(ik, m3) if method == "canonical" else None
                    before = m3.copy()
                    name = "compute_local_expectation_canonical" if method == "canonical" else "compute_local_expectation_via_envs"
                    cx.check(f"MatrixProductState.{name}(terms) == dense values", p,
                             lambda f=t_cle, m3=m3, i3=i3, before=before, method=method, nrm=nrm, ra=ra, tt=tt, inplace=inplace:
                             f(m3, i3, before, method, nrm, ra, tt, inplace, 1))

    # ---- magnetization / correlation (stated for normalised states) ----------------------------------
    if not cyclic and how == "none":
        mn = mps.copy()
        nrm_fac = dn.norm2 ** 0.5
        mn[0].modify(data=mn[0].data / np.asarray(nrm_fac).astype(mn[0].data.real.dtype))
        dnn = Dense(mn)
        for i in sorted({0, L - 1, int(rng.integers(L))}):
            d = dnn.psi.shape[i]
            for direction in "XYZ":
                S = _spin_ops(d)[direction]

                def t_mag(i=i, direction=direction, S=S):
                    r = mn.copy().magnetization(i, direction)
                    return cmp_scalar(r, dnn.expec(S, (i,), False), 1.0, tol, f"<S{direction}>")

                cx.check("magnetization(i, direction) == <psi|S_direction(i)|psi> of the normalised dense state",
                         dict(base, i=i, direction=direction, spin=(d - 1) / 2), t_mag)
        if L >= 2:
            for _ in range(2):
                i, j = [int(x) for x in rng.permutation(L)[:2]]
                A, B = rand_op(rng, dnn.psi.shape[i]), rand_op(rng, dnn.psi.shape[j])
                for useB in (True, False):
                    if not useB and dnn.psi.shape[i] != dnn.psi.shape[j]:
                        continue

                    def t_cor(i=i, j=j, A=A, B=B, useB=useB):
                        Bx = B if useB else A
                        r = mn.correlation(A, i, j, B=Bx) if useB else mn.correlation(A, i, j)
                        ref = dnn.expec(np.kron(A, Bx), (i, j), False) - dnn.expec(A, (i,), False) * dnn.expec(Bx, (j,), False)
                        sc = np.linalg.norm(A) * np.linalg.norm(Bx)
                        return cmp_scalar(r, ref, sc, tol, "correlation")

                    cx.check("correlation(A, i, j, B) == <A_i B_j> - <A_i><B_j> of the normalised dense state",
                             dict(base, i=i, j=j, B=useB), t_cor)

    # ---- partial trace to an MPO ------------------------------------------------------------------
    keeps = []
    for w in wheres:
        keeps.append(("list", list(w)))
    keeps.append(("all", list(range(L))))
    if L >= 3:
        a = int(rng.integers(0, L - 1))
        b = int(rng.integers(a + 1, L))
        keeps.append(("slice", slice(a, b)))
    for (kform, keep), resc in itertools.product(keeps, (True, False)):
        ks = list(range(L))[keep] if isinstance(keep, slice) else sorted(keep)
        if not ks or dn.dim(ks) > 300:
            continue  # (dense comparison of the MPO: kept blocks of dimension <= 300)
        p = dict(base, keep=str(keep) if isinstance(keep, slice) else keep, keep_form=kform, rescale_sites=resc)

        def t_mpo(keep=keep, ks=ks, resc=resc):
            rho = mps.partial_trace_to_mpo(keep, rescale_sites=resc)
            lab = list(range(len(ks))) if resc else ks
            up = [rho.upper_ind(i) for i in lab]
            lo = [rho.lower_ind(i) for i in lab]
            if set(rho.outer_inds()) != set(up) | set(lo):
                return f"outer indices {sorted(rho.outer_inds())} are not the upper+lower indices of the kept sites"
            D = dn.dim(ks)
            M = dense_of(rho, up + lo).reshape(D, D)
            e = cmp_matrix(M, dn.rdm(ks, False), dn.norm2, tol, "MPO dense (rows = upper indices)")
            if e:
                return e
            if resc:
                M2 = np.asarray(rho.to_dense())
                e = cmp_matrix(M2, dn.rdm(ks, False), dn.norm2, tol, "rho.to_dense()")
                if e:
                    return e
                return cmp_scalar(rho.trace(), dn.norm2, dn.norm2, tol, "rho.trace()")

        cx.check("partial_trace_to_mpo(keep): rows (upper indices) = ket, columns (lower indices) = bra of the dense reduced state",
                 p, t_mpo)

    # ---- compressed partial trace of two blocks ----------------------------------------------------
    if single or L < 2:
        return
    blocks = []
    for _ in range(3):
        cuts = sorted(int(x) for x in rng.choice(np.arange(0, L + 1), size=min(4, L + 1), replace=False))
        if len(cuts) < 4:
            cuts = [0, 1, 1, 2] if L >= 2 else cuts
        a0, a1, b0, b1 = cuts
        if a1 > a0 and b1 > b0:
            blocks.append((tuple(range(a0, a1)), tuple(range(b0, b1))))
    blocks.append(((0,), (L - 1,)))
    if L >= 2:
        blocks.append((tuple(range(0, L // 2)), tuple(range(L // 2, L))))
    phys = {mps.site_ind(i) for i in range(L)}
    bsz = [d for t in mps.tensors for ix, d in zip(t.inds, t.shape) if ix not in phys]
    methods = ["svd"] + ([("isvd", None)] if len(set(bsz)) <= 1 else [])
    seen = set()
    variants = [(False, mps, dn)]
    if how == "none":
        mn = mps.copy()
        mn[0].modify(data=mn[0].data / dn.norm2 ** 0.5)
        variants.append((True, mn, Dense(mn)))
    for (snorm, mps, dn), (sysa, sysb), method, renorm in itertools.product(variants, blocks, methods, (True, False)):
        if (snorm, sysa, sysb, str(method), renorm) in seen or set(sysa) & set(sysb) or dn.dim(sysa + sysb) > 300:
            continue  # (the reference diagonalises the dense reduced state: blocks of total dimension <= 300)
        seen.add((snorm, sysa, sysb, str(method), renorm))
        pure = (len(sysa) + len(sysb) == L) and not cyclic
        p = dict(base, sysa=list(sysa), sysb=list(sysb), method=str(method), renorm=renorm, pure_bipartition=pure, state_normalized=snorm)

        def t_ptcmp(sysa=sysa, sysb=sysb, method=method, renorm=renorm, mps=mps, dn=dn):
            r = mps.partial_trace_compress(sysa, sysb, eps=1e-11, method=method, renorm=renorm)
            want = {"kA", "kB", "bA", "bB"}
            if set(r.outer_inds()) != want:
                return f"outer indices {sorted(r.outer_inds())}"
            M = dense_of(r, ["kA", "kB", "bA", "bB"])
            M = M.reshape(M.shape[0] * M.shape[1], -1)
            ref = dn.rdm(sysa + sysb, normalized=renorm)
            sc = 1.0 if renorm else dn.norm2
            if np.abs(M - M.conj().T).max() > 1e-7 * sc:
                return f"not hermitian: {np.abs(M - M.conj().T).max():.2e}"
            ev = np.sort(np.linalg.eigvalsh((M + M.conj().T) / 2))[::-1]
            evr = np.sort(np.linalg.eigvalsh(ref))[::-1]
            k = min(len(ev), len(evr))
            if np.abs(ev[:k] - evr[:k]).max() > 1e-7 * sc:
                return f"spectrum differs from the dense reduced state by {np.abs(ev[:k] - evr[:k]).max():.2e}"
            if np.abs(ev[k:]).sum() + np.abs(evr[k:]).sum() > 1e-7 * sc:
                return f"spectral weight outside the common rank: {np.abs(ev[k:]).sum():.2e} / {np.abs(evr[k:]).sum():.2e}"

        cx.check("partial_trace_compress(sysa, sysb): hermitian, requested normalisation, spectrum == dense reduced state of A+B",
                 p, t_ptcmp)
        if renorm:
            def t_ln(sysa=sysa, sysb=sysb, method=method, mps=mps, dn=dn):
                r = mps.logneg_subsys(sysa, sysb, compress_opts=dict(eps=1e-11, method=method))
                ref = dn.rdm(sysa + sysb, True)
                da, db = dn.dim(sysa), dn.dim(sysb)
                pt = ref.reshape(da, db, da, db).transpose(2, 1, 0, 3).reshape(da * db, da * db)
                want = max(0.0, float(np.log2(np.abs(np.linalg.eigvalsh(pt)).sum())))
                return cmp_scalar(r, want, 1.0, 1e-6, "logarithmic negativity")

            cx.check("logneg_subsys(sysa, sysb) == log2 trace norm of the partial transpose of the dense reduced state", p, t_ln)


# ----------------------------------------------------------------------------------------------
# 2D / 3D: boundary-contraction and plaquette / cell environment routes with an untruncating cap
# ----------------------------------------------------------------------------------------------

CHI = 4096  # above every exact boundary bond of the domain (largest: 3x3, D=3 -> 3**6)


def _lex_pairs(rng, sites, count):
    """pairs of distinct sites in ascending lexicographic order (the only order the 2D plaquette map knows), near and far"""
    n = len(sites)
    out = []
    for _ in range(4 * count):
        a, b = sorted(int(x) for x in rng.permutation(n)[:2])
        pr = (sites[a], sites[b])
        if pr not in out:
            out.append(pr)
        if len(out) >= count:
            break
    return out


@driver("C13", "lattice-boundary-routes-2d", chunks=3, timeout=300,
        bound="PEPS.compute_local_expectation / compute_norm / normalize and compute_plaquette_environments on PEPS 1xN, Nx1, "
              "2x2, 2x3, 3x2, 3x3 (bond 1..3, site dim 1..3, open; 3x3 / 3x2 with periodic directions), 4 dtypes, stored "
              "exponents; max_bond=4096 (>= exact boundary bond) and cutoff=0; mode in {mps, full-bond, projector}, canonize "
              "on/off, bra/ket layered or flat, autogroup on/off, normalized or not, return_all or summed, supplied or "
              "computed plaquette environments; terms on single sites and on site pairs (ascending, descending, distant)")
def lattice_2d(cx):
    import quimb.tensor as qtn

    quiet_env()
    rng = cx.rng
    if cx.quick:
        geos = [(1, 3, 2, 2, False), (3, 1, 2, 2, False), (2, 2, 3, 2, False), (2, 3, 2, 3, False), (3, 3, 2, 2, False),
                (3, 2, 2, 2, (False, True))]
    else:
        geos = [(1, 1, 1, 2, False), (1, 3, 2, 2, False), (3, 1, 3, 2, False), (2, 2, 3, 3, False), (2, 2, 1, 2, False),
                (2, 3, 2, 2, False), (3, 2, 2, 3, False), (3, 3, 2, 2, False), (2, 2, 2, 1, False), (3, 3, 2, 2, True),
                (2, 3, 2, 2, (True, False)), (3, 2, 2, 2, (False, True)), (3, 3, 2, 2, (True, False))]
    expos = ["none", "attr", "equalize"]
    modes = ["mps", "full-bond", "projector"]
    for gi, (Lx, Ly, D, pd, cyc) in enumerate(geos):
        for di, dtype in enumerate(DTYPES):
            if cx.quick and di >= 2 and (gi + di) % 2:
                continue
            how = expos[(gi + di) % 3]
            if not cx.mine():
                continue
            if cx.out_of_time():
                cx.inconclusive.append("lattice-boundary-routes-2d: time budget exhausted")
                return
            geo = ("peps", Lx, Ly, D, pd, cyc)
            tn = build_state(rng, geo, dtype)
            set_exponent(tn, rng, how, dtype)
            base = dict(geo=geo_json(geo), dtype=dtype, exponent=how != "none", expo=how, unit_dim=(Lx == 1 or Ly == 1))
            tol = tol_of(dtype, 30)
            dn = Dense(tn)
            sites = dn.sites
            n = len(sites)
            singles = [sites[int(x)] for x in rng.permutation(n)[:2]]
            pairs = _lex_pairs(rng, sites, 3) if n >= 2 else []
            terms = {s: rand_op(rng, dn.dim((s,))) for s in singles}
            terms.update({pr: rand_op(rng, dn.dim(pr)) for pr in pairs})

            def ref(where, nrm):
                w = (where,) if where in sites else where
                return dn.expec(terms_all[where], w, nrm)

            terms_all = dict(terms)
            optgrid = list(itertools.product(modes, (True, False), (("KET", "BRA"), None), (True, False)))
            if cx.quick:
                optgrid = [optgrid[int(x)] for x in rng.permutation(len(optgrid))[:6]]
            for (mode, canonize, lt, ag), nrm in itertools.product(optgrid, (True, False)):
                p = dict(base, mode=mode, canonize=canonize, layered=lt is not None, autogroup=ag, normalized=nrm, order="ascending",
                         nterms=len(terms))

                kw = dict(max_bond=CHI, cutoff=0.0, mode=mode, canonize=canonize, layer_tags=lt, autogroup=ag, normalized=nrm,
                          contract_optimize="greedy")

                def t_cle(kw=kw, nrm=nrm, terms=terms):
                    r = tn.compute_local_expectation(terms, return_all=True, **kw)
                    if set(r) != set(terms):
                        return f"keys {list(r)}"
                    tot = 0
                    for w, G in terms.items():
                        e, nn = r[w]
                        if nrm:
                            err = cmp_scalar(e / nn, ref(w, True), dn.scale(G, True), tol, f"term {w} (value / local norm)")
                            if err:
                                return err
                        tot += ref(w, nrm)
                    if not nrm and float(tn.exponent) != 0.0:
                        return None  # (unnormalised values with a stored exponent: see the contract on the returned pairs)
                    s = tn.compute_local_expectation(terms, return_all=False, **kw)
                    return cmp_scalar(s, tot, max(dn.scale(G, nrm) for G in terms.values()) * len(terms), tol, "summed value")

                cx.check("PEPS.compute_local_expectation (boundary contraction, untruncating) == dense values", p, t_cle)

                def t_pairs(kw=kw, nrm=nrm, terms=terms):
                    r = tn.compute_local_expectation(terms, return_all=True, **kw)
                    for w, G in terms.items():
                        e, nn = r[w]
                        err = cmp_scalar(e, ref(w, False), dn.scale(G, False), tol, f"term {w} (unnormalised value)")
                        if err:
                            return err
                        if nrm:
                            err = cmp_scalar(nn, dn.norm2, dn.norm2, tol, f"term {w} (local norm)")
                            if err:
                                return err
                        elif nn is not None:
                            return f"normalized=False but a local norm {nn} is returned"
                    if not nrm:
                        s = tn.compute_local_expectation(terms, return_all=False, **kw)
                        return cmp_scalar(s, sum(ref(w, False) for w in terms),
                                          max(dn.scale(G, False) for G in terms.values()) * len(terms), tol, "summed value")

                cx.check("PEPS.compute_local_expectation(return_all=True): pairs are (<psi|G|psi>, local <psi|psi>) of the dense state",
                         p, t_pairs)
            # reversed pair (descending lexicographic order): the factors of G must follow the order given
            for pr in pairs[:2]:
                rp = (pr[1], pr[0])
                G = rand_op(rng, dn.dim(rp))
                terms_all[rp] = G
                for nrm in (True, False):
                    def t_rev(rp=rp, G=G, nrm=nrm):
                        r = tn.compute_local_expectation({rp: G}, max_bond=CHI, cutoff=0.0, normalized=nrm, contract_optimize="greedy")
                        return cmp_scalar(r, dn.expec(G, rp, nrm), dn.scale(G, nrm), tol)

                    cx.check("PEPS.compute_local_expectation (boundary contraction, untruncating) == dense values",
                             dict(base, mode="mps", canonize=True, layered=True, autogroup=True, normalized=nrm, order="descending",
                                  where=jw(rp), nterms=1), t_rev)
            # norm and normalize
            seqs = [None, ("xmin", "xmax"), ("ymin",), ("xmax", "ymin", "xmin", "ymax")]
            for (mode, canonize, lt), eq in itertools.product(
                    [(m, c, l) for m in modes for c in (True, False) for l in (("KET", "BRA"), None)][:: (3 if cx.quick else 1)],
                    (False, True)):
                seq = seqs[int(rng.integers(len(seqs)))]
                if mode == "full-bond" and eq:
                    continue  # documented as not implemented (explicit NotImplementedError)
                p = dict(base, mode=mode, canonize=canonize, layered=lt is not None, equalize_norms=eq, sequence=list(seq) if seq else None)

                def t_norm(mode=mode, canonize=canonize, lt=lt, eq=eq, seq=seq):
                    r = tn.compute_norm(max_bond=CHI, cutoff=0.0, mode=mode, canonize=canonize, layer_tags=lt, equalize_norms=eq,
                                        sequence=seq)
                    return cmp_scalar(r, dn.norm2, dn.norm2, tol, "norm")

                cx.check("PEPS.compute_norm (boundary contraction, untruncating) == <psi|psi>", p, t_norm)
            multibond = (cyc is True and 2 in (Lx, Ly)) or (isinstance(cyc, tuple) and ((cyc[0] and Lx == 2) or (cyc[1] and Ly == 2)))
            for bb, eq, inplace in ((False, False, False), (True, False, True), (False, True, False)):
                if bb and multibond:
                    continue  # balance_bonds needs single bonds between neighbours (gauging is another property's business)

                def t_nz(bb=bb, eq=eq, inplace=inplace):
                    t0 = tn.copy()
                    r = t0.normalize(max_bond=CHI, cutoff=0.0, balance_bonds=bb, equalize_norms=eq, inplace=inplace)
                    if inplace and r is not t0:
                        return "inplace=True returned a different object"
                    if not inplace and not _tensors_equal(t0, tn):
                        return "inplace=False modified the state"
                    got = Dense(r)
                    want = dn.psi / dn.norm2 ** 0.5
                    if got.psi.shape != want.shape:
                        return f"shape {got.psi.shape}"
                    if np.abs(got.psi - want).max() > tol:
                        return f"normalised state differs from psi/sqrt(<psi|psi>) by {np.abs(got.psi - want).max():.2e}"

                cx.check("PEPS.normalize (boundary contraction, untruncating) returns psi / sqrt(<psi|psi>)",
                         dict(base, balance_bonds=bb, equalize_norms=eq, inplace=inplace), t_nz)
            # plaquette environments of the norm network
            norm = tn.make_norm()
            bszs = [(1, 1), (1, 2), (2, 1), (2, 2)]
            for (xb, yb) in bszs:
                if xb > Lx or yb > Ly or how != "none":
                    continue  # (where a stored exponent of the state lives among the environments is not specified)
                for fc, sd, lt in itertools.product((None, "x", "y"), (None, True, False), (None, ("KET", "BRA"))):
                    if cx.quick and rng.random() < 0.7:
                        continue
                    p = dict(base, x_bsz=xb, y_bsz=yb, first_contract=fc, second_dense=sd, layered=lt is not None)

                    def t_pe(xb=xb, yb=yb, fc=fc, sd=sd, lt=lt):
                        envs = norm.compute_plaquette_environments(x_bsz=xb, y_bsz=yb, max_bond=CHI, cutoff=0.0, first_contract=fc,
                                                                   second_dense=sd, layer_tags=lt)
                        want = {((i, j), (xb, yb)) for i in range(Lx - xb + 1) for j in range(Ly - yb + 1)}
                        if not want <= set(envs):
                            return f"missing plaquettes {sorted(want - set(envs))[:3]}"
                        for (i0, j0), (dx, dy) in sorted(want):
                            env = envs[(i0, j0), (dx, dy)]
                            inner = [t for i in range(i0, i0 + dx) for j in range(j0, j0 + dy)
                                     for t in norm.select_tensors(norm.site_tag(i, j))]
                            ops = [(np.asarray(t.data).astype(np.complex128), t.inds) for t in list(env.tensors) + inner]
                            val = contract_dense(ops, []) * 10.0 ** float(env.exponent)
                            e = cmp_scalar(val, dn.norm2, dn.norm2, tol, f"plaquette {((i0, j0), (dx, dy))}: env x plaquette")
                            if e:
                                return e

                    cx.check("compute_plaquette_environments (untruncating): environment combined with its plaquette contracts to <psi|psi>",
                             p, t_pe)
    del qtn


@driver("C13", "lattice-boundary-routes-3d", chunks=2, timeout=300,
        bound="PEPS3D.partial_trace / partial_trace_cluster / compute_local_expectation on 2x2x2, 1x2x2, 2x1x2, 2x2x1, 1x1x3, "
              "2x2x3 (thorough) lattices, bond 2 (3 on the smallest), site dim 2..3, 4 dtypes, stored exponents; max_bond=4096 "
              "and cutoff=0; canonize on/off, flatten on/off, symmetrized auto/True/False, normalized or not, cell contraction "
              "by boundary or compressed contraction, shared environment cache across terms, clusters with max_distance "
              "spanning the lattice (plain or with simple-update gauges), 1..3 kept sites in any order")
def lattice_3d(cx):
    quiet_env()
    rng = cx.rng
    geos = [(2, 2, 2, 2, 2), (1, 2, 2, 2, 3), (2, 1, 2, 3, 2), (2, 2, 1, 2, 2), (1, 1, 3, 2, 2)]
    if not cx.quick:
        geos += [(2, 2, 2, 2, 3), (1, 2, 3, 2, 2), (2, 2, 3, 2, 2)]
    expos = ["none", "attr", "equalize"]
    for gi, (Lx, Ly, Lz, D, pd) in enumerate(geos):
        for di, dtype in enumerate(DTYPES):
            if (cx.quick or Lx * Ly * Lz > 8) and di >= 2 and (gi + di) % 2:
                continue
            how = expos[(gi + di) % 3]
            if not cx.mine():
                continue
            if cx.out_of_time():
                cx.inconclusive.append("lattice-boundary-routes-3d: time budget exhausted")
                return
            geo = ("peps3d", Lx, Ly, Lz, D, pd)
            tn = build_state(rng, geo, dtype)
            set_exponent(tn, rng, how, dtype)
            base = dict(geo=geo_json(geo), dtype=dtype, exponent=how != "none", expo=how, unit_dim=1 in (Lx, Ly, Lz))
            tol = tol_of(dtype, 30)
            dn = Dense(tn)
            n = len(dn.sites)
            big = n > 8
            wheres = pick_wheres(rng, dn.sites, count=3 if (cx.quick or big) else 5)
            ops = {w: rand_op(rng, dn.dim(w)) for w in wheres}
            def edge_cell(w):
                """the bounding cell of w is a single plane at an end of a direction of length >= 3"""
                for d, Ld in enumerate((Lx, Ly, Lz)):
                    cs = {s[d] for s in w}
                    if Ld >= 3 and len(cs) == 1 and (0 in cs or Ld - 1 in cs):
                        return True
                return False

            for w in wheres:
                grid = list(itertools.product((True, False), (False, True), ("boundary", "compressed"), (True, False)))
                if cx.quick or big:
                    grid = [grid[int(x)] for x in rng.permutation(len(grid))[:4]]
                for canonize, flatten, ccm, nrm in grid:
                    sym = ["auto", True, False][int(rng.integers(3))]
                    forms = [("tuple", w)] + ([("bare-site", w[0])] if len(w) == 1 else [])
                    for wform, warg in forms:
                        p = dict(base, where=jw(w), where_form=wform, canonize=canonize, flatten=flatten, cell=ccm, normalized=nrm,
                                 symmetrized=sym, edge_cell=edge_cell(w))

                        def t_pt(w=w, warg=warg, canonize=canonize, flatten=flatten, ccm=ccm, nrm=nrm, sym=sym):
                            kw = {}
                            if ccm == "compressed":
                                kw = dict(contract_cell_method="compressed", contract_cell_optimize="greedy")
                            r = tn.partial_trace(warg, max_bond=CHI, cutoff=0.0, canonize=canonize, flatten=flatten, normalized=nrm,
                                                 symmetrized=sym, **kw)
                            return cmp_matrix(r, dn.rdm(w, nrm), 1.0 if nrm else dn.norm2, tol, "PEPS3D.partial_trace",
                                              trace=1.0 if nrm else None)

                        cx.check("PEPS3D.partial_trace (cell environments by boundary contraction, untruncating) == dense partial trace",
                                 p, t_pt)
                # cluster route
                gsets = [("none", tn, False, dn)]
                tg = tn.copy()
                gauges = {}
                try:
                    tg.gauge_all_simple_(max_iterations=20, tol=1e-8, gauges=gauges)
                    gsets.append(("simple-update", tg, gauges, Dense(tg, extra=[(g, ix) for ix, g in gauges.items()])))
                except Exception:
                    pass
                for (gname, tnx, garg, dnx), flatten, nrm in itertools.product(gsets, (False, True), (True, False)):
                    sym = ["auto", True, False][int(rng.integers(3))]
                    p = dict(base, where=jw(w), gauges=gname, flatten=flatten, normalized=nrm, symmetrized=sym)

                    def t_ptc(w=w, tnx=tnx, garg=garg, dnx=dnx, flatten=flatten, nrm=nrm, sym=sym, gname=gname):
                        r = tnx.partial_trace_cluster(w, max_bond=CHI, cutoff=0.0, max_distance=n + 1, gauges=garg, flatten=flatten,
                                                      normalized=nrm, symmetrized=sym)
                        return cmp_matrix(r, dnx.rdm(w, nrm), 1.0 if nrm else dnx.norm2, tol * (1 if gname == "none" else 10),
                                          "PEPS3D.partial_trace_cluster", trace=1.0 if nrm else None)

                    cx.check("PEPS3D.partial_trace_cluster with a cluster spanning the lattice (untruncating) == dense partial trace",
                             p, t_ptc)
            terms = {w: ops[w] for w in wheres}
            for nrm, ra, shared in itertools.product((True, False), (True, False), (True, False)):
                def t_cle(nrm=nrm, ra=ra, shared=shared, terms=terms):
                    kw = dict(envs={}) if shared else {}
                    r = tn.compute_local_expectation(terms, max_bond=CHI, cutoff=0.0, normalized=nrm, return_all=ra, **kw)
                    sc = max(dn.scale(G, nrm) for G in terms.values())
                    refs = {w: dn.expec(G, w, nrm) for w, G in terms.items()}
                    if not ra:
                        return cmp_scalar(r, sum(refs.values()), sc * len(terms), tol, "sum of terms")
                    if set(r) != set(terms):
                        return f"keys {list(r)}"
                    for w in terms:
                        e = cmp_scalar(r[w], refs[w], sc, tol, f"term {w}")
                        if e:
                            return e

                cx.check("PEPS3D.compute_local_expectation (untruncating) == dense values",
                         dict(base, normalized=nrm, return_all=ra, shared_envs=shared, nterms=len(terms),
                              edge_cell=any(edge_cell(w) for w in terms)), t_cle)


# ----------------------------------------------------------------------------------------------
# operator networks: trace and partial transpose
# ----------------------------------------------------------------------------------------------

def make_graph_operator(rng, n, dtype, extra_edges=0, labels="int", maxbond=3, dims=(2, 3)):
    import quimb.tensor as qtn

    names = list(range(n)) if labels == "int" else ([f"s{chr(97 + i)}" for i in range(n)] if labels == "str" else
                                                     [(i, i + 1) for i in range(n)])
    edges = set()
    for i in range(1, n):
        edges.add((int(rng.integers(0, i)), i))
    cand = [(i, j) for i in range(n) for j in range(i + 1, n) if (i, j) not in edges]
    for e in rng.permutation(len(cand))[:extra_edges]:
        edges.add(cand[int(e)])
    inds = {i: [] for i in range(n)}
    shapes = {i: [] for i in range(n)}
    for k, (i, j) in enumerate(sorted(edges)):
        d = int(rng.integers(1, maxbond + 1))
        for s in (i, j):
            inds[s].append(f"_bnd{k}")
            shapes[s].append(d)
    ts = []
    for i in range(n):
        p = int(rng.choice(dims))
        ii = inds[i] + ["k{}".format(names[i]), "b{}".format(names[i])]
        sh = shapes[i] + [p, p]
        perm = [int(x) for x in rng.permutation(len(ii))]
        ts.append(qtn.Tensor(_rnd(rng, [sh[q] for q in perm], dtype), inds=[ii[q] for q in perm], tags=["I{}".format(names[i])]))
    tn = qtn.TensorNetwork(ts)
    tn.view_as_(qtn.TensorNetworkGenOperator, sites=names, site_tag_id="I{}", upper_ind_id="k{}", lower_ind_id="b{}")
    return tn


@driver("C13", "operator-trace-and-partial-transpose", chunks=1, timeout=200,
        bound="TensorNetworkGenOperator.trace and partial_transpose on random operator networks: generic graphs <= 6 sites "
              "(int / str / tuple site labels), MPO L<=6 open and periodic, PEPO 2x2 / 2x3; site dims 2..3 mixed, 4 dtypes, "
              "stored exponents; sysa = single site (bare), tuples, all sites, generators; in-place and copy")
def operator_routes(cx):
    import quimb.tensor as qtn

    quiet_env()
    rng = cx.rng
    kinds = [("graph", 1, 0, "int"), ("graph", 2, 0, "str"), ("graph", 4, 1, "tuple"), ("graph", 6, 2, "int"),
             ("mpo", 1, False), ("mpo", 2, False), ("mpo", 5, False), ("mpo", 3, True), ("mpo", 6, True),
             ("pepo", 2, 2), ("pepo", 2, 3)]
    expos = ["none", "attr", "equalize"]
    reps = 1 if cx.quick else 3
    for (ki, kind), rep in itertools.product(enumerate(kinds), range(reps)):
        for di, dtype in enumerate(DTYPES):
            how = expos[(ki + di + rep) % 3]
            if not cx.mine():
                continue
            if kind[0] == "graph":
                A = make_graph_operator(rng, kind[1], dtype, extra_edges=kind[2], labels=kind[3])
            elif kind[0] == "mpo":
                A = qtn.MPO_rand(kind[1], int(rng.integers(1, 4)), phys_dim=int(rng.choice((2, 3))), cyclic=kind[2], dtype=dtype,
                                 seed=int(rng.integers(1 << 30)), herm=False) if kind[1] > 1 or not kind[2] else None
            else:
                A = qtn.PEPO.rand(kind[1], kind[2], 2, phys_dim=2, dtype=dtype, seed=int(rng.integers(1 << 30)))
            if A is None:
                continue
            set_exponent(A, rng, how, dtype)
            sites = list(A.sites)
            up = [A.upper_ind(s) for s in sites]
            lo = [A.lower_ind(s) for s in sites]
            X = dense_of(A, up + lo)
            dims = X.shape[:len(sites)]
            D = int(np.prod(dims, dtype=int))
            M = X.reshape(D, D)
            base = dict(kind=list(kind), dtype=dtype, exponent=how != "none", expo=how, rep=rep)
            tol = tol_of(dtype, 3)
            sc = float(np.linalg.norm(M)) + 1e-300

            def t_tr():
                return cmp_scalar(A.trace(), np.trace(M), sc * D ** 0.5, tol, "trace")

            cx.check("TensorNetworkGenOperator.trace() == trace of the dense matrix (rows = upper indices)", base, t_tr)

            def t_tr2():
                return cmp_scalar(A.trace(left_inds=up, right_inds=lo), np.trace(M), sc * D ** 0.5, tol, "trace")

            cx.check("TensorNetworkGenOperator.trace(left_inds, right_inds) given explicitly == trace of the dense matrix", base, t_tr2)
            n = len(sites)
            subsets = [("bare-site", sites[int(rng.integers(n))])]
            subsets.append(("tuple", tuple(sites[int(x)] for x in rng.permutation(n)[:max(1, n // 2)])))
            subsets.append(("all", tuple(sites)))
            subsets.append(("list-reversed", list(reversed(sites))[: max(1, n - 1)]))
            subsets.append(("generator", None))
            for (sform, sysa), inplace in itertools.product(subsets, (False, True)):
                if sform == "generator":
                    chosen = [sites[int(x)] for x in rng.permutation(n)[:max(1, n - 1)]]
                else:
                    chosen = [sysa] if sform == "bare-site" else list(sysa)
                p = dict(base, sysa_form=sform, nsys=len(chosen), inplace=inplace)

                def t_pt(sform=sform, sysa=sysa, chosen=chosen, inplace=inplace):
                    A0 = A.copy()
                    arg = (s for s in chosen) if sform == "generator" else sysa
                    R = A0.partial_transpose(arg, inplace=inplace)
                    if inplace and R is not A0:
                        return "inplace=True returned another object"
                    if not inplace and not _tensors_equal(A0, A):
                        return "inplace=False modified the operator"
                    Y = dense_of(R, [R.upper_ind(s) for s in sites] + [R.lower_ind(s) for s in sites])
                    ref = X
                    for s in chosen:
                        q = sites.index(s)
                        ref = np.swapaxes(ref, q, n + q)
                    if Y.shape != ref.shape:
                        return f"shape {Y.shape} != {ref.shape}"
                    if np.abs(Y - ref).max() > tol * sc:
                        return f"partial transpose differs from the dense one by {np.abs(Y - ref).max():.2e}"

                cx.check("TensorNetworkGenOperator.partial_transpose(sysa) == dense matrix with the row/column factors of sysa swapped",
                         p, t_pt)
