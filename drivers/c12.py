"""C12 bounded stand-in: compressed / approximate contraction schemes are exact when untruncated and obey their cap.

Reference semantics (shares no code with quimb): the value of a network is the sum over all labels of the product of
the raw tensor data (pairwise numpy einsums in the driver) times 10**exponent.  "Untruncated" = max_bond above every
exact bond of the domain (CHI) together with cutoff=0.  "Obeys the cap" = every bond of the network handed back
(final_contract=False / lazy / in-place inspection / callback hooks) is at most max(cap, original bond).
"""

import itertools

import numpy as np

from vf.rtc import driver

DTYPES = ["float64", "complex128", "float32", "complex64"]
CHI = 4096


# ----------------------------------------------------------------------------------------------
# independent reference + helpers
# ----------------------------------------------------------------------------------------------

def contract_dense(ops, out):
    """sum over all labels not in ``out`` of the product of the operands [(array, labels)]: pairwise two-operand
    einsums in a connectivity-driven order (hyper labels and repeated labels allowed)"""
    ops = [(np.asarray(a), list(ii)) for a, ii in ops]
    if not ops:
        return np.asarray(1.0)
    cur, cinds = ops.pop(0)
    while ops:
        j = max(range(len(ops)), key=lambda q: (len(set(ops[q][1]) & set(cinds)), -ops[q][0].size))
        a, ai = ops.pop(j)
        rest = set(out)
        for _, ii in ops:
            rest.update(ii)
        new = [ix for ix in dict.fromkeys(list(cinds) + list(ai)) if ix in rest]
        ids = {ix: q for q, ix in enumerate(dict.fromkeys(list(cinds) + list(ai)))}
        cur = np.einsum(cur, [ids[i] for i in cinds], a, [ids[i] for i in ai], [ids[i] for i in new], optimize=True)
        cinds = new
    ids = {ix: q for q, ix in enumerate(dict.fromkeys(list(cinds) + list(out)))}
    return np.einsum(cur, [ids[i] for i in cinds], [ids[i] for i in out])


def raw_ops(tn):
    return [(np.asarray(t.data).astype(np.complex128), t.inds) for t in tn.tensors]


def value_of(tn, extra_exponent=0.0):
    """exact value of a scalar network (raw data x 10**exponent)"""
    outer = [ix for ix, tids in tn.ind_map.items() if len(tids) == 1 and sum(t.inds.count(ix) for t in tn.tensors) == 1]
    if outer:
        raise ValueError(f"network is not scalar: dangling {outer[:4]}")
    return complex(contract_dense(raw_ops(tn), [])) * 10.0 ** (float(tn.exponent) + extra_exponent)


def dense_of(tn, out_inds):
    return contract_dense(raw_ops(tn), list(out_inds)) * 10.0 ** float(tn.exponent)


def quiet_env():
    """no warnings; the path optimiser (cotengra) must not start process pools: the harness workers are daemonic
    processes (children are not allowed) and the cores are shared"""
    import warnings

    warnings.filterwarnings("ignore")
    try:
        import cotengra.parallel as cp

        cp._IS_WORKER = True  # "worker subprocesses should not auto-create pools"
    except Exception:  # noqa
        pass


def tol_of(dtype, loose=1.0):
    return (2e-3 if dtype in ("float32", "complex64") else 1e-8) * loose


def as_value(r):
    """scalar returned by a scheme: plain scalar, 0-d array / tensor, or (mantissa, exponent)"""
    if isinstance(r, tuple) and len(r) == 2:
        m, e = r
        return complex(np.asarray(getattr(m, "data", m)).reshape(-1)[0]) * 10.0 ** float(e)
    if hasattr(r, "tensors"):  # a network that should hold a scalar
        return value_of(r)
    r = getattr(r, "data", r)
    a = np.asarray(r)
    if a.size != 1:
        raise ValueError(f"expected a scalar, got shape {a.shape}")
    return complex(a.reshape(-1)[0])


def cmp_value(got, ref, tol, what="value"):
    if not np.isfinite(got):
        return f"{what}: not finite ({got})"
    if abs(got - ref) > tol * abs(ref):
        return f"{what}: got {got:.10g}, exact {ref:.10g} (relative error {abs(got - ref) / abs(ref):.2e})"
    return None


def bond_sizes(tn):
    """sizes of all labels shared by >= 2 tensors (from the raw shapes)"""
    cnt, size = {}, {}
    for t in tn.tensors:
        for ix, d in zip(t.inds, t.shape):
            cnt[ix] = cnt.get(ix, 0) + 1
            size[ix] = d
    return {ix: size[ix] for ix in cnt if cnt[ix] >= 2}


def pair_bond(tn, t1, t2):
    """total dimension of the labels shared by two tensors"""
    d = 1
    for ix, sz in zip(t1.inds, t1.shape):
        if ix in t2.inds:
            d *= sz
    return d


def max_pair_bond(tn):
    """largest total bond dimension between any two tensors (multi-bonds multiplied)"""
    ts = list(tn.tensors)
    best = 1
    owners = {}
    for k, t in enumerate(ts):
        for ix in t.inds:
            owners.setdefault(ix, []).append(k)
    pairs = set()
    for ix, ks in owners.items():
        for a in ks:
            for b in ks:
                if a < b:
                    pairs.add((a, b))
    for a, b in pairs:
        best = max(best, pair_bond(tn, ts[a], ts[b]))
    return best


def check_cap(tn, cap, D, what="returned network"):
    m = max(bond_sizes(tn).values(), default=1)
    if m > max(cap, D):
        return f"{what}: a bond of size {m} exceeds the cap {cap} (original bond {D})"
    return None


def tensors_equal(a, b):
    if a.num_tensors != b.num_tensors or float(a.exponent) != float(b.exponent):
        return False
    for ta, tb in zip(a.tensors, b.tensors):
        if ta.inds != tb.inds or ta.shape != tb.shape or not np.array_equal(np.asarray(ta.data), np.asarray(tb.data)):
            return False
    return True


def set_exponent(tn, rng, how, dtype):
    if how == "none":
        return
    single = dtype in ("float32", "complex64")
    if how == "attr":
        tn.exponent = float(rng.uniform(-0.7, 0.7)) if single else float(rng.uniform(-2.0, 2.0))
    elif how == "equalize":
        tn.equalize_norms_(1.0)


def rescale(tn, rng):
    """random positive rescaling of every tensor so that norms are not all alike"""
    for t in tn.tensors:
        t.modify(data=t.data * np.asarray(float(rng.uniform(0.5, 2.0))).astype(t.data.real.dtype))


# ----------------------------------------------------------------------------------------------
# 2D lattices
# ----------------------------------------------------------------------------------------------

MODES_2D_FAST = ["mps", "full-bond", "projector2d", "direct", "dm", "zipup", "zipup-first", "sdc", "src", "src-first",
                 "local-early", "local-late", "projector", "su", "l2bp"]
MODES_2D_SLOW = ["zipup-oversample", "sdc-oversample", "src-oversample", "srcmps", "srcmps-first", "srcmps-oversample",
                 "fit", "fit-zipup", "fit-projector", "fit-oversample", "superorthogonal"]
SEQUENCES_2D = [None, "b", "t", "l", "r", "bt", "lr", "bltr", "rtlb", "tl", ("xmin", "ymax"), ("ymax", "xmin", "xmax"),
                ["xmax", "ymin", "ymax", "xmin"]]


def make_2d(rng, kind, Lx, Ly, D, dtype, cyc=False):
    """(network, layer_tags or None, original bond D)"""
    import quimb.tensor as qtn

    seed = int(rng.integers(1 << 30))
    if kind == "flat":
        tn = qtn.TN2D_rand(Lx, Ly, D, cyclic=cyc, seed=seed, dtype=dtype)
        rescale(tn, rng)
        return tn, None
    peps = qtn.PEPS.rand(Lx, Ly, D, phys_dim=2, seed=seed, dtype=dtype, cyclic=cyc)
    if kind == "norm":
        tn = peps.make_norm()
        rescale(tn, rng)
        return tn, ("KET", "BRA")
    # bra / operator / ket sandwich, three layers
    A = qtn.PEPO.rand(Lx, Ly, 2, phys_dim=2, seed=seed + 1, dtype=dtype, cyclic=cyc)
    ket = peps.copy()
    ket.add_tag("KET")
    bra = peps.conj().reindex_sites("b{},{}")
    bra.add_tag("BRA")
    A = A.copy()
    A.add_tag("OP")
    tn = bra | A | ket
    tn.view_as_(qtn.TensorNetwork2D, like=peps)
    rescale(tn, rng)
    return tn, ("KET", "OP", "BRA")


def _geos_2d(quick):
    if quick:
        return [("flat", 2, 2, 3, False), ("flat", 1, 3, 2, False), ("flat", 3, 3, 2, False), ("flat", 3, 4, 2, False),
                ("flat", 4, 4, 2, False), ("flat", 4, 3, 3, False), ("flat", 3, 3, 2, True), ("flat", 3, 4, 2, (False, True)),
                ("norm", 2, 2, 2, False), ("norm", 3, 3, 2, False), ("norm", 2, 4, 2, False), ("sandwich", 3, 2, 2, False)]
    return [("flat", 1, 1, 2, False), ("flat", 1, 4, 2, False), ("flat", 3, 1, 3, False), ("flat", 2, 2, 3, False),
            ("flat", 2, 3, 2, False), ("flat", 3, 3, 2, False), ("flat", 3, 3, 3, False), ("flat", 3, 4, 2, False),
            ("flat", 4, 3, 3, False), ("flat", 4, 4, 2, False), ("flat", 2, 5, 2, False), ("flat", 5, 3, 2, False),
            ("flat", 3, 3, 2, True), ("flat", 4, 3, 2, (True, False)), ("flat", 3, 4, 2, (False, True)),
            ("norm", 2, 2, 2, False), ("norm", 2, 2, 3, False), ("norm", 3, 3, 2, False), ("norm", 2, 4, 2, False),
            ("norm", 4, 3, 2, False), ("norm", 3, 3, 2, (True, False)),
            ("sandwich", 2, 2, 2, False), ("sandwich", 3, 2, 2, False), ("sandwich", 3, 3, 2, False)]


def _norm_opts(rng):
    return [dict(), dict(strip_exponent=True), dict(equalize_norms=True), dict(equalize_norms=1.0),
            dict(strip_exponent=True, equalize_norms=False)][int(rng.integers(5))]


@driver("C12", "boundary-contraction-2d", chunks=3, timeout=300,
        bound="TensorNetwork2D.contract_boundary / contract_boundary_from_{xmin,xmax,ymin,ymax} / contract_mps_sweep / "
              "contract_full_bootstrap on random flat lattices 1x1..5x3 (bond 2..3, open and periodic directions), PEPS norm "
              "networks (2 layers) up to 4x3 and bra/operator/ket sandwiches (3 layers) up to 3x3; 4 dtypes, stored exponents; "
              "every mode (mps, full-bond, projector2d, all 1D compressors, all arbitrary-geometry compressors), canonize "
              "on/off, 13 sequences incl. mixed 'bltr', layer_tags, strip_exponent / equalize_norms, max_separation, around, "
              "in place or copy. untruncated: max_bond=4096, cutoff=0 -> value == exact (1e-8 double, 2e-3 single, x100 for "
              "variational / randomized modes); capped: cap in [D, D^2-1] -> every bond of the handed-over network <= cap")
def boundary_2d(cx):
    quiet_env()
    rng = cx.rng
    expos = ["none", "attr", "equalize"]
    for gi, (kind, Lx, Ly, D, cyc) in enumerate(_geos_2d(cx.quick)):
        for di, dtype in enumerate(DTYPES):
            if di >= 2 and (cx.quick or Lx * Ly > 9) and (gi + di) % 2:
                continue
            how = expos[(gi + di) % 3]
            if not cx.mine():
                continue
            if cx.out_of_time():
                cx.inconclusive.append("boundary-contraction-2d: time budget exhausted")
                return
            tn, layers = make_2d(rng, kind, Lx, Ly, D, dtype, cyc)
            set_exponent(tn, rng, how, dtype)
            ex = value_of(tn)
            base = dict(kind=kind, L=[Lx, Ly], D=D, cyclic=list(cyc) if isinstance(cyc, tuple) else cyc, dtype=dtype,
                        exponent=how != "none", expo=how, unit_dim=1 in (Lx, Ly))
            tol = tol_of(dtype)
            before = tn.copy()
            # a safe bound on every exact boundary bond: (bond per lattice edge) ** (longest side - 1)
            d_edge = D if kind == "flat" else (D * D if kind == "norm" else 2 * D * D)
            chi_exact = max(d_edge ** (max(Lx, Ly) - 1), d_edge)
            if cyc:  # an open boundary MPS has to carry the wrap-around bond as well
                chi_exact = chi_exact * chi_exact * d_edge
            modes = list(MODES_2D_FAST)
            nslow = 2 if cx.quick else 5
            modes += [MODES_2D_SLOW[int(x)] for x in rng.permutation(len(MODES_2D_SLOW))[:nslow]]
            single = dtype in ("float32", "complex64")
            for mode in modes:
                nrep = 1 if (cx.quick or mode in MODES_2D_SLOW) else 2
                for _ in range(nrep):
                    canonize = bool(rng.integers(2))
                    seq = SEQUENCES_2D[int(rng.integers(len(SEQUENCES_2D)))]
                    lt = layers if (layers is not None and rng.random() < 0.7) else None
                    nopts = _norm_opts(rng)
                    if mode == "full-bond" and nopts.get("equalize_norms", nopts.get("strip_exponent", False)):
                        nopts = {}  # documented as not implemented (explicit NotImplementedError)
                    inplace = bool(rng.integers(2))
                    p = dict(base, mode=mode, canonize=canonize, sequence=seq if seq is None else list(seq) if not isinstance(seq, str) else seq,
                             layered=lt is not None, inplace=inplace, **{k: v for k, v in nopts.items()})
                    loose = 100 if (mode.startswith(("fit", "src")) or mode in ("su", "superorthogonal", "l2bp")) else 1
                    if single and mode.startswith("fit"):
                        loose = 1000

                    # modes that allocate sketches / guesses of size max_bond get the exact bound, the others alternate
                    chi = chi_exact if (mode in MODES_2D_SLOW or mode.startswith(("src", "fit")) or rng.random() < 0.3) else CHI
                    p["max_bond"] = chi

                    def t_exact(mode=mode, canonize=canonize, seq=seq, lt=lt, nopts=nopts, inplace=inplace, loose=loose, chi=chi):
                        t0 = tn.copy()
                        r = t0.contract_boundary(max_bond=chi, cutoff=0.0, mode=mode, canonize=canonize, sequence=seq, layer_tags=lt,
                                                 inplace=inplace, final_contract_opts=dict(optimize="greedy"), **nopts)
                        e = cmp_value(as_value(r), ex, tol * loose)
                        if e:
                            return e
                        if not inplace and not tensors_equal(t0, before):
                            return "inplace=False modified the network"

                    cx.check("contract_boundary (2D) with max_bond >= exact bond and cutoff=0 == exact contraction", p, t_exact)
                # capped
                cap = int(rng.integers(D, D * D)) if D > 1 else 1
                seq = SEQUENCES_2D[int(rng.integers(len(SEQUENCES_2D)))]
                lt = layers if (layers is not None and rng.random() < 0.7) else None
                canonize = bool(rng.integers(2))
                variant = ["final_contract=False", "max_separation=2", "around"][int(rng.integers(3))]
                p = dict(base, mode=mode, canonize=canonize, sequence=seq if seq is None or isinstance(seq, str) else list(seq),
                         layered=lt is not None, cap=cap, handover=variant)

                def t_cap(mode=mode, canonize=canonize, seq=seq, lt=lt, cap=cap, variant=variant):
                    kw = dict(final_contract=False)
                    if variant == "max_separation=2":
                        kw["max_separation"] = 2
                    elif variant == "around":
                        kw = dict(around=[(int(rng2.integers(Lx)), int(rng2.integers(Ly)))])
                    r = tn.contract_boundary(max_bond=cap, cutoff=0.0, mode=mode, canonize=canonize, sequence=seq, layer_tags=lt, **kw)
                    if not hasattr(r, "tensors"):
                        return None  # (nothing left to hand over: the lattice was small enough to be contracted)
                    return check_cap(r, cap, D * (1 if layers is None or lt is not None else D))

                rng2 = np.random.default_rng(int(rng.integers(1 << 30)))
                cx.check("contract_boundary (2D) with a small cap: every bond of the handed-over network is within the cap", p, t_cap)

            # single steps from each side
            for fw, mode in itertools.product(("xmin", "xmax", "ymin", "ymax"),
                                              [modes[int(x)] for x in rng.permutation(len(MODES_2D_FAST))[:(3 if cx.quick else 6)]]):
                Lw = Lx if fw[0] == "x" else Ly
                if Lw < 2:
                    continue
                rngw = (0, 1) if fw.endswith("min") else (Lw - 1 - 1, Lw - 1)
                if Lw >= 3 and rng.random() < 0.3:  # a deeper step
                    rngw = (0, 2) if fw.endswith("min") else (Lw - 3, Lw - 1)
                canonize = bool(rng.integers(2))
                lt = layers if (layers is not None and rng.random() < 0.7) else None
                cap = int(rng.integers(D, D * D)) if D > 1 else 1
                for capped in (False, True):
                    p = dict(base, from_which=fw, range=list(rngw), mode=mode, canonize=canonize, layered=lt is not None,
                             cap=cap if capped else None, full_range=(rngw[1] - rngw[0] + 1 == Lw))

                    def t_step(fw=fw, rngw=rngw, mode=mode, canonize=canonize, lt=lt, cap=cap, capped=capped):
                        fn = getattr(tn, "contract_boundary_from_" + fw)
                        kw = dict(xrange=rngw) if fw[0] == "x" else dict(yrange=rngw)
                        chi = chi_exact if mode.startswith(("src", "fit")) else CHI
                        r = fn(max_bond=cap if capped else chi, cutoff=0.0, mode=mode, canonize=canonize, layer_tags=lt, **kw)
                        if not tensors_equal(tn, before):
                            return "the non in-place call modified the network"
                        if capped:
                            return check_cap(r, cap, D * (1 if layers is None or lt is not None else D))
                        # fitting / gauge based modes converge to ~1e-6; the Gram-matrix based ones (projector*, dm, full-bond) work
                        # with eigendecompositions of squared quantities and are accurate to ~sqrt(machine eps) x conditioning
                        loose = 100 if (mode.startswith(("fit", "src")) or mode in ("su", "superorthogonal", "l2bp")) else 1
                        if mode.startswith("projector") or mode in ("dm", "full-bond"):
                            loose = 1000  # (1e-5 relative in double precision; observed 3.5e-6 on a rank-deficient norm network)
                        return cmp_value(value_of(r), ex, tol * loose, "value of the network after the step")

                    cx.check("contract_boundary_from_{xmin,xmax,ymin,ymax}: one inward step keeps the value (untruncated) / obeys the cap",
                             p, t_step)
            # mps sweep and full bootstrap
            for direction in (None, "xmin", "xmax", "ymin", "ymax"):
                def t_sweep(direction=direction):
                    r = tn.contract_mps_sweep(max_bond=CHI, cutoff=0.0, direction=direction)
                    return cmp_value(as_value(r), ex, tol)

                cx.check("contract_mps_sweep (untruncated) == exact contraction", dict(base, direction=direction), t_sweep)
            if min(Lx, Ly) >= 2 and not cyc:
                for n in (2, 3, 4):
                    def t_boot(n=n):
                        r = tn.contract_full_bootstrap(n, max_bond=CHI, cutoff=0.0)
                        return cmp_value(as_value(r), ex, tol)

                    cx.check("contract_full_bootstrap(n) (untruncated) == exact contraction",
                             dict(base, n=n, two_rows=(Lx == 2 if Lx >= Ly else Ly == 2)), t_boot)


@driver("C12", "environments-2d", chunks=2, timeout=300,
        bound="compute_environments (4 sides) / compute_x_environments / compute_y_environments / compute_plaquette_environments "
              "on the same 2D networks (flat up to 4x4, PEPS norms up to 4x3, three-layer sandwiches), modes mps / full-bond / "
              "projector2d / 1D compressors, canonize, dense, layer_tags, equalize_norms, x/y ranges, supplied envs dict, "
              "first_contract / second_dense for plaquettes of size 1x1..2x2. untruncated (max_bond=4096, cutoff=0): every stored "
              "environment combined with the rows / columns / plaquette it excludes contracts to the value of the whole "
              "(x 10**(env.exponent + tn.exponent)); capped: every bond inside an environment <= cap")
def environments_2d(cx):
    quiet_env()
    rng = cx.rng
    expos = ["none", "attr", "equalize"]
    geos = [g for g in _geos_2d(cx.quick) if g[1] * g[2] <= 16]
    env_modes = ["mps", "full-bond", "projector2d", "direct", "dm", "zipup", "local-early", "projector"]
    for gi, (kind, Lx, Ly, D, cyc) in enumerate(geos):
        for di, dtype in enumerate(DTYPES):
            if di >= 2 and (cx.quick or Lx * Ly > 9) and (gi + di) % 2:
                continue
            how = expos[(gi + di + 1) % 3]
            if not cx.mine():
                continue
            if cx.out_of_time():
                cx.inconclusive.append("environments-2d: time budget exhausted")
                return
            tn, layers = make_2d(rng, kind, Lx, Ly, D, dtype, cyc)
            set_exponent(tn, rng, how, dtype)
            ex = value_of(tn)
            base = dict(kind=kind, L=[Lx, Ly], D=D, cyclic=list(cyc) if isinstance(cyc, tuple) else cyc, dtype=dtype,
                        exponent=how != "none", expo=how, unit_dim=1 in (Lx, Ly))
            tol = tol_of(dtype, 10)
            d_edge = D if kind == "flat" else (D * D if kind == "norm" else 2 * D * D)

            def rows(sel):
                return [t for i in sel for j in range(Ly) for t in tn.select_tensors(tn.site_tag(i, j))]

            def cols(sel):
                return [t for j in sel for i in range(Lx) for t in tn.select_tensors(tn.site_tag(i, j))]

            def joined_value(envs_list, comp):
                ops = [(np.asarray(t.data).astype(np.complex128), t.inds) for e in envs_list for t in e.tensors]
                ops += [(np.asarray(t.data).astype(np.complex128), t.inds) for t in comp]
                expo = sum(float(e.exponent) for e in envs_list) + float(tn.exponent)
                return complex(contract_dense(ops, [])) * 10.0 ** expo

            def complement(fw, i):
                if fw == "xmin":
                    return rows(range(i, Lx))
                if fw == "xmax":
                    return rows(range(0, i + 1))
                if fw == "ymin":
                    return cols(range(i, Ly))
                return cols(range(0, i + 1))

            for fw in ("xmin", "xmax", "ymin", "ymax"):
                Lw = Lx if fw[0] == "x" else Ly
                for mode in [env_modes[int(x)] for x in rng.permutation(len(env_modes))[:(3 if cx.quick else 6)]]:
                    canonize = bool(rng.integers(2))
                    dense = bool(rng.random() < 0.2)
                    lt = layers if (layers is not None and rng.random() < 0.7) else None
                    eq = [False, False, True, 1.0][int(rng.integers(4))] if mode != "full-bond" else False
                    cap = int(rng.integers(D, D * D)) if D > 1 else 1
                    for capped in (False, True):
                        if capped and dense:
                            continue
                        p = dict(base, from_which=fw, mode=mode, canonize=canonize, dense=dense, layered=lt is not None,
                                 equalize_norms=eq, cap=cap if capped else None)

                        def t_env(fw=fw, Lw=Lw, mode=mode, canonize=canonize, dense=dense, lt=lt, eq=eq, cap=cap, capped=capped):
                            envs = tn.compute_environments(fw, max_bond=cap if capped else CHI, cutoff=0.0, mode=mode, canonize=canonize,
                                                           dense=dense, layer_tags=lt, equalize_norms=eq)
                            want = {(fw, i) for i in range(Lw)}
                            if not want <= set(envs):
                                return f"missing environments {sorted(want - set(envs))}"
                            for i in range(Lw):
                                env = envs[fw, i]
                                if capped:
                                    e = check_cap(env, cap, d_edge if lt is None else D, f"environment {fw},{i}")
                                else:
                                    e = cmp_value(joined_value([env], complement(fw, i)), ex, tol, f"environment ({fw},{i}) x complement")
                                if e:
                                    return e

                        cx.check("compute_environments(from_which): each stored environment x the excluded rows/columns == the whole "
                                 "(untruncated) / bonds within the cap", p, t_env)
            # a cap that is exactly the exact bond size after k rows (lossless up to there, and SATURATED): the environments
            # of the first k rows must still be exact after the whole sweep, with late and with early compression
            if kind == "flat" and D >= 2 and not (isinstance(cyc, tuple) and any(cyc)) and cyc in (False, (False, False)):
                for fw in ("xmin", "xmax", "ymin", "ymax"):
                    Lw = Lx if fw[0] == "x" else Ly
                    Lo = Ly if fw[0] == "x" else Lx
                    if Lw < 3 or Lo < 2:
                        continue
                    for k, late, canonize in itertools.product(range(1, Lw - 1), (True, False), (True, False)):
                        capk = D ** k
                        p = dict(base, from_which=fw, mode="mps", canonize=canonize, compress_late=late, tight_cap=capk, rows_exact=k)

                        def t_tight(fw=fw, k=k, late=late, canonize=canonize, capk=capk, Lw=Lw):
                            envs = tn.compute_environments(fw, max_bond=capk, cutoff=0.0, mode="mps", canonize=canonize,
                                                           compress_late=late)
                            # (xmin, i) holds the i rows below row i; (xmax, i) the Lw-1-i rows above it
                            reach = range(0, k + 1) if fw.endswith("min") else range(Lw - 1 - k, Lw)
                            for i in reach:
                                env = envs[fw, i]
                                e = check_cap(env, capk, D, f"environment {fw},{i}")
                                if e:
                                    return e
                                e = cmp_value(joined_value([env], complement(fw, i)), ex, tol,
                                              f"environment ({fw},{i}) x complement (cap {capk} = exact bond size after {k} rows)")
                                if e:
                                    return e

                        cx.check("compute_environments with a cap equal to the exact bond size: the environments within reach of that "
                                 "cap x the excluded rows/columns == the whole, bonds within the cap", p, t_tight)
            for which, mode in itertools.product("xy", [env_modes[int(x)] for x in rng.permutation(len(env_modes))[:(2 if cx.quick else 5)]]):
                Lw = Lx if which == "x" else Ly
                canonize = bool(rng.integers(2))
                dense = bool(rng.random() < 0.2)
                lt = layers if (layers is not None and rng.random() < 0.7) else None
                supplied = bool(rng.integers(2))
                p = dict(base, which=which, mode=mode, canonize=canonize, dense=dense, layered=lt is not None, envs_supplied=supplied)

                def t_xy(which=which, Lw=Lw, mode=mode, canonize=canonize, dense=dense, lt=lt, supplied=supplied):
                    fn = tn.compute_x_environments if which == "x" else tn.compute_y_environments
                    store = {} if supplied else None
                    envs = fn(max_bond=CHI, cutoff=0.0, mode=mode, canonize=canonize, dense=dense, layer_tags=lt, envs=store)
                    if supplied and envs is not store:
                        return "the supplied envs dict was not used"
                    for i in range(Lw):
                        a, b = envs[which + "min", i], envs[which + "max", i]
                        mid = rows([i]) if which == "x" else cols([i])
                        e = cmp_value(joined_value([a, b], mid), ex, tol, f"{which}min x {which}={i} x {which}max")
                        if e:
                            return e

                cx.check("compute_x_environments / compute_y_environments: lower env x row/column i x upper env == the whole", p, t_xy)
            for (xb, yb) in [(1, 1), (1, 2), (2, 1), (2, 2)]:
                if xb > Lx or yb > Ly:
                    continue
                for fc, sd in itertools.product((None, "x", "y"), (None, True, False)):
                    if rng.random() < (0.75 if cx.quick else 0.4):
                        continue
                    mode = ["mps", "full-bond", "projector2d"][int(rng.integers(3))]
                    lt = layers if (layers is not None and rng.random() < 0.7) else None
                    canonize = bool(rng.integers(2))
                    cap = int(rng.integers(D, D * D)) if D > 1 else 1
                    for capped in (False, True):
                        p = dict(base, x_bsz=xb, y_bsz=yb, first_contract=fc, second_dense=sd, mode=mode, canonize=canonize,
                                 layered=lt is not None, cap=cap if capped else None)

                        def t_pl(xb=xb, yb=yb, fc=fc, sd=sd, mode=mode, lt=lt, canonize=canonize, cap=cap, capped=capped):
                            envs = tn.compute_plaquette_environments(x_bsz=xb, y_bsz=yb, max_bond=cap if capped else CHI, cutoff=0.0,
                                                                     first_contract=fc, second_dense=sd, mode=mode, layer_tags=lt,
                                                                     canonize=canonize)
                            want = {((i, j), (xb, yb)) for i in range(Lx - xb + 1) for j in range(Ly - yb + 1)}
                            if cyc:
                                want = {w for w in want if w in envs}
                            if not want <= set(envs):
                                return f"missing plaquettes {sorted(want - set(envs))[:3]}"
                            for (i0, j0), sz in sorted(want):
                                env = envs[(i0, j0), sz]
                                if capped:
                                    if sd is True or (sd is None and 1 in (xb, yb)):
                                        continue  # dense second sweep: nothing is compressed there
                                    e = check_cap(env, cap, d_edge if lt is None else D, f"plaquette environment {(i0, j0), sz}")
                                else:
                                    inner = [t for i in range(i0, i0 + xb) for j in range(j0, j0 + yb)
                                             for t in tn.select_tensors(tn.site_tag(i, j))]
                                    e = cmp_value(joined_value([env], inner), ex, tol, f"plaquette {(i0, j0), sz}: env x plaquette")
                                if e:
                                    return e

                        cx.check("compute_plaquette_environments: environment x its plaquette == the whole (untruncated) / bonds within the cap",
                                 p, t_pl)


# ----------------------------------------------------------------------------------------------
# coarse graining (HOTRG) and corner transfer (CTMRG) in 2D
# ----------------------------------------------------------------------------------------------

@driver("C12", "coarse-graining-2d", chunks=2, timeout=300,
        bound="contract_hotrg / contract_ctmrg / coarse_grain_hotrg on flat lattices 2x2..5x3 (bond 2..3, open; 3x3 / 4x3 "
              "periodic) and PEPS norm networks up to 3x3, 4 dtypes, stored exponents; canonize on/off, lazy, sequence, "
              "max_separation, strip_exponent / equalize_norms, gauge_power, in place or copy. untruncated "
              "(max_bond=4096, cutoff=0): value == exact (1e-7 double / 5e-3 single); capped (cap in [D, D^2-1]): every bond of "
              "the returned (final_contract=False or lazy) or coarse-grained network <= cap")
def coarse_graining_2d(cx):
    quiet_env()
    rng = cx.rng
    expos = ["none", "attr", "equalize"]
    if cx.quick:
        geos = [("flat", 2, 2, 3, False), ("flat", 2, 3, 2, False), ("flat", 3, 3, 2, False), ("flat", 4, 4, 2, False),
                ("flat", 3, 4, 3, False), ("flat", 1, 3, 2, False), ("flat", 3, 3, 2, True), ("norm", 2, 2, 2, False),
                ("norm", 3, 3, 2, False)]
    else:
        geos = [("flat", 1, 1, 2, False), ("flat", 1, 4, 2, False), ("flat", 3, 1, 2, False), ("flat", 2, 2, 3, False),
                ("flat", 2, 3, 2, False), ("flat", 3, 3, 2, False), ("flat", 3, 3, 3, False), ("flat", 4, 4, 2, False),
                ("flat", 3, 4, 3, False), ("flat", 5, 3, 2, False), ("flat", 2, 5, 2, False), ("flat", 4, 4, 3, False),
                ("flat", 3, 3, 2, True), ("flat", 4, 3, 2, (True, False)), ("flat", 3, 4, 2, (False, True)),
                ("norm", 2, 2, 2, False), ("norm", 3, 3, 2, False), ("norm", 2, 4, 2, False), ("norm", 4, 3, 2, False)]
    for gi, (kind, Lx, Ly, D, cyc) in enumerate(geos):
        for di, dtype in enumerate(DTYPES):
            if di >= 2 and (cx.quick or Lx * Ly > 9) and (gi + di) % 2:
                continue
            how = expos[(gi + di + 2) % 3]
            if not cx.mine():
                continue
            if cx.out_of_time():
                cx.inconclusive.append("coarse-graining-2d: time budget exhausted")
                return
            tn, layers = make_2d(rng, kind, Lx, Ly, D, dtype, cyc)
            set_exponent(tn, rng, how, dtype)
            ex = value_of(tn)
            before = tn.copy()
            base = dict(kind=kind, L=[Lx, Ly], D=D, cyclic=list(cyc) if isinstance(cyc, tuple) else cyc, dtype=dtype,
                        exponent=how != "none", expo=how, unit_dim=1 in (Lx, Ly))
            tol = tol_of(dtype, 10)
            d_edge = D if kind == "flat" else D * D
            nrep = 3 if cx.quick else 8
            for scheme in ("hotrg", "ctmrg"):
                for _ in range(nrep):
                    canonize = bool(rng.integers(2))
                    nopts = _norm_opts(rng)
                    inplace = bool(rng.integers(2))
                    kw = dict(canonize=canonize, **nopts)
                    if scheme == "hotrg":
                        seq = [("x", "y"), ("y", "x"), ("x",), ("y",), ("x", "x", "y")][int(rng.integers(5))]
                        kw.update(sequence=seq, gauge_power=[1.0, 0.5][int(rng.integers(2))])
                    else:
                        seq = [None, "bltr", "tb", "l", ("xmin", "ymax"), "rl"][int(rng.integers(6))]
                        kw.update(sequence=seq)
                        if rng.random() < 0.5:
                            kw.update(mode="projector")  # (the documented default; its canonize / lazy options belong to this mode)
                    ms = int(rng.integers(1, 3))
                    kw["max_separation"] = ms
                    p = dict(base, scheme=scheme, inplace=inplace, **{k: (list(v) if isinstance(v, tuple) else v) for k, v in kw.items()})

                    def t_exact(scheme=scheme, kw=kw, inplace=inplace):
                        t0 = tn.copy()
                        fn = t0.contract_hotrg if scheme == "hotrg" else t0.contract_ctmrg
                        r = fn(max_bond=CHI, cutoff=0.0, inplace=inplace, optimize="greedy", **kw)
                        e = cmp_value(as_value(r), ex, tol)
                        if e:
                            return e
                        if not inplace and not tensors_equal(t0, before):
                            return "inplace=False modified the network"

                    cx.check("contract_hotrg / contract_ctmrg (2D) with max_bond >= exact bond and cutoff=0 == exact contraction", p, t_exact)
                    cap = int(rng.integers(d_edge, d_edge * d_edge)) if d_edge > 1 else 1
                    lazy = bool(rng.integers(2))
                    kw2 = {k: v for k, v in kw.items() if k not in ("strip_exponent", "equalize_norms")}
                    p2 = dict(base, scheme=scheme, cap=cap, lazy=lazy, **{k: (list(v) if isinstance(v, tuple) else v) for k, v in kw2.items()})

                    def t_cap(scheme=scheme, kw2=kw2, cap=cap, lazy=lazy):
                        fn = tn.contract_hotrg if scheme == "hotrg" else tn.contract_ctmrg
                        r = fn(max_bond=cap, cutoff=0.0, optimize="greedy", **(dict(lazy=True) if lazy else dict(final_contract=False)), **kw2)
                        if not hasattr(r, "tensors"):
                            return "no network handed over although final_contract=False / lazy=True"
                        return check_cap(r, cap, d_edge)

                    cx.check("contract_hotrg / contract_ctmrg (2D) with a small cap: every bond of the handed-over network is within the cap",
                             p2, t_cap)
            for direction in "xy":
                for canonize, lazy in itertools.product((False, True), (False, True)):
                    cap = int(rng.integers(d_edge, d_edge * d_edge)) if d_edge > 1 else 1
                    for capped in (False, True):
                        nopts = _norm_opts(rng) if not capped else {}
                        p = dict(base, direction=direction, canonize=canonize, lazy=lazy, cap=cap if capped else None, **nopts)

                        def t_cg(direction=direction, canonize=canonize, lazy=lazy, cap=cap, capped=capped, nopts=nopts):
                            r = tn.coarse_grain_hotrg(direction, max_bond=cap if capped else CHI, cutoff=0.0, canonize=canonize, lazy=lazy,
                                                      optimize="greedy", **nopts)
                            if isinstance(r, tuple):  # (network, exponent) when strip_exponent
                                r, e10 = r
                            else:
                                e10 = 0.0
                            if not tensors_equal(tn, before):
                                return "the non in-place call modified the network"
                            if capped:
                                return check_cap(r, cap, d_edge)
                            if not lazy:
                                L0 = Lx if direction == "x" else Ly
                                L1 = r.Lx if direction == "x" else r.Ly
                                if L1 != (L0 + 1) // 2:
                                    return f"coarse grained length {L1}, expected {(L0 + 1) // 2}"
                            return cmp_value(value_of(r, e10), ex, tol, "value of the coarse-grained network")

                        cx.check("coarse_grain_hotrg (2D): keeps the value when untruncated, halves the lattice, obeys the cap", p, t_cg)


# ----------------------------------------------------------------------------------------------
# 3D lattices
# ----------------------------------------------------------------------------------------------

MODES_3D = ["peps", "projector3d", "l2bp3d", "local-early", "local-late", "projector", "su", "l2bp"]
SEQUENCES_3D = [None, ("xmin",), ("zmax",), ("xmin", "xmax"), ("ymin", "zmax"), ("zmin", "zmax", "ymin", "ymax", "xmin", "xmax"),
                ("xmax", "ymax", "zmax")]


def _geos_3d(quick):
    if quick:
        return [(2, 2, 2, 2), (2, 2, 3, 2), (1, 2, 3, 2), (2, 2, 2, 3)]
    return [(1, 1, 1, 2), (1, 1, 3, 2), (1, 2, 2, 3), (2, 1, 3, 2), (2, 2, 2, 2), (2, 2, 2, 3), (2, 2, 3, 2), (3, 2, 2, 2),
            (2, 3, 2, 2), (2, 3, 3, 2), (3, 3, 3, 2), (2, 2, 4, 2)]


@driver("C12", "boundary-and-coarse-graining-3d", chunks=3, timeout=300,
        bound="TensorNetwork3D.contract_boundary (8 modes, 7 sequences, canonize, strip_exponent / equalize_norms, max_separation, "
              "final_contract=False), contract_boundary_from (one step from each of the 6 sides), contract_peps_sweep, "
              "contract_simple_sweep (cutoff 0 passed through peps_opts / mps_opts), contract_ctmrg, contract_hotrg, "
              "coarse_grain_hotrg on random lattices 1x1x1..3x3x3 / 2x2x4 with bond 2 (3 on 2x2x2), 4 dtypes, stored exponents. "
              "untruncated (max_bond=4096, cutoff=0): value == exact (1e-7 double / 5e-3 single, x100 for the simple-update "
              "based schemes); capped (cap in [D, D^2-1]): every bond of the handed-over network <= cap")
def lattice_3d(cx):
    import quimb.tensor as qtn

    quiet_env()
    rng = cx.rng
    expos = ["none", "attr", "equalize"]
    for gi, (Lx, Ly, Lz, D) in enumerate(_geos_3d(cx.quick)):
        for di, dtype in enumerate(DTYPES):
            if di >= 2 and (cx.quick or Lx * Ly * Lz > 8) and (gi + di) % 2:
                continue
            how = expos[(gi + di) % 3]
            if not cx.mine():
                continue
            if cx.out_of_time():
                cx.inconclusive.append("boundary-and-coarse-graining-3d: time budget exhausted")
                return
            tn = qtn.TN3D_rand(Lx, Ly, Lz, D, seed=int(rng.integers(1 << 30)), dtype=dtype)
            rescale(tn, rng)
            set_exponent(tn, rng, how, dtype)
            ex = value_of(tn)
            before = tn.copy()
            base = dict(L=[Lx, Ly, Lz], D=D, dtype=dtype, exponent=how != "none", expo=how, unit_dim=1 in (Lx, Ly, Lz))
            tol = tol_of(dtype, 10)
            big = Lx * Ly * Lz > 12
            for mode in MODES_3D:
                for _ in range(1 if (cx.quick or big) else 2):
                    canonize = bool(rng.integers(2))
                    seq = SEQUENCES_3D[int(rng.integers(len(SEQUENCES_3D)))]
                    nopts = _norm_opts(rng)
                    inplace = bool(rng.integers(2))
                    p = dict(base, mode=mode, canonize=canonize, sequence=list(seq) if seq else None, inplace=inplace, **nopts)
                    loose = 100 if mode in ("su", "l2bp", "l2bp3d") else 1

                    def t_exact(mode=mode, canonize=canonize, seq=seq, nopts=nopts, inplace=inplace, loose=loose):
                        t0 = tn.copy()
                        r = t0.contract_boundary(max_bond=CHI, cutoff=0.0, mode=mode, canonize=canonize, sequence=seq, inplace=inplace,
                                                 optimize="greedy", **nopts)
                        e = cmp_value(as_value(r), ex, tol * loose)
                        if e:
                            return e
                        if not inplace and not tensors_equal(t0, before):
                            return "inplace=False modified the network"

                    cx.check("contract_boundary (3D) with max_bond >= exact bond and cutoff=0 == exact contraction", p, t_exact)
                cap = int(rng.integers(D, D * D))
                seq = SEQUENCES_3D[int(rng.integers(len(SEQUENCES_3D)))]
                variant = ["final_contract=False", "max_separation=2"][int(rng.integers(2))]
                p = dict(base, mode=mode, sequence=list(seq) if seq else None, cap=cap, handover=variant)

                def t_cap(mode=mode, seq=seq, cap=cap, variant=variant):
                    kw = dict(final_contract=False)
                    if variant == "max_separation=2":
                        kw["max_separation"] = 2
                    r = tn.contract_boundary(max_bond=cap, cutoff=0.0, mode=mode, sequence=seq, optimize="greedy", **kw)
                    if not hasattr(r, "tensors"):
                        return "no network handed over although final_contract=False"
                    return check_cap(r, cap, D)

                cx.check("contract_boundary (3D) with a small cap: every bond of the handed-over network is within the cap", p, t_cap)
                # one step from a random side
                fw = ["xmin", "xmax", "ymin", "ymax", "zmin", "zmax"][int(rng.integers(6))]
                Ls = dict(x=Lx, y=Ly, z=Lz)
                if Ls[fw[0]] >= 2:
                    rg = (0, 1) if fw.endswith("min") else (Ls[fw[0]] - 2, Ls[fw[0]] - 1)
                    for capped, inplace in itertools.product((False, True), (True, False)):
                        if (cx.quick or big) and rng.random() < 0.5:
                            continue
                        p = dict(base, mode=mode, from_which=fw, cap=cap if capped else None, inplace=inplace,
                                 full_range=Ls[fw[0]] == 2)

                        def t_step(mode=mode, fw=fw, rg=rg, cap=cap, capped=capped, inplace=inplace):
                            ranges = dict(xrange=(0, Lx - 1), yrange=(0, Ly - 1), zrange=(0, Lz - 1))
                            ranges[fw[0] + "range"] = rg
                            t0 = tn.copy()
                            r = t0.contract_boundary_from(from_which=fw, max_bond=cap if capped else CHI, cutoff=0.0, mode=mode,
                                                          inplace=inplace, **ranges)
                            if inplace:
                                r = t0  # (the in-place spelling is inspected through the object it was called on)
                            elif not tensors_equal(t0, before):
                                return "the non in-place call modified the network"
                            if r is None:
                                return "the non in-place call returned None (the contracted copy is lost)"
                            if capped:
                                return check_cap(r, cap, D)
                            return cmp_value(value_of(r), ex, tol * (100 if mode in ("su", "l2bp", "l2bp3d") else 1), "value after the step")

                        cx.check("contract_boundary_from (3D): one inward step keeps the value (untruncated) / obeys the cap", p, t_step)
            # sweeps
            for fw in (None, "xmin", "ymax", "zmin"):
                for canonize in (True, False):
                    def t_ps(fw=fw, canonize=canonize):
                        r = tn.contract_peps_sweep(max_bond=CHI, cutoff=0.0, from_which=fw, canonize=canonize)
                        return cmp_value(as_value(r), ex, tol)

                    cx.check("contract_peps_sweep (3D, untruncated) == exact contraction", dict(base, from_which=fw, canonize=canonize), t_ps)

            def t_ss():
                r = tn.contract_simple_sweep(max_bond=CHI, peps_opts=dict(cutoff=0.0), mps_opts=dict(cutoff=0.0))
                return cmp_value(as_value(r), ex, tol * 100)

            cx.check("contract_simple_sweep (3D, untruncated, cutoff=0) == exact contraction", dict(base), t_ss)
            for scheme in ("ctmrg", "hotrg"):
                for _ in range(2 if cx.quick else 5):
                    canonize = bool(rng.integers(2))
                    nopts = _norm_opts(rng)
                    kw = dict(canonize=canonize, **nopts)
                    if scheme == "hotrg":
                        kw["sequence"] = [("x", "y", "z"), ("z", "x"), ("y",), ("z", "y", "x")][int(rng.integers(4))]
                    else:
                        kw["sequence"] = SEQUENCES_3D[int(rng.integers(len(SEQUENCES_3D)))]
                    p = dict(base, scheme=scheme, **{k: (list(v) if isinstance(v, tuple) else v) for k, v in kw.items()})

                    def t_cs(scheme=scheme, kw=kw):
                        fn = tn.contract_hotrg if scheme == "hotrg" else tn.contract_ctmrg
                        r = fn(max_bond=CHI, cutoff=0.0, optimize="greedy", **kw)
                        return cmp_value(as_value(r), ex, tol)

                    cx.check("contract_hotrg / contract_ctmrg (3D) with max_bond >= exact bond and cutoff=0 == exact contraction", p, t_cs)
                    cap = int(rng.integers(D, D * D))
                    lazy = bool(rng.integers(2))
                    kw2 = {k: v for k, v in kw.items() if k not in ("strip_exponent", "equalize_norms")}

                    def t_cc(scheme=scheme, kw2=kw2, cap=cap, lazy=lazy):
                        fn = tn.contract_hotrg if scheme == "hotrg" else tn.contract_ctmrg
                        r = fn(max_bond=cap, cutoff=0.0, optimize="greedy", **(dict(lazy=True) if lazy else dict(final_contract=False)), **kw2)
                        if not hasattr(r, "tensors"):
                            return "no network handed over although final_contract=False / lazy=True"
                        return check_cap(r, cap, D)

                    cx.check("contract_hotrg / contract_ctmrg (3D) with a small cap: every bond of the handed-over network is within the cap",
                             dict(base, scheme=scheme, cap=cap, lazy=lazy, **{k: (list(v) if isinstance(v, tuple) else v) for k, v in kw2.items()}), t_cc)
            for direction in "xyz":
                for canonize, lazy, capped in itertools.product((False, True), (False, True), (False, True)):
                    cap = int(rng.integers(D, D * D))
                    p = dict(base, direction=direction, canonize=canonize, lazy=lazy, cap=cap if capped else None)

                    def t_cg(direction=direction, canonize=canonize, lazy=lazy, cap=cap, capped=capped):
                        r = tn.coarse_grain_hotrg(direction, max_bond=cap if capped else CHI, cutoff=0.0, canonize=canonize, lazy=lazy,
                                                  optimize="greedy")
                        if not tensors_equal(tn, before):
                            return "the non in-place call modified the network"
                        if capped:
                            return check_cap(r, cap, D)
                        return cmp_value(value_of(r), ex, tol, "value of the coarse-grained network")

                    cx.check("coarse_grain_hotrg (3D): keeps the value when untruncated, obeys the cap", p, t_cg)


# ----------------------------------------------------------------------------------------------
# arbitrary geometry
# ----------------------------------------------------------------------------------------------

COMPRESS_MODES = ["auto", "basic", "virtual-tree", "full-bond", "local-fit"]
AG_METHODS = ["local-early", "local-late", "projector", "su", "superorthogonal", "l2bp"]


def random_graph_edges(rng, n, kind):
    """edge list of a random connected graph on n nodes: 'tree', 'regular' (3-regular when possible) or 'sparse'"""
    edges = set()
    if kind == "regular" and n >= 4 and n % 2 == 0:
        for _ in range(200):
            stubs = [v for v in range(n) for _ in range(3)]
            perm = [stubs[int(x)] for x in rng.permutation(len(stubs))]
            es = {tuple(sorted(perm[k:k + 2])) for k in range(0, len(perm), 2)}
            if len(es) == 3 * n // 2 and all(a != b for a, b in es):
                adj = {v: set() for v in range(n)}
                for a, b in es:
                    adj[a].add(b)
                    adj[b].add(a)
                seen, todo = {0}, [0]
                while todo:
                    for w in adj[todo.pop()]:
                        if w not in seen:
                            seen.add(w)
                            todo.append(w)
                if len(seen) == n:
                    return sorted(es)
    for i in range(1, n):
        edges.add((int(rng.integers(0, i)), i))
    if kind != "tree":
        cand = [(i, j) for i in range(n) for j in range(i + 1, n) if (i, j) not in edges]
        for e in rng.permutation(len(cand))[: max(1, n // 2)]:
            edges.add(cand[int(e)])
    return sorted(edges)


def make_graph_tn(rng, edges, n, D, dtype, phys=None):
    """scalar network (phys=None) or vector network with one dangling index of size phys per node"""
    import quimb.tensor as qtn

    inds = {i: [] for i in range(n)}
    shapes = {i: [] for i in range(n)}
    for k, (i, j) in enumerate(edges):
        d = D if isinstance(D, int) else int(rng.integers(D[0], D[1] + 1))
        for s in (i, j):
            inds[s].append(f"_e{k}")
            shapes[s].append(d)
    ts = []
    for i in range(n):
        ii, sh = list(inds[i]), list(shapes[i])
        if phys:
            ii.append(f"k{i}")
            sh.append(phys)
        x = rng.normal(size=sh)
        if "complex" in dtype:
            x = x + 1j * rng.normal(size=sh)
        ts.append(qtn.Tensor(x.astype(dtype), inds=ii, tags=[f"I{i}"]))
    return qtn.TensorNetwork(ts)


def explicit_paths(rng, n, edges):
    """two explicit contraction paths (linear format): random order along edges, and a chain order"""
    paths = []
    # chain: always contract the first two remaining
    paths.append(("chain", [(0, 1)] * (n - 1)))
    # random pairwise order
    ids = list(range(n))
    p = []
    while len(ids) > 1:
        a, b = sorted(int(x) for x in rng.permutation(len(ids))[:2])
        p.append((a, b))
        ids.pop(b)
        ids.pop(a)
        ids.append(-1)
    paths.append(("random", p))
    return paths


@driver("C12", "arbitrary-geometry-compressed-contraction", chunks=3, timeout=300,
        bound="contract_compressed (optimizers greedy / greedy-compressed / greedy-span / auto / explicit linear paths: chain and "
              "random pairwise order; 5 compress modes; compress_late, tree_gauge_distance, canonize distances, compress_span, "
              "compress_matrices, compress_min_size, strip_exponent / equalize_norms, simple-update gauges, output_inds on vector "
              "networks, callbacks), contract_around / contract_around_center / contract_around_corner, compress_all (5 modes) / "
              "compress_all_tree / compress_all_1d / compress_all_simple and tensor_network_ag_compress (6 methods) on random "
              "trees, 3-regular and sparse graphs with 2..8 tensors, bonds 2..3 (mixed), 4 dtypes, stored exponents. untruncated "
              "(max_bond=4096, cutoff=0): value / dense tensor unchanged (1e-8 double / 2e-3 single, x100 for gauged / fitted "
              "variants); capped: every compressed pair (post-compress callback) and every bond of the result <= cap")
def arbitrary_geometry(cx):
    quiet_env()
    rng = cx.rng
    expos = ["none", "attr", "equalize"]
    if cx.quick:
        geos = [(2, "tree"), (3, "sparse"), (5, "tree"), (6, "regular"), (7, "sparse"), (8, "regular"), (8, "tree")]
    else:
        geos = [(1, "tree"), (2, "tree"), (3, "tree"), (3, "sparse"), (4, "regular"), (4, "tree"), (5, "sparse"), (5, "tree"),
                (6, "regular"), (6, "sparse"), (7, "tree"), (7, "sparse"), (8, "regular"), (8, "sparse"), (8, "tree")]
    reps = 1 if cx.quick else 2
    for (gi, (n, gk)), rep in itertools.product(enumerate(geos), range(reps)):
        for di, dtype in enumerate(DTYPES):
            if di >= 2 and cx.quick and (gi + di) % 2:
                continue
            how = expos[(gi + di + rep) % 3]
            if not cx.mine():
                continue
            if cx.out_of_time():
                cx.inconclusive.append("arbitrary-geometry-compressed-contraction: time budget exhausted")
                return
            edges = random_graph_edges(rng, n, gk) if n > 1 else []
            D = [2, 3, (2, 3)][int(rng.integers(3))]
            Dmax = D if isinstance(D, int) else D[1]
            tn = make_graph_tn(rng, edges, n, D, dtype)
            set_exponent(tn, rng, how, dtype)
            ex = value_of(tn)
            before = tn.copy()
            base = dict(n=n, graph=gk, D=D if isinstance(D, int) else list(D), dtype=dtype, exponent=how != "none", expo=how, rep=rep)
            tol = tol_of(dtype)
            _ag_scalar(cx, rng, tn, before, ex, edges, n, Dmax, base, tol, dtype)
            _ag_vector(cx, rng, edges, n, D, Dmax, base, tol, dtype, how)


def _ag_scalar(cx, rng, tn, before, ex, edges, n, Dmax, base, tol, dtype):
    optimizers = ["greedy", "greedy-compressed", "greedy-span", "auto"]
    paths = explicit_paths(rng, n, edges) if n >= 2 else []
    trees = [(o, o) for o in optimizers] + [("path-" + nm, tuple(p)) for nm, p in paths]
    for (tname, opt), cm in itertools.product(trees, COMPRESS_MODES):
        if cx.quick and rng.random() < 0.5:
            continue
        extra = [dict(), dict(compress_late=True), dict(compress_late=False), dict(tree_gauge_distance=0), dict(tree_gauge_distance=3),
                 dict(canonize_distance=2, canonize_after_distance=1), dict(compress_span=2), dict(compress_matrices=False),
                 dict(compress_min_size=50), dict(strip_exponent=True), dict(equalize_norms=True), dict(equalize_norms=1.0),
                 dict(gauge_boundary_only=False), dict(preserve_tensor=True), dict(inplace=True)][int(rng.integers(15))]
        p = dict(base, tree=tname, compress_mode=cm, **extra)

        def t_cc(opt=opt, cm=cm, extra=extra):
            t0 = tn.copy()
            r = t0.contract_compressed(opt, max_bond=CHI, cutoff=0.0, compress_mode=cm, **extra)
            e = cmp_value(as_value(r), ex, tol * (100 if cm == "local-fit" else 1))
            if e:
                return e
            if not extra.get("inplace") and not tensors_equal(t0, before):
                return "inplace=False modified the network"

        cx.check("contract_compressed along the given tree with max_bond >= exact bond and cutoff=0 == exact contraction", p, t_cc)
        if n < 3 or (cm == "local-fit" and (n > 5 or Dmax > 2)):
            continue  # (a truncating local fit solves dense normal equations over the whole neighbourhood: tiny graphs only)
        cap = int(rng.integers(2, Dmax * Dmax)) if Dmax > 1 else 1
        p2 = dict(base, tree=tname, compress_mode=cm, cap=cap)

        early = bool(rng.random() < (0.4 if cx.quick else 1.0))
        p2["early_check"] = early

        def t_cap(opt=opt, cm=cm, cap=cap, early=early):
            worst = [0, 0, 0]

            def post(tnx, tids):
                t1, t2 = (tnx.tensor_map[t] for t in tids)
                worst[0] = max(worst[0], pair_bond(tnx, t1, t2))
                worst[1] += 1

            def step(tnx, tid):
                worst[2] += 1

            tn.contract_compressed(opt, max_bond=cap, cutoff=0.0, compress_mode=cm, callback_post_compress=post, callback=step)
            if worst[0] > cap:
                return f"after a compression the pair is joined by a bond of size {worst[0]} > cap {cap}"
            if worst[2] == 0:
                return "the per-step callback was never called"
            # early compression: right after every step the new intermediate is within the cap towards all its neighbours
            if not early:
                return None
            big = [0]

            def step2(tnx, tid):
                t = tnx.tensor_map[tid]
                for t2 in tnx.tensors:
                    if t2 is not t:
                        big[0] = max(big[0], pair_bond(tnx, t, t2))

            tn.contract_compressed(opt, max_bond=cap, cutoff=0.0, compress_mode=cm, compress_late=False, callback=step2)
            if big[0] > max(cap, Dmax):
                return f"compress_late=False: after a step the new intermediate has a bond of size {big[0]} > cap {cap} (original bonds {Dmax})"

        cx.check("contract_compressed with a small cap: every pair is within the cap right after its compression (callback)", p2, t_cap)
    # simple-update gauges supplied
    if n >= 2:
        for cm in ("auto", "basic"):
            def t_g(cm=cm):
                t0 = tn.copy()
                g = {}
                t0.gauge_all_simple_(5, gauges=g)
                ref = complex(contract_dense(raw_ops(t0) + [(np.asarray(v).astype(np.complex128), [ix]) for ix, v in g.items()], [])) \
                    * 10.0 ** float(t0.exponent)
                r = t0.contract_compressed("greedy", max_bond=CHI, cutoff=0.0, compress_mode=cm, gauges=g)
                return cmp_value(as_value(r), ref, tol * 100)

            cx.check("contract_compressed with simple-update gauges (untruncated) == exact value of tensors x gauges", dict(base, compress_mode=cm), t_g)
    # contract_around*
    tags = [f"I{int(x)}" for x in rng.permutation(n)[:2]]
    for which, fn in (("around", None), ("center", "contract_around_center"), ("corner", "contract_around_corner")):
        for kw in (dict(), dict(equalize_norms=True), dict(compress_late=False), dict(canonize_distance=2), dict(compress_span=True)):
            if cx.quick and rng.random() < 0.4:
                continue
            p = dict(base, which=which, **kw)

            def t_ar(which=which, fn=fn, kw=kw):
                if which == "around":
                    r = tn.contract_around(tags[:1], max_bond=CHI, cutoff=0.0, **kw)
                else:
                    r = getattr(tn, fn)(max_bond=CHI, cutoff=0.0, **kw)
                if not tensors_equal(tn, before):
                    return "the non in-place call modified the network"
                return cmp_value(as_value(r), ex, tol)

            cx.check("contract_around / contract_around_center / contract_around_corner (untruncated) keep the value", p, t_ar)
        if n >= 3:
            cap = int(rng.integers(2, Dmax * Dmax)) if Dmax > 1 else 1
            md = int(rng.integers(1, 3))

            def t_arc(which=which, fn=fn, cap=cap, md=md):
                worst = [0]

                def post(tnx, tids):
                    t1, t2 = (tnx.tensor_map[t] for t in tids)
                    worst[0] = max(worst[0], pair_bond(tnx, t1, t2))

                if which == "around":
                    r = tn.contract_around(tags[:1], max_bond=cap, cutoff=0.0, min_distance=md, callback_post_compress=post)
                else:
                    r = getattr(tn, fn)(max_bond=cap, cutoff=0.0, min_distance=md, callback_post_compress=post)
                if worst[0] > cap:
                    return f"after a compression the pair is joined by a bond of size {worst[0]} > cap {cap}"
                del r
                kw = dict(max_bond=cap, cutoff=0.0, min_distance=md, compress_late=False)
                r = tn.contract_around(tags[:1], **kw) if which == "around" else getattr(tn, fn)(**kw)
                if hasattr(r, "tensors") and max_pair_bond(r) > max(cap, Dmax):
                    return f"compress_late=False: the returned network has a bond of size {max_pair_bond(r)} > cap {cap} (original bonds {Dmax})"

            cx.check("contract_around* with a small cap: every pair is within the cap right after its compression (callback)",
                     dict(base, which=which, cap=cap, min_distance=md), t_arc)


def _ag_vector(cx, rng, edges, n, D, Dmax, base, tol, dtype, how):
    """networks with dangling indices: the dense tensor must be unchanged by untruncated compression"""
    tn = make_graph_tn(rng, edges, n, D, dtype, phys=2)
    set_exponent(tn, rng, how, dtype)
    outer = [f"k{i}" for i in range(n)]
    ref = dense_of(tn, outer)
    sc = float(np.linalg.norm(ref)) + 1e-300
    before = tn.copy()
    is_tree = len(edges) == n - 1

    def same(r, loose=1.0, what="dense tensor"):
        got = dense_of(r, outer)
        if got.shape != ref.shape:
            return f"{what}: shape {got.shape} != {ref.shape}"
        d = float(np.linalg.norm(got - ref))
        if not d <= tol * loose * sc:
            return f"{what}: changed by {d / sc:.2e} (relative)"
        return None

    for cm in COMPRESS_MODES:
        for kw in (dict(), dict(canonize=False), dict(tree_gauge_distance=2), dict(canonize_distance=1, canonize_after_distance=1)):
            if cx.quick and rng.random() < 0.5:
                continue
            inplace = bool(rng.integers(2))
            p = dict(base, mode=cm, inplace=inplace, **kw)

            def t_ca(cm=cm, kw=kw, inplace=inplace):
                t0 = tn.copy()
                r = t0.compress_all(max_bond=CHI, cutoff=0.0, mode=cm, inplace=inplace, **kw)
                if inplace and r is not t0:
                    return "inplace=True returned another object"
                if not inplace and not tensors_equal(t0, before):
                    return "inplace=False modified the network"
                return same(r, 100 if cm == "local-fit" else 1)

            cx.check("compress_all (untruncated) leaves the dense tensor unchanged", p, t_ca)
        if n >= 2 and not (cm == "local-fit" and (n > 5 or Dmax > 2)):
            cap = int(rng.integers(1, Dmax)) if Dmax > 1 else 1

            def t_cac(cm=cm, cap=cap):
                r = tn.compress_all(max_bond=cap, cutoff=0.0, mode=cm)
                m = max_pair_bond(r)
                if m > cap:
                    return f"a pair of tensors is joined by a bond of size {m} > cap {cap}"

            cx.check("compress_all with a cap below the bond dimension: every bond <= cap", dict(base, mode=cm, cap=cap), t_cac)
    for name in ("compress_all_tree", "compress_all_1d", "compress_all_simple"):
        if name == "compress_all_tree" and not is_tree:
            continue
        if name == "compress_all_1d" and not (is_tree and n <= 8):
            continue
        for capped in (False, True):
            cap = int(rng.integers(1, Dmax)) if Dmax > 1 else 1
            if capped and n < 2:
                continue
            p = dict(base, fn=name, cap=cap if capped else None)

            def t_cx(name=name, capped=capped, cap=cap):
                r = getattr(tn, name)(max_bond=cap if capped else CHI, cutoff=0.0)
                if not tensors_equal(tn, before):
                    return "the non in-place call modified the network"
                if capped:
                    m = max_pair_bond(r)
                    return f"a pair of tensors is joined by a bond of size {m} > cap {cap}" if m > cap else None
                return same(r, 100 if name == "compress_all_simple" else 1)

            cx.check("compress_all_tree / compress_all_1d / compress_all_simple: untruncated keeps the dense tensor, capped obeys the cap",
                     p, t_cx)
    # tensor_network_ag_compress: a two-layer network (sum over shared site tags) into one tensor per site
    if n >= 2:
        from quimb.tensor.tnag.compress import tensor_network_ag_compress

        b = make_graph_tn(rng, edges, n, 2, dtype, phys=2).reindex({f"k{i}": f"b{i}" for i in range(n)})
        for k, t in enumerate(b.tensors):  # distinct bond names in the second layer
            t.reindex_({ix: ix + "'" for ix in t.inds if ix.startswith("_e")})
        ab = tn.copy() | b
        outer2 = outer + [f"b{i}" for i in range(n)]
        ref2 = dense_of(ab, outer2)
        sc2 = float(np.linalg.norm(ref2)) + 1e-300
        site_tags = [f"I{i}" for i in range(n)]
        for method, capped in itertools.product(AG_METHODS, (False, True)):
            cap = int(rng.integers(2, 2 * Dmax)) if Dmax > 1 else 1
            kw = [dict(), dict(canonize=False), dict(equalize_norms=True)][int(rng.integers(3))]
            p = dict(base, method=method, cap=cap if capped else None, **kw)

            def t_ag(method=method, capped=capped, cap=cap, kw=kw):
                r = tensor_network_ag_compress(ab, max_bond=cap if capped else CHI, cutoff=0.0, method=method, site_tags=site_tags, **kw)
                if r.num_tensors != n:
                    return f"{r.num_tensors} tensors returned, expected one per site ({n})"
                if capped:
                    m = max_pair_bond(r)
                    return f"a pair of sites is joined by a bond of size {m} > cap {cap}" if m > cap else None
                got = dense_of(r, outer2)
                d = float(np.linalg.norm(got - ref2))
                loose = 1000 if method in ("su", "superorthogonal", "l2bp") else 10
                if not d <= tol * loose * sc2:
                    return f"dense tensor changed by {d / sc2:.2e} (relative)"

            cx.check("tensor_network_ag_compress: one tensor per site, untruncated keeps the dense tensor, capped obeys the cap", p, t_ag)


def _tn3d_periodic_in(rng, L, D, axis, dtype="float64"):
    """random 3D lattice, periodic in exactly one direction, built from raw numpy arrays (no quimb generator)"""
    import quimb.tensor as qtn

    ts = []
    for c in itertools.product(*[range(n) for n in L]):
        inds = []
        for a in range(3):
            lo = list(c)
            lo[a] = (c[a] - 1) % L[a]
            if a == axis or c[a] > 0:
                inds.append("b%d_%d,%d,%d" % ((a,) + tuple(lo)))
            if a == axis or c[a] < L[a] - 1:
                inds.append("b%d_%d,%d,%d" % ((a,) + c))
        data = rng.uniform(0.3, 1.0, size=(D,) * len(inds))
        if dtype.startswith("complex"):
            data = data * np.exp(0.3j * rng.normal(size=data.shape))
        ts.append(qtn.Tensor(data.astype(dtype), tuple(inds), tags=("I%d,%d,%d" % c, "X%d" % c[0], "Y%d" % c[1], "Z%d" % c[2])))
    return qtn.TensorNetwork(ts).view_as_(qtn.TensorNetwork3D, site_tag_id="I{},{},{}", x_tag_id="X{}", y_tag_id="Y{}", z_tag_id="Z{}",
                                          Lx=L[0], Ly=L[1], Lz=L[2])


@driver("C12", "periodic-one-direction-3d", chunks=2, timeout=300,
        bound="3x3x3 lattices with bond 2, periodic in exactly one of x / y / z (built from raw numpy arrays), one boundary step "
              "contract_boundary_from from each of the 4 sides across the periodic direction with mode='projector3d' and cap 3: every pair of tensors of the "
              "handed-over network is joined by at most the cap; the untruncated full contraction from that side == exact "
              "(double precision, real and complex); combinations the library rejects are counted as rejections")
def periodic_one_direction_3d(cx):
    quiet_env()
    rng = cx.rng
    L, D, cap = (3, 3, 3), 2, 3
    for axis, dtype in itertools.product(range(3), ("float64", "complex128")):
        if cx.quick and dtype == "complex128" and axis != 0:
            continue
        tn = _tn3d_periodic_in(rng, L, D, axis, dtype)
        ex = None
        for fw in ("xmin", "xmax", "ymin", "ymax", "zmin", "zmax"):
            if not cx.mine():
                continue
            if cx.out_of_time():
                cx.inconclusive.append("periodic-one-direction-3d: time budget exhausted")
                return
            if "xyz"[axis] == fw[0]:
                # sweeping ALONG the periodic direction: the merged plane is joined to the next one by the forward and the
                # wrap-around bond together -- bonds the scheme never compresses, so the cap says nothing about them
                continue
            p = dict(L=list(L), D=D, periodic_axis="xyz"[axis], from_which=fw, cap=cap, dtype=dtype)
            rg = (0, 1) if fw.endswith("min") else (L["xyz".index(fw[0])] - 2, L["xyz".index(fw[0])] - 1)

            def t_cap(fw=fw, rg=rg, tn=tn):
                ranges = dict(xrange=None, yrange=None, zrange=None)
                ranges[fw[0] + "range"] = rg
                r = tn.contract_boundary_from(from_which=fw, max_bond=cap, cutoff=0.0, mode="projector3d", **ranges)
                m = max_pair_bond(r)
                if m > cap:
                    return f"two tensors of the handed-over network are joined by a bond of total size {m} > cap {cap}"

            cx.check("contract_boundary_from (3D, projector3d) on a lattice periodic in one direction: every handed-over bond within the cap",
                     p, t_cap, allow_reject=True)
            if ex is None:
                ex = value_of(tn)

            def t_exact(fw=fw, tn=tn, ex=ex):
                r = tn.contract_boundary(max_bond=CHI, cutoff=0.0, mode="projector3d", sequence=(fw,), optimize="greedy")
                return cmp_value(as_value(r), ex, tol_of(dtype, 10))

            cx.check("contract_boundary (3D, projector3d) on a lattice periodic in one direction, untruncated == exact contraction",
                     dict(p, cap=None), t_exact, allow_reject=True)
